//! C19 — PRNG has full period; distributions stay in range for every state.
//!
//! Events: next_bits() on chosen states (the state is a public field);
//! Distrib::sample outputs.
//! Oracles: (period) an algebraic monitor over observed outputs — the step
//! map is observed on the 64 unit states, linearity over GF(2) is monitored
//! on many pairs, and the order of the observed matrix is computed offline;
//! (ranges) states are *solved for* with GF(2) linear algebra so that a draw
//! consumes a chosen mantissa, which turns "for every generator state" into
//! an exhaustive sweep over the 2^23 mantissas a float sample can consume.

use crate::gf2::{self, M64};
use crate::{catch, f32s, Cfg, Hasher, Json, Report, Rng};
use re::math::point::{pt2, Point2};
use re::math::rand::{Bernoulli, Distrib, PointsInUnitBall, PointsOnUnitDisk, Uniform, UnitCircle, UnitSphere, VectorsInUnitBall, VectorsOnUnitDisk, Xorshift64};
use re::math::vec::{vec2, vec3, Vec2, Vec3};

fn step(s: u64) -> u64 {
    let mut g = Xorshift64(s);
    g.next_bits()
}

const PRIMES: [u64; 7] = [3, 5, 17, 257, 641, 65537, 6700417];

pub const FLOAT_RANGES: [(f32, f32); 12] = [
    (0.0, 1.0),
    (-1.0, 1.0),
    (-3.0, -1.0),
    (1.0e6, 1.0e6 + 1.0),
    (1.0, 1.0000005),
    (1.0e-30, 2.0e-30),
    (-1.0e30, 1.0e30),
    (0.0, 255.0),
    (-0.5, 0.5),
    (100.0, 100.25),
    (-1.0000001, -1.0),
    (16777216.0, 16777218.0),
];

pub fn run(cfg: &Cfg, rep: &mut Report) {
    rep.rule = "period: the step map observed on the 64 unit states and on random/structured pairs (linearity), order computed from the observed matrix; float ranges: every one of the 2^23 mantissas a float draw can consume (state solved for by GF(2) inverse of the observed step matrix, verified through the real call) × 12 ranges; integers and Bernoulli on solved and random states; disk/ball/circle/sphere on random states and on states solved so that consecutive draws hit the centre; composite distributions against scalar draws from a cloned generator; non-trivial = all; distinct by hash of (state, distribution)".into();
    rep.assumptions.push("the period argument is conditional on linearity of the step map over GF(2), which is monitored on every pair drawn, not proved".into());

    rep.pin("F7a.float_sample_equals_end", {
        let x = Uniform(-1.0000001f32..-1.0).sample(&mut Xorshift64(0xfde978f1feb72314));
        if x < -1.0 { Ok(()) } else { Err(format!("Uniform(-1.0000001..-1.0).sample(state 0xfde978f1feb72314) = {x:?}, not below the end of the range")) }
    });
    rep.pin("F7b.unit_circle_zero_vector", match catch(|| UnitCircle.sample(&mut Xorshift64(0x5d8965c3f8ffe4ce)).0) {
        Err(m) => Err(format!("UnitCircle.sample(state 0x5d8965c3f8ffe4ce) panicked: {m}")),
        Ok(v) => {
            let l = ((v[0] as f64).powi(2) + (v[1] as f64).powi(2)).sqrt();
            if (l - 1.0).abs() <= 1e-3 { Ok(()) } else { Err(format!("UnitCircle.sample(state 0x5d8965c3f8ffe4ce) = {v:?}, length {l}")) }
        }
    });

    // ---- (A) period, algebraically over observed outputs
    let m = M64::observe(step);
    rep.add("step_observations", 64);
    let minv = m.inverse();
    {
        let zero_fixed = step(0) == 0;
        let order_ok = m.pow(u64::MAX as u128) == M64::identity();
        let mut proper = true;
        let mut which = vec![];
        for p in PRIMES {
            if m.pow((u64::MAX / p) as u128) == M64::identity() {
                proper = false;
                which.push(p);
            }
        }
        rep.info("step_matrix_invertible", minv.is_some());
        rep.info("M^(2^64-1)==I", order_ok);
        rep.info("M^((2^64-1)/p)!=I for all prime factors p", proper);
        if !(zero_fixed && minv.is_some() && order_ok && proper) {
            rep.violation(
                "rng.period_not_full",
                format!(
                    "the observed step matrix does not generate a single cycle of length 2^64−1 on the non-zero states: f(0)==0: {zero_fixed}, invertible: {}, M^(2^64−1)=I: {order_ok}, order divides (2^64−1)/p for p in {which:?}",
                    minv.is_some()
                ),
                Json::obj().set("first_columns", format!("{:#x?}", &m.c[..4])),
            );
        }
    }
    // linearity + agreement with the observed matrix
    rep.run_stream(cfg, 0, "step_linearity", cfg.n(2_000_000, 200_000_000), |rng, i, rep| {
        let (a, b) = match i % 4 {
            0 => (rng.u64(), rng.u64()),
            1 => (1u64 << rng.below(64), rng.u64()),
            2 => (rng.u64() & 0xFFFF, rng.u64() << 48),
            _ => (!0u64 >> rng.below(64), rng.u64()),
        };
        let mut hs = Hasher::new();
        hs.u64(a).u64(b);
        rep.case(hs.get(), true);
        let (fa, fb, fab) = (step(a), step(b), step(a ^ b));
        if fab != fa ^ fb || m.apply(a) != fa {
            rep.violation("rng.step_not_linear", format!("f({a:#x}) ^ f({b:#x}) = {:#x} but f(a^b) = {fab:#x}; observed matrix gives {:#x} for a", fa ^ fb, m.apply(a)), Json::obj().set("a", format!("{a:#x}")).set("b", format!("{b:#x}")));
            return;
        }
        if a != 0 && fa == 0 {
            rep.violation("rng.reaches_zero", format!("non-zero state {a:#x} steps to 0"), Json::obj().set("a", format!("{a:#x}")));
            return;
        }
        // equal seeds, equal sequences
        if a != 0 {
            let (mut g1, mut g2) = (Xorshift64::from_seed(a), Xorshift64::from_seed(a));
            for _ in 0..4 {
                if g1.next_bits() != g2.next_bits() {
                    rep.violation("rng.not_deterministic", format!("two generators seeded with {a:#x} diverge"), Json::obj().set("seed", format!("{a:#x}")));
                    return;
                }
            }
        }
        rep.count("linearity_pairs");
        if i < 2 {
            rep.sample(|| Json::obj().set("a", format!("{a:#x}")).set("b", format!("{b:#x}")).set("f(a)", format!("{fa:#x}")).set("f(a^b)", format!("{fab:#x}")));
        }
    });
    let Some(minv) = minv else {
        rep.note("step matrix not invertible: solved-state streams skipped".into());
        return;
    };
    // bijectivity cross-check through the real call
    rep.run_stream(cfg, 1, "preimages", cfg.n(1_000_000, 100_000_000), |rng, _, rep| {
        let y = rng.u64() | 1;
        let s = minv.apply(y);
        rep.case(y, true);
        if step(s) != y {
            rep.violation("rng.preimage_mismatch", format!("M⁻¹ says {s:#x} steps to {y:#x}, the real call gives {:#x}", step(s)), Json::obj().set("y", format!("{y:#x}")));
        }
        rep.count("preimages_verified");
    });

    // ---- (B) float ranges over all 2^23 mantissas
    let chunk = 1u64 << 10;
    rep.run_stream(cfg, 2, "float_all_mantissas", (1 << 23) / chunk, |rng, i, rep| {
        for k in 0..chunk {
            let mant = i * chunk + k;
            // three states per mantissa: random low bits, all-ones and
            // all-zeros below the mantissa (a sampler that looks at more
            // than the 23 mantissa bits has its extremes there)
            for variant in 0..3 {
            let low = match variant {
                0 => rng.u64() & ((1 << 41) - 1),
                1 => (1 << 41) - 1,
                _ => 0,
            };
            let y = (mant << 41) | low;
            if y == 0 {
                continue;
            }
            let s = minv.apply(y);
            for (ri, &(a, b)) in FLOAT_RANGES.iter().enumerate() {
                let mut g = Xorshift64(s);
                let x = Uniform(a..b).sample(&mut g);
                if g.0 != y {
                    rep.violation("rng.preimage_mismatch", format!("state {s:#x} did not produce the solved-for output {y:#x}"), Json::obj().set("state", format!("{s:#x}")));
                    return;
                }
                if !(x >= a && x < b) {
                    rep.violation(
                        if x == b { "rng.float_sample_equals_end" } else { "rng.float_sample_out_of_range" },
                        format!("Uniform({a:?}..{b:?}).sample with state {s:#x} (mantissa {mant:#x}) = {x:?}: not in the half-open range"),
                        Json::obj().set("state", format!("{s:#x}")).set("range", format!("{}..{}", f32s(a), f32s(b))).set("range_index", ri).set("mantissa", format!("{mant:#x}")),
                    );
                    return;
                }
            }
            // Bernoulli: p<=0 never, p>=1 always
            for p in [0.0f32, -0.0, -1.0, f32::NEG_INFINITY] {
                if Bernoulli(p).sample(&mut Xorshift64(s)) {
                    rep.violation("rng.bernoulli_nonpositive_true", format!("Bernoulli({p}) returned true for state {s:#x}"), Json::obj().set("state", format!("{s:#x}")).set("p", f32s(p)));
                    return;
                }
            }
            for p in [1.0f32, 1.5, f32::INFINITY] {
                if !Bernoulli(p).sample(&mut Xorshift64(s)) {
                    rep.violation("rng.bernoulli_one_false", format!("Bernoulli({p}) returned false for state {s:#x}"), Json::obj().set("state", format!("{s:#x}")).set("p", f32s(p)));
                    return;
                }
            }
            }
        }
        rep.evaluations += chunk - 1;
        rep.case(i, true);
        if i < 2 {
            let mant = i * chunk;
            let y = (mant << 41) | 1;
            let s = minv.apply(y);
            let x = Uniform(FLOAT_RANGES[3].0..FLOAT_RANGES[3].1).sample(&mut Xorshift64(s));
            rep.sample(|| Json::obj().set("mantissa", format!("{mant:#x}")).set("solved_state", format!("{s:#x}")).set("range", format!("{:?}", FLOAT_RANGES[3])).set("sample", f32s(x)));
        }
        rep.add("float_samples", 3 * chunk * FLOAT_RANGES.len() as u64);
        rep.add("bernoulli_samples", 3 * chunk * 7);
    });
    rep.exhaustive.push(format!("all 2^23 mantissas a float draw can consume × 3 low-bit patterns (random, all ones, all zeros) × {} ranges × 7 Bernoulli parameters", FLOAT_RANGES.len()));

    // ---- (C) integers
    rep.run_stream(cfg, 3, "integers", cfg.n(3_000_000, 300_000_000), |rng, i, rep| {
        let (a, b) = match rng.below(6) {
            0 => (0, 1 + rng.below(1000) as i32),
            1 => (-(rng.below(1000) as i32) - 1, rng.below(1000) as i32 + 1),
            2 => (i32::MIN, i32::MIN + 1 + rng.below(1 << 30) as i32),
            3 => (i32::MAX - 1 - rng.below(1 << 30) as i32, i32::MAX),
            4 => (-1, 0),
            _ => {
                let a = rng.u64() as i32;
                let w = 1 + rng.below(i32::MAX as u64) as i64;
                let b = a as i64 + w;
                if b > i32::MAX as i64 {
                    (a, i32::MAX)
                } else {
                    (a, b as i32)
                }
            }
        };
        if !(b > a) || (b as i64 - a as i64) > i32::MAX as i64 {
            return;
        }
        // state: random, or solved so that the low 32 output bits are an extreme
        let s = if i % 3 == 0 {
            let low = rng.pick(&[0u32, 1, u32::MAX, 0x8000_0000, 0x7FFF_FFFF, (b.wrapping_sub(a)) as u32, (b.wrapping_sub(a)) as u32 - 1]);
            let y = (rng.u64() << 32) | low as u64;
            minv.apply(y | if y == 0 { 1 } else { 0 })
        } else {
            rng.u64() | 1
        };
        let mut hs = Hasher::new();
        hs.u64(s).u64(a as u64).u64(b as u64);
        rep.case(hs.get(), true);
        match catch(|| Uniform(a..b).sample(&mut Xorshift64(s))) {
            Err(m) => rep.violation("rng.int_sample_panicked", format!("Uniform({a}..{b}) panicked: {m}"), Json::obj().set("state", format!("{s:#x}")).set("range", format!("{a}..{b}"))),
            Ok(x) => {
                if !(x >= a && x < b) {
                    rep.violation("rng.int_sample_out_of_range", format!("Uniform({a}..{b}).sample = {x}"), Json::obj().set("state", format!("{s:#x}")).set("range", format!("{a}..{b}")));
                }
                rep.count("int_samples");
            }
        }
    });

    // ---- (E) disk / ball / circle / sphere
    let m2 = m.mul(&m);
    let m3 = m2.mul(&m);
    // states whose next two (three) draws consume given mantissas
    let solve_states = |mants: &[u64]| -> Option<(u64, Vec<u64>)> {
        let mats = [&m, &m2, &m3];
        let mut eqs = vec![];
        for (k, &mant) in mants.iter().enumerate() {
            for bit in 0..23 {
                eqs.push((mats[k].row(41 + bit), (mant >> bit) & 1 == 1));
            }
        }
        gf2::solve(&eqs)
    };
    let centre2 = solve_states(&[0x400000, 0x400000]);
    rep.info("circle_centre_states_log2", centre2.as_ref().map(|c| c.1.len() as i64).unwrap_or(-1));
    let mut near3: Vec<(u64, Vec<u64>)> = vec![];
    for d in [[0i64, 0, 0], [1, 0, 0], [0, 1, 0], [0, 0, 1], [-1, 1, 0], [1, 1, 1], [-1, -1, -1], [1, -1, 1]] {
        if let Some(sol) = solve_states(&[(0x400000 + d[0]) as u64, (0x400000 + d[1]) as u64, (0x400000 + d[2]) as u64]) {
            near3.push(sol);
        }
    }
    rep.info("sphere_near_centre_solution_sets", near3.len());
    rep.run_stream(cfg, 4, "disk_ball_circle_sphere", cfg.n(2_000_000, 200_000_000), |rng, i, rep| {
        let pick_from = |rng: &mut Rng, sol: &(u64, Vec<u64>)| -> u64 {
            let mut s = sol.0;
            for b in &sol.1 {
                if rng.bool() {
                    s ^= b;
                }
            }
            s
        };
        let (s, solved) = match i % 4 {
            0 if centre2.is_some() => (pick_from(rng, centre2.as_ref().unwrap()), "circle_centre"),
            1 if !near3.is_empty() => {
                let k = rng.usize(near3.len());
                (pick_from(rng, &near3[k]), "sphere_near_centre")
            }
            _ => (rng.u64() | 1, "random"),
        };
        if s == 0 {
            return;
        }
        let mut hs = Hasher::new();
        hs.u64(s);
        rep.case(hs.get(), true);
        rep.count(&format!("shape_states.{solved}"));
        let cj = || Json::obj().set("state", format!("{s:#x}")).set("state_kind", solved);
        let len2 = |v: &[f32]| v.iter().map(|x| (*x as f64).powi(2)).sum::<f64>().sqrt();
        let r = catch(|| {
            (
                VectorsOnUnitDisk.sample(&mut Xorshift64(s)).0,
                PointsOnUnitDisk.sample(&mut Xorshift64(s)).0,
                VectorsInUnitBall.sample(&mut Xorshift64(s)).0,
                PointsInUnitBall.sample(&mut Xorshift64(s)).0,
            )
        });
        match r {
            Err(m) => {
                rep.violation("rng.disk_ball_panicked", format!("disk/ball sampling panicked: {m}"), cj());
                return;
            }
            Ok((d, dp, b, bp)) => {
                if !(len2(&d) <= 1.0 + 1e-6 && len2(&b) <= 1.0 + 1e-6) || d != dp || b != bp {
                    rep.violation("rng.disk_ball_outside", format!("disk sample {d:?} (|v|={}) / ball sample {b:?} (|v|={}); point variants {dp:?} {bp:?}", len2(&d), len2(&b)), cj());
                    return;
                }
            }
        }
        match catch(|| UnitCircle.sample(&mut Xorshift64(s)).0) {
            Err(m) => {
                rep.violation(if solved == "circle_centre" { "rng.unit_circle_zero_vector" } else { "rng.unit_circle_panicked" }, format!("UnitCircle.sample panicked: {m}"), cj());
                return;
            }
            Ok(c) => {
                let l = len2(&c);
                if !((l - 1.0).abs() <= 1e-3) {
                    rep.violation(if solved == "circle_centre" { "rng.unit_circle_zero_vector" } else { "rng.unit_circle_not_unit" }, format!("UnitCircle.sample = {c:?}, length {l}"), cj());
                    return;
                }
            }
        }
        match catch(|| UnitSphere.sample(&mut Xorshift64(s)).0) {
            Err(m) => {
                rep.violation("rng.unit_sphere_panicked", format!("UnitSphere.sample panicked: {m}"), cj());
                return;
            }
            Ok(c) => {
                let l = len2(&c);
                if !((l - 1.0).abs() <= 1e-3) {
                    rep.violation("rng.unit_sphere_not_unit", format!("UnitSphere.sample = {c:?}, length {l}"), cj());
                    return;
                }
            }
        }
        rep.count("shape_samples");
    });

    // ---- (F) composite distributions draw components in order
    rep.run_stream(cfg, 5, "composites", cfg.n(500_000, 50_000_000), |rng, _, rep| {
        let s = rng.u64() | 1;
        rep.case(s, true);
        let (a, b, c, d, e, f) = (rng.f32_in(-5.0, 0.0), rng.f32_in(0.1, 5.0), rng.f32_in(-9.0, -1.0), rng.f32_in(2.0, 3.0), rng.f32_in(0.0, 1.0), rng.f32_in(1.5, 9.0));
        let scalar = {
            let mut g = Xorshift64(s);
            [Uniform(a..b).sample(&mut g), Uniform(c..d).sample(&mut g), Uniform(e..f).sample(&mut g)]
        };
        let arr = Uniform([a, c, e]..[b, d, f]).sample(&mut Xorshift64(s));
        let vec: Vec3 = Uniform(vec3(a, c, e)..vec3(b, d, f)).sample(&mut Xorshift64(s));
        let v2: Vec2 = Uniform(vec2(a, c)..vec2(b, d)).sample(&mut Xorshift64(s));
        let p2: Point2 = Uniform(pt2(a, c)..pt2(b, d)).sample(&mut Xorshift64(s));
        let (i0, i1) = (rng.int(-50, 0) as i32, rng.int(1, 50) as i32);
        let tup = (Uniform(a..b), Uniform(i0..i1)).sample(&mut Xorshift64(s));
        let tup_scalar = {
            let mut g = Xorshift64(s);
            (Uniform(a..b).sample(&mut g), Uniform(i0..i1).sample(&mut g))
        };
        let bits = |x: &[f32]| x.iter().map(|v| v.to_bits()).collect::<Vec<_>>();
        if bits(&arr) != bits(&scalar) || bits(&vec.0) != bits(&scalar) || bits(&v2.0) != bits(&scalar[..2]) || bits(&p2.0) != bits(&scalar[..2]) || tup.0.to_bits() != tup_scalar.0.to_bits() || tup.1 != tup_scalar.1 {
            rep.violation(
                "rng.composite_component_order",
                format!("array {arr:?} / vector {:?} / vec2 {:?} / point {:?} / tuple {tup:?} vs scalar draws in order {scalar:?}, {tup_scalar:?}", vec.0, v2.0, p2.0),
                Json::obj().set("state", format!("{s:#x}")),
            );
            return;
        }
        rep.count("composite_checks");
    });

    rep.floor("linearity_pairs", 1_000_000);
    rep.floor("preimages_verified", 500_000);
    rep.floor("float_samples", 3 * ((1u64 << 23) - 1) * FLOAT_RANGES.len() as u64);
    rep.floor("int_samples", 1_000_000);
    rep.floor("shape_samples", 500_000);
    rep.floor("shape_states.circle_centre", 100_000);
    rep.floor("composite_checks", 200_000);
}
