//! C19 — PRNG has full period; distributions stay in range for every state.
//!
//! Events: next_bits() on chosen states (the state is a public field);
//! Distrib::sample outputs.
//! Oracles: (period) an algebraic monitor over observed outputs — the step
//! map is observed on the 64 unit states, linearity over GF(2) is monitored
//! on many pairs, and the order of the observed matrix is computed offline;
//! (ranges) states are *solved for* with GF(2) linear algebra so that a draw
//! consumes a chosen mantissa, which turns "for every generator state" into
//! an exhaustive sweep over the 2^23 mantissas a float sample can consume.

use crate::gf2::{self, M64};
use crate::{catch, f32s, Cfg, Hasher, Json, Report, Rng};
use re::math::point::{pt2, Point2};
use re::math::rand::{Bernoulli, Distrib, PointsInUnitBall, PointsOnUnitDisk, Uniform, UnitCircle, UnitSphere, VectorsInUnitBall, VectorsOnUnitDisk, Xorshift64};
use re::math::vec::{vec2, vec3, Vec2, Vec3};

/// The step function on states (the statement speaks of states; what
/// next_bits() returns is compared with the new state separately).
fn step(s: u64) -> u64 {
    let mut g = Xorshift64(s);
    g.next_bits();
    g.0
}

/// Does next_bits() return the new state (as the library does today)? The
/// solved-state streams prescribe *output* bits through the state matrix and
/// are only meaningful then.
fn output_is_state() -> bool {
    (0..512u64).all(|k| {
        let s = crate::mix64(k.wrapping_mul(0x9E37_79B9_7F4A_7C15) ^ 0xD1B5_4A32_D192_ED03) | 1;
        let mut g = Xorshift64(s);
        let o = g.next_bits();
        o == g.0
    })
}

const PRIMES: [u64; 7] = [3, 5, 17, 257, 641, 65537, 6700417];

pub const FLOAT_RANGES: [(f32, f32); 30] = [
    (0.0, 1.0),
    (-1.0, 1.0),
    (-3.0, -1.0),
    (1.0e6, 1.0e6 + 1.0),
    (1.0, 1.0000005),
    (1.0e-30, 2.0e-30),
    (-1.0e30, 1.0e30),
    (0.0, 255.0),
    (-0.5, 0.5),
    (100.0, 100.25),
    (-1.0000001, -1.0),
    (16777216.0, 16777218.0),
    // an end of zero of either sign: its predecessor is the smallest
    // negative subnormal
    (-1.0, 0.0),
    (-1.0, -0.0),
    (-1.0e-30, 0.0),
    (-1.0e-45, 0.0),
    // subnormal ends
    (0.0, 1.0e-45),
    (1.0e-40, 2.0e-40),
    (-1.0e-45, 1.0e-45),
    // a power-of-two end reached by rounding: the predecessor is in the
    // binade below
    (1.9999999, 2.0),
    (0.99999994, 1.0),
    (-2.0, -1.9999999),
    (0.5, 1.0),
    // odd widths in ulps
    (3.0, 3.0000007),
    (1.0e10, 1.0000005e10),
    // the widest finite ranges; a width that overflows
    (-1.0e38, 1.0e38),
    (0.0, f32::MAX),
    (-f32::MAX, f32::MAX),
    (f32::MIN_POSITIVE, 2.0 * f32::MIN_POSITIVE),
    (-255.0, 0.5),
];

pub fn run(cfg: &Cfg, rep: &mut Report) {
    rep.rule = "period: the step map observed on the 64 unit states and on random/structured pairs (linearity), order computed from the observed matrix; float ranges: every one of the 2^23 mantissas a float draw can consume (state solved for by GF(2) inverse of the observed step matrix, verified through the real call) × 12 ranges; integers and Bernoulli on solved and random states; float ranges also random (any sign and exponent of the start, widths of chosen ulp counts) × the mantissas where rounding bites; disk/ball/circle/sphere on random states and on states solved so that consecutive draws hit the centre of the disk, come within 2e-6 of the centre of the ball, or land on the rim; composite distributions against scalar draws from a cloned generator; non-trivial = all; distinct by hash of (state, distribution)".into();
    rep.assumptions.push("the period argument is conditional on linearity of the step map over GF(2), which is monitored on every pair drawn, not proved".into());

    rep.pin("F7a.float_sample_equals_end", {
        let x = Uniform(-1.0000001f32..-1.0).sample(&mut Xorshift64(0xfde978f1feb72314));
        if x < -1.0 { Ok(()) } else { Err(format!("Uniform(-1.0000001..-1.0).sample(state 0xfde978f1feb72314) = {x:?}, not below the end of the range")) }
    });
    rep.pin("F7b.unit_circle_zero_vector", match catch(|| UnitCircle.sample(&mut Xorshift64(0x5d8965c3f8ffe4ce)).0) {
        Err(m) => Err(format!("UnitCircle.sample(state 0x5d8965c3f8ffe4ce) panicked: {m}")),
        Ok(v) => {
            let l = ((v[0] as f64).powi(2) + (v[1] as f64).powi(2)).sqrt();
            if (l - 1.0).abs() <= 1e-5 { Ok(()) } else { Err(format!("UnitCircle.sample(state 0x5d8965c3f8ffe4ce) = {v:?}, length {l}")) }
        }
    });

    // ---- (A) period, algebraically over observed outputs
    let m = M64::observe(step);
    rep.add("step_observations", 64);
    let out_is_state = output_is_state();
    rep.info("next_bits_returns_the_new_state", out_is_state);
    if !out_is_state {
        rep.note("next_bits() does not return the new state: streams that prescribe output bits through the state matrix aim at other mantissas than intended; their targeting floors are not applied (range checks still are)".into());
    }
    let minv = m.inverse();
    {
        let zero_fixed = catch(|| step(0) == 0).unwrap_or(false);
        let order_ok = m.pow(u64::MAX as u128) == M64::identity();
        let mut proper = true;
        let mut which = vec![];
        for p in PRIMES {
            if m.pow((u64::MAX / p) as u128) == M64::identity() {
                proper = false;
                which.push(p);
            }
        }
        rep.info("step_matrix_invertible", minv.is_some());
        rep.info("M^(2^64-1)==I", order_ok);
        rep.info("M^((2^64-1)/p)!=I for all prime factors p", proper);
        // what the step does to the all-zero state is nobody's business (the
        // property speaks of non-zero seeds): recorded, not judged
        rep.info("f(0)==0", zero_fixed);
        if !(minv.is_some() && order_ok && proper) {
            rep.violation(
                "rng.period_not_full",
                format!(
                    "the observed step matrix does not generate a single cycle of length 2^64−1 on the non-zero states: f(0)==0: {zero_fixed}, invertible: {}, M^(2^64−1)=I: {order_ok}, order divides (2^64−1)/p for p in {which:?}",
                    minv.is_some()
                ),
                Json::obj().set("first_columns", format!("{:#x?}", &m.c[..4])),
            );
        }
    }
    // linearity + agreement with the observed matrix
    rep.run_stream(cfg, 0, "step_linearity", cfg.n(2_000_000, 200_000_000), |rng, i, rep| {
        let (a, b) = match i % 4 {
            0 => (rng.u64(), rng.u64()),
            1 => (1u64 << rng.below(64), rng.u64()),
            2 => (rng.u64() & 0xFFFF, rng.u64() << 48),
            _ => (!0u64 >> rng.below(64), rng.u64()),
        };
        let mut hs = Hasher::new();
        hs.u64(a).u64(b);
        rep.case(hs.get(), true);
        let (fa, fb, fab) = (step(a), step(b), step(a ^ b));
        // the all-zero state is outside the statement ("from a non-zero seed")
        if a == 0 || b == 0 || a == b {
            rep.count("linearity.pairs_involving_the_zero_state(skipped)");
            return;
        }
        if fab != fa ^ fb || m.apply(a) != fa {
            rep.violation("rng.step_not_linear", format!("f({a:#x}) ^ f({b:#x}) = {:#x} but f(a^b) = {fab:#x}; observed matrix gives {:#x} for a", fa ^ fb, m.apply(a)), Json::obj().set("a", format!("{a:#x}")).set("b", format!("{b:#x}")));
            return;
        }
        if a != 0 && fa == 0 {
            rep.violation("rng.reaches_zero", format!("non-zero state {a:#x} steps to 0"), Json::obj().set("a", format!("{a:#x}")));
            return;
        }
        // equal seeds, equal sequences
        if a != 0 {
            let (mut g1, mut g2) = (Xorshift64::from_seed(a), Xorshift64::from_seed(a));
            for _ in 0..4 {
                if g1.0 == 0 {
                    rep.violation("rng.reaches_zero", format!("a generator seeded with the non-zero seed {a:#x} is in the all-zero state"), Json::obj().set("seed", format!("{a:#x}")));
                    return;
                }
                if g1.next_bits() != g2.next_bits() {
                    rep.violation("rng.not_deterministic", format!("two generators seeded with {a:#x} diverge"), Json::obj().set("seed", format!("{a:#x}")));
                    return;
                }
            }
        }
        rep.count("linearity_pairs");
        if i < 2 {
            rep.sample(|| Json::obj().set("a", format!("{a:#x}")).set("b", format!("{b:#x}")).set("f(a)", format!("{fa:#x}")).set("f(a^b)", format!("{fab:#x}")));
        }
    });
    let Some(minv) = minv else {
        rep.note("step matrix not invertible: solved-state streams skipped".into());
        return;
    };
    // bijectivity cross-check through the real call
    rep.run_stream(cfg, 1, "preimages", cfg.n(1_000_000, 100_000_000), |rng, _, rep| {
        let y = rng.u64() | 1;
        let s = minv.apply(y);
        rep.case(y, true);
        if step(s) != y {
            rep.violation("rng.preimage_mismatch", format!("M⁻¹ says {s:#x} steps to {y:#x}, the real call gives {:#x}", step(s)), Json::obj().set("y", format!("{y:#x}")));
        }
        rep.count("preimages_verified");
    });

    // ---- (B) float ranges over all 2^23 mantissas
    let chunk = 1u64 << 10;
    rep.run_stream(cfg, 2, "float_all_mantissas", (1 << 23) / chunk, |rng, i, rep| {
        for k in 0..chunk {
            let mant = i * chunk + k;
            // three states per mantissa: random low bits, all-ones and
            // all-zeros below the mantissa (a sampler that looks at more
            // than the 23 mantissa bits has its extremes there)
            let mut first_variant = [0u32; FLOAT_RANGES.len()];
            for variant in 0..3 {
            let low = match variant {
                0 => rng.u64() & ((1 << 41) - 1),
                1 => (1 << 41) - 1,
                _ => 0,
            };
            let y = (mant << 41) | low;
            if y == 0 {
                continue;
            }
            let s = minv.apply(y);
            for (ri, &(a, b)) in FLOAT_RANGES.iter().enumerate() {
                let mut g = Xorshift64(s);
                let x = Uniform(a..b).sample(&mut g);
                if g.0 != y {
                    // a sampler may draw more than once (rejection of `end`);
                    // the mantissa aimed at is then not the one consumed last
                    rep.count("float_sample.consumed_other_than_one_draw(not a clause)");
                }
                if variant == 0 {
                    first_variant[ri] = x.to_bits();
                } else if first_variant[ri] != x.to_bits() {
                    // the sweep is exhaustive only if a float draw looks at
                    // nothing but the top 23 output bits
                    rep.count("float_sample.depends_on_bits_below_the_top_23(exhaustive claim void)");
                }
                if !(x >= a && x < b) {
                    rep.violation(
                        if x == b { "rng.float_sample_equals_end" } else { "rng.float_sample_out_of_range" },
                        format!("Uniform({a:?}..{b:?}).sample with state {s:#x} (mantissa {mant:#x}) = {x:?}: not in the half-open range"),
                        Json::obj().set("state", format!("{s:#x}")).set("range", format!("{}..{}", f32s(a), f32s(b))).set("range_index", ri).set("mantissa", format!("{mant:#x}")),
                    );
                    return;
                }
            }
            // Bernoulli: p<=0 never, p>=1 always
            for p in [0.0f32, -0.0, -1.0, f32::NEG_INFINITY] {
                if Bernoulli(p).sample(&mut Xorshift64(s)) {
                    rep.violation("rng.bernoulli_nonpositive_true", format!("Bernoulli({p}) returned true for state {s:#x}"), Json::obj().set("state", format!("{s:#x}")).set("p", f32s(p)));
                    return;
                }
            }
            for p in [1.0f32, 1.5, f32::INFINITY] {
                if !Bernoulli(p).sample(&mut Xorshift64(s)) {
                    rep.violation("rng.bernoulli_one_false", format!("Bernoulli({p}) returned false for state {s:#x}"), Json::obj().set("state", format!("{s:#x}")).set("p", f32s(p)));
                    return;
                }
            }
            }
        }
        rep.evaluations += chunk - 1;
        rep.case(i, true);
        if i < 2 {
            let mant = i * chunk;
            let y = (mant << 41) | 1;
            let s = minv.apply(y);
            let x = Uniform(FLOAT_RANGES[3].0..FLOAT_RANGES[3].1).sample(&mut Xorshift64(s));
            rep.sample(|| Json::obj().set("mantissa", format!("{mant:#x}")).set("solved_state", format!("{s:#x}")).set("range", format!("{:?}", FLOAT_RANGES[3])).set("sample", f32s(x)));
        }
        rep.add("float_samples", 3 * chunk * FLOAT_RANGES.len() as u64);
        rep.add("bernoulli_samples", 3 * chunk * 7);
    });
    rep.exhaustive.push(format!("all 2^23 mantissas a float draw can consume × 3 low-bit patterns (random, all ones, all zeros) × {} ranges × 7 Bernoulli parameters", FLOAT_RANGES.len()));

    // ---- (B2) random ranges × the mantissas where rounding bites
    rep.run_stream(cfg, 6, "float_random_ranges", cfg.n(1_000_000, 100_000_000), |rng, _, rep| {
        // start of any sign and exponent; width a chosen number of ulps, or
        // a random factor
        let start = {
            let e = rng.int(-120, 120) as i32;
            let m = 1.0 + rng.f32_in(0.0, 1.0);
            let v = m * 2.0f32.powi(e);
            match rng.below(5) {
                0 => 0.0,
                1 | 2 => -v,
                _ => v,
            }
        };
        let end = match rng.below(3) {
            0 => {
                let k = rng.pick(&[1u32, 2, 3, 5, 7, 8, 9, 15, 16, 17, 255, 256, 257, (1 << 23) - 1, 1 << 23, (1 << 23) + 1, (1 << 24) - 1]);
                let mut e = start;
                for _ in 0..k.min(64) {
                    e = crate::next_up(e);
                }
                if k > 64 {
                    // k ulps up, by bit pattern (same sign region only)
                    let b = start.to_bits();
                    e = if start >= 0.0 { f32::from_bits(b.wrapping_add(k)) } else { f32::from_bits(b.wrapping_sub(k).max(0x8000_0000)) };
                    if start < 0.0 && b.wrapping_sub(k) < 0x8000_0000 {
                        e = 0.0;
                    }
                }
                e
            }
            1 => start + start.abs().max(1e-30) * rng.log_f32(1e-6, 1e6),
            _ => start + rng.log_f32(1e-30, 1e30),
        };
        if !(end > start) || !end.is_finite() {
            return;
        }
        let mant: u64 = match rng.below(9) {
            0 => 0,
            1 => 1,
            2 => 0x3fffff,
            3 => 0x400000,
            4 => 0x400001,
            5 => 0x7ffffe,
            6 | 7 => 0x7fffff,
            _ => rng.below(1 << 23),
        };
        let y = (mant << 41) | (rng.u64() & ((1 << 41) - 1));
        if y == 0 {
            return;
        }
        let s = minv.apply(y);
        let mut hs = Hasher::new();
        hs.u64(s).f32(start).f32(end);
        rep.case(hs.get(), true);
        let x = Uniform(start..end).sample(&mut Xorshift64(s));
        rep.count("float_random_range_samples");
        if mant == 0x7fffff {
            rep.count("float_random_range_samples.top_mantissa");
        }
        if !(x >= start && x < end) {
            rep.violation(
                if x == end { "rng.float_sample_equals_end" } else { "rng.float_sample_out_of_range" },
                format!("Uniform({start:?}..{end:?}).sample with state {s:#x} (mantissa {mant:#x}) = {x:?}: not in the half-open range"),
                Json::obj().set("state", format!("{s:#x}")).set("range", format!("{}..{}", f32s(start), f32s(end))).set("mantissa", format!("{mant:#x}")),
            );
        }
    });

    // ---- (C) integers
    rep.run_stream(cfg, 3, "integers", cfg.n(3_000_000, 300_000_000), |rng, i, rep| {
        let (a, b) = match rng.below(7) {
            6 => rng.pick(&[(0, i32::MAX), (i32::MIN, -1), (-(1 << 30), (1 << 30) - 1), (i32::MAX - 1, i32::MAX), (i32::MIN, i32::MIN + 1), (-1, i32::MAX - 1), (1, 2), (0, 1)]),
            0 => (0, 1 + rng.below(1000) as i32),
            1 => (-(rng.below(1000) as i32) - 1, rng.below(1000) as i32 + 1),
            2 => (i32::MIN, i32::MIN + 1 + rng.below(1 << 30) as i32),
            3 => (i32::MAX - 1 - rng.below(1 << 30) as i32, i32::MAX),
            4 => (-1, 0),
            _ => {
                let a = rng.u64() as i32;
                let w = 1 + rng.below(i32::MAX as u64) as i64;
                let b = a as i64 + w;
                if b > i32::MAX as i64 {
                    (a, i32::MAX)
                } else {
                    (a, b as i32)
                }
            }
        };
        if !(b > a) || (b as i64 - a as i64) > i32::MAX as i64 {
            return;
        }
        // state: random, or solved so that the low 32 output bits are an extreme
        let s = if i % 3 == 0 {
            let low = rng.pick(&[0u32, 1, u32::MAX, 0x8000_0000, 0x7FFF_FFFF, (b.wrapping_sub(a)) as u32, (b.wrapping_sub(a)) as u32 - 1]);
            // the extreme pattern in the low half, the high half, both, or
            // straddling the middle: whichever 32 bits the sampler reads
            let y = match rng.below(4) {
                0 => (rng.u64() << 32) | low as u64,
                1 => ((low as u64) << 32) | rng.u32() as u64,
                2 => ((low as u64) << 32) | low as u64,
                _ => ((low as u64) << 16) | (rng.u64() & 0xFFFF_0000_0000_FFFF),
            };
            minv.apply(y | if y == 0 { 1 } else { 0 })
        } else {
            rng.u64() | 1
        };
        let mut hs = Hasher::new();
        hs.u64(s).u64(a as u64).u64(b as u64);
        rep.case(hs.get(), true);
        match catch(|| Uniform(a..b).sample(&mut Xorshift64(s))) {
            Err(m) => rep.violation("rng.int_sample_panicked", format!("Uniform({a}..{b}) panicked: {m}"), Json::obj().set("state", format!("{s:#x}")).set("range", format!("{a}..{b}"))),
            Ok(x) => {
                if !(x >= a && x < b) {
                    rep.violation("rng.int_sample_out_of_range", format!("Uniform({a}..{b}).sample = {x}"), Json::obj().set("state", format!("{s:#x}")).set("range", format!("{a}..{b}")));
                }
                rep.count("int_samples");
            }
        }
    });

    // ---- (E) disk / ball / circle / sphere
    let m2 = m.mul(&m);
    let m3 = m2.mul(&m);
    // states whose next two (three) draws consume given mantissas
    let solve_states_top = |mants: &[u64], drop_low: usize| -> Option<(u64, Vec<u64>)> {
        let mats = [&m, &m2, &m3];
        let mut eqs = vec![];
        for (k, &mant) in mants.iter().enumerate() {
            for bit in drop_low..23 {
                eqs.push((mats[k].row(41 + bit), (mant >> bit) & 1 == 1));
            }
        }
        gf2::solve(&eqs)
    };
    let solve_states = |mants: &[u64]| solve_states_top(mants, 0);
    let centre2 = solve_states(&[0x400000, 0x400000]);
    rep.info("circle_centre_states_log2", centre2.as_ref().map(|c| c.1.len() as i64).unwrap_or(-1));
    // Three draws pinned to the centre: 69 equations in 64 unknowns have no
    // solution, so only the top 20 bits of each mantissa are prescribed (60
    // equations): all three coordinates within 2^-20 of 0, i.e. the point is
    // within 2e-6 of the centre of the ball.
    let mut near3: Vec<(u64, Vec<u64>)> = vec![];
    for d in [[0i64, 0, 0], [8, 0, 0], [0, 8, 0], [0, 0, 8], [-8, 8, 0], [8, 8, 8], [-8, -8, -8], [8, -8, 8]] {
        if let Some(sol) = solve_states_top(&[(0x400000 + d[0]) as u64, (0x400000 + d[1]) as u64, (0x400000 + d[2]) as u64], 3) {
            near3.push(sol);
        }
    }
    // two draws on the rim of the disk: mantissas 0 and 0x400000 give (−1, 0)
    let rim2 = solve_states(&[0, 0x400000]);
    rep.info("sphere_near_centre_solution_sets", near3.len());
    rep.run_stream(cfg, 4, "disk_ball_circle_sphere", cfg.n(2_000_000, 200_000_000), |rng, i, rep| {
        let pick_from = |rng: &mut Rng, sol: &(u64, Vec<u64>)| -> u64 {
            let mut s = sol.0;
            for b in &sol.1 {
                if rng.bool() {
                    s ^= b;
                }
            }
            s
        };
        let (s, solved) = match i % 4 {
            0 if centre2.is_some() => (pick_from(rng, centre2.as_ref().unwrap()), "circle_centre"),
            1 if !near3.is_empty() => {
                let k = rng.usize(near3.len());
                (pick_from(rng, &near3[k]), "sphere_near_centre")
            }
            2 if rim2.is_some() && i % 8 == 2 => (pick_from(rng, rim2.as_ref().unwrap()), "disk_rim"),
            _ => (rng.u64() | 1, "random"),
        };
        if s == 0 {
            return;
        }
        let mut hs = Hasher::new();
        hs.u64(s);
        rep.case(hs.get(), true);
        rep.count(&format!("shape_states.{solved}"));
        let cj = || Json::obj().set("state", format!("{s:#x}")).set("state_kind", solved);
        let len2 = |v: &[f32]| v.iter().map(|x| (*x as f64).powi(2)).sum::<f64>().sqrt();
        // |v|² evaluated in f64 is exact to 1e-16; an f32 rejection test
        // |v|² ≤ 1 can be off by the rounding of its own sum (≈ 2·2^-23)
        let inside = |v: &[f32]| v.iter().map(|x| (*x as f64).powi(2)).sum::<f64>() <= 1.0 + 5e-7;
        let r = catch(|| {
            (
                VectorsOnUnitDisk.sample(&mut Xorshift64(s)).0,
                PointsOnUnitDisk.sample(&mut Xorshift64(s)).0,
                VectorsInUnitBall.sample(&mut Xorshift64(s)).0,
                PointsInUnitBall.sample(&mut Xorshift64(s)).0,
            )
        });
        match r {
            Err(m) => {
                rep.violation("rng.disk_ball_panicked", format!("disk/ball sampling panicked: {m}"), cj());
                return;
            }
            Ok((d, dp, b, bp)) => {
                if d == dp && b == bp {
                    rep.count("shape_samples.point_and_vector_variants_identical");
                }
                if !(inside(&d) && inside(&b) && inside(&dp) && inside(&bp)) {
                    rep.violation("rng.disk_ball_outside", format!("disk sample {d:?} (|v|={}) / ball sample {b:?} (|v|={}); point variants {dp:?} {bp:?}", len2(&d), len2(&b)), cj());
                    return;
                }
            }
        }
        match catch(|| UnitCircle.sample(&mut Xorshift64(s)).0) {
            Err(m) => {
                rep.violation(if solved == "circle_centre" { "rng.unit_circle_zero_vector" } else { "rng.unit_circle_panicked" }, format!("UnitCircle.sample panicked: {m}"), cj());
                return;
            }
            Ok(c) => {
                let l = len2(&c);
                if !((l - 1.0).abs() <= 1e-5) {
                    rep.violation(if solved == "circle_centre" { "rng.unit_circle_zero_vector" } else { "rng.unit_circle_not_unit" }, format!("UnitCircle.sample = {c:?}, length {l}"), cj());
                    return;
                }
            }
        }
        match catch(|| UnitSphere.sample(&mut Xorshift64(s)).0) {
            Err(m) => {
                rep.violation("rng.unit_sphere_panicked", format!("UnitSphere.sample panicked: {m}"), cj());
                return;
            }
            Ok(c) => {
                let l = len2(&c);
                if !((l - 1.0).abs() <= 1e-5) {
                    rep.violation("rng.unit_sphere_not_unit", format!("UnitSphere.sample = {c:?}, length {l}"), cj());
                    return;
                }
            }
        }
        rep.count("shape_samples");
    });

    // ---- (F) composite distributions draw components in order
    rep.run_stream(cfg, 5, "composites", cfg.n(500_000, 50_000_000), |rng, _, rep| {
        // states: random, or solved so that the first two draws consume
        // mantissas at the very top (where start + unit·width rounds up to the
        // end of the range) or at the very bottom
        let s = if rng.chance(1, 2) {
            rng.u64() | 1
        } else {
            let pick_m = |rng: &mut Rng| match rng.below(3) {
                0 => 0x7f_ffff - rng.below(512),
                1 => rng.below(512),
                _ => rng.below(1 << 23),
            };
            let (ma, mb) = (pick_m(rng), pick_m(rng));
            match solve_states_top(&[ma, mb], 0) {
                Some(sol) => {
                    let mut st = sol.0;
                    for b in &sol.1 {
                        if rng.bool() {
                            st ^= b;
                        }
                    }
                    rep.count("composites.states_solved_for_extreme_mantissas");
                    if st == 0 { 1 } else { st }
                }
                None => rng.u64() | 1,
            }
        };
        rep.case(s, true);
        // ranges: around the origin, or narrow and far from it (any sign),
        // where a component computed as start + offset instead of by the
        // scalar sampler rounds onto the excluded end
        let far = rng.chance(1, 2);
        let mut range = |rng: &mut Rng, lo: f32, hi: f32, lo2: f32, hi2: f32| -> (f32, f32) {
            if !far {
                return (rng.f32_in(lo, hi), rng.f32_in(lo2, hi2));
            }
            let base = rng.pick(&[10.0f32, 100.0, 1000.0, 1e4, 1e5, 1e6]) * rng.f32_in(1.0, 9.0) * if rng.bool() { 1.0 } else { -1.0 };
            let ulp = (base.abs() * 1.1920929e-7).max(1e-30);
            let width = match rng.below(4) {
                0 => 1.0,
                1 => rng.f32_in(0.25, 4.0),
                2 => ulp * (2 + rng.below(64)) as f32,
                _ => ulp * 4096.0,
            };
            let end = base + width;
            if end > base { (base, end) } else { (base, rftk::next_up(base)) }
        };
        let (a, b) = range(rng, -5.0, 0.0, 0.1, 5.0);
        let (c, d) = range(rng, -9.0, -1.0, 2.0, 3.0);
        let (e, f) = range(rng, 0.0, 1.0, 1.5, 9.0);
        if far {
            rep.count("composites.narrow_ranges_far_from_the_origin");
        }
        let scalar = {
            let mut g = Xorshift64(s);
            [Uniform(a..b).sample(&mut g), Uniform(c..d).sample(&mut g), Uniform(e..f).sample(&mut g)]
        };
        let arr = Uniform([a, c, e]..[b, d, f]).sample(&mut Xorshift64(s));
        let vec: Vec3 = Uniform(vec3(a, c, e)..vec3(b, d, f)).sample(&mut Xorshift64(s));
        let v2: Vec2 = Uniform(vec2(a, c)..vec2(b, d)).sample(&mut Xorshift64(s));
        let p2: Point2 = Uniform(pt2(a, c)..pt2(b, d)).sample(&mut Xorshift64(s));
        let (i0, i1) = (rng.int(-50, 0) as i32, rng.int(1, 50) as i32);
        let tup = (Uniform(a..b), Uniform(i0..i1)).sample(&mut Xorshift64(s));
        let tup_scalar = {
            let mut g = Xorshift64(s);
            (Uniform(a..b).sample(&mut g), Uniform(i0..i1).sample(&mut g))
        };
        let bits = |x: &[f32]| x.iter().map(|v| v.to_bits()).collect::<Vec<_>>();
        // "independently, in order": component k is the value a scalar draw
        // from range k gives at that point of the sequence — to within a few
        // ulps of the range's ends (a composite doing its own arithmetic, e.g.
        // through f64 or a lerp, need not round like the scalar sampler); bit
        // equality, as the library has it today, is counted
        let ends = [a.abs().max(b.abs()), c.abs().max(d.abs()), e.abs().max(f.abs())];
        let close = |x: &[f32], y: &[f32]| x.iter().zip(y).enumerate().all(|(k, (p, q))| p.to_bits() == q.to_bits() || (p - q).abs() <= 4.0 * 1.1920929e-7 * ends[k]);
        if bits(&arr) == bits(&scalar) && bits(&vec.0) == bits(&scalar) && bits(&p2.0) == bits(&scalar[..2]) {
            rep.count("composites.bit_identical_to_scalar_draws");
        }
        if !close(&arr, &scalar) || !close(&vec.0, &scalar) || !close(&v2.0, &scalar[..2]) || !close(&p2.0, &scalar[..2]) || !close(&[tup.0], &[tup_scalar.0]) || tup.1 != tup_scalar.1 {
            rep.violation(
                "rng.composite_component_order",
                format!("array {arr:?} / vector {:?} / vec2 {:?} / point {:?} / tuple {tup:?} vs scalar draws in order {scalar:?}, {tup_scalar:?}", vec.0, v2.0, p2.0),
                Json::obj().set("state", format!("{s:#x}")),
            );
            return;
        }
        // every component inside its own half-open range
        let inside = |x: f32, lo: f32, hi: f32| x >= lo && x < hi;
        if !(inside(arr[0], a, b) && inside(arr[1], c, d) && inside(arr[2], e, f) && inside(vec.0[0], a, b) && inside(vec.0[1], c, d) && inside(vec.0[2], e, f) && inside(v2.0[0], a, b) && inside(v2.0[1], c, d) && inside(p2.0[0], a, b) && inside(p2.0[1], c, d)) {
            rep.violation(
                "rng.float_sample_out_of_range",
                format!("a component of array {arr:?} / vector {:?} / vec2 {:?} / point {:?} lies outside its range [{a},{b}) × [{c},{d}) × [{e},{f})", vec.0, v2.0, p2.0),
                Json::obj().set("state", format!("{s:#x}")),
            );
            return;
        }
        // the generator ends in the same state whichever way the three
        // components were drawn (no extra, no missing draw)
        let end_state = |f: &dyn Fn(&mut Xorshift64)| {
            let mut g = Xorshift64(s);
            f(&mut g);
            g.0
        };
        let want = end_state(&|g| {
            Uniform(a..b).sample(g);
            Uniform(c..d).sample(g);
            Uniform(e..f).sample(g);
        });
        let got_arr = end_state(&|g| {
            Uniform([a, c, e]..[b, d, f]).sample(g);
        });
        let got_vec = end_state(&|g| {
            let _: Vec3 = Uniform(vec3(a, c, e)..vec3(b, d, f)).sample(g);
        });
        if got_arr != want || got_vec != want {
            rep.violation("rng.composite_component_order", format!("after a 3-component draw the generator is at {got_arr:#x} (array) / {got_vec:#x} (vector), after three scalar draws at {want:#x}"), Json::obj().set("state", format!("{s:#x}")));
            return;
        }
        // samples(): an iterator of k items advances the caller's generator
        // exactly as k calls of sample() do
        let k = 1 + rng.usize(5);
        let (mut g1, mut g2) = (Xorshift64(s), Xorshift64(s));
        let it: Vec<f32> = Uniform(a..b).samples(&mut g1).take(k).collect();
        let one: Vec<f32> = (0..k).map(|_| Uniform(a..b).sample(&mut g2)).collect();
        if bits(&it) != bits(&one) || g1.0 != g2.0 {
            rep.violation("rng.composite_component_order", format!("samples().take({k}) gives {it:?} and leaves the generator at {:#x}; {k} calls of sample() give {one:?} and {:#x}", g1.0, g2.0), Json::obj().set("state", format!("{s:#x}")));
            return;
        }
        rep.count("samples_iterator_checks");
        rep.count("composite_checks");
    });
    // the documented default
    // equal seeds, equal sequences — also for the documented default (how a
    // seed is turned into a state is the library's business)
    {
        let (mut a, mut b) = (Xorshift64::default(), Xorshift64::default());
        let (mut c, mut d) = (Xorshift64::from_seed(7), Xorshift64::from_seed(7));
        if (0..8).any(|_| a.next_bits() != b.next_bits() || c.next_bits() != d.next_bits()) || Xorshift64::default().0 == 0 || Xorshift64::from_seed(7).0 == 0 {
            rep.violation("rng.not_deterministic", "two default() or two from_seed(7) generators diverge, or start in the all-zero state".into(), Json::obj());
        }
    }

    rep.floor("linearity_pairs", 1_000_000);
    rep.floor("preimages_verified", 500_000);
    if out_is_state {
        rep.floor("float_samples", 3 * ((1u64 << 23) - 1) * FLOAT_RANGES.len() as u64);
    }
    rep.floor("int_samples", 1_000_000);
    rep.floor("shape_samples", 500_000);
    if out_is_state && centre2.is_some() {
        rep.floor("shape_states.circle_centre", 100_000);
    }
    if out_is_state && !near3.is_empty() {
        rep.floor("shape_states.sphere_near_centre", 100_000);
    }
    if out_is_state && rim2.is_some() {
        rep.floor("shape_states.disk_rim", 50_000);
    }
    rep.floor("float_random_range_samples", 500_000);
    if out_is_state {
        rep.floor("float_random_range_samples.top_mantissa", 100_000);
    }
    rep.floor("samples_iterator_checks", 100_000);
    rep.floor("composite_checks", 200_000);
    rep.floor("composites.narrow_ranges_far_from_the_origin", 100_000);
    if out_is_state && solve_states_top(&[0x7f_ffff, 0x7f_ffff], 0).is_some() {
        rep.floor("composites.states_solved_for_extreme_mantissas", 100_000);
    }
}
