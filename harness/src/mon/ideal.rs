//! The ideal perspective-correct image of a clip-space scene, computed in f64
//! without clipping and without scan conversion: for a pixel centre mapped
//! back to NDC (X,Y), solve β = M⁻¹(X,Y,1) with M = [x; y; w] (columns =
//! vertices). The centre is in the visible part iff Σβ > 0, all β_i ≥ 0 and
//! |z| ≤ w at that point. Reciprocal depth = Σβ, attribute = Σ b_i a_i with
//! b = β/Σβ.

use crate::geo::{self, P2};

#[derive(Clone, Debug)]
pub struct ITri {
    pub v: [[f64; 4]; 3],
    minv: Option<[[f64; 3]; 3]>,
    /// visible polygon in screen space (may be empty)
    pub poly: Vec<P2>,
    pub poly_area: f64,
    pub degenerate: bool,
    /// polygon has a vertex with w ≈ 0 (cannot be mapped to the screen)
    pub unmappable: bool,
}

#[derive(Clone, Copy, Debug)]
pub struct Vp {
    pub cx: f64,
    pub cy: f64,
    pub hw: f64,
    pub hh: f64,
}

impl Vp {
    /// Viewport rectangle l,t,r,b in target pixel coordinates.
    pub fn new(l: u32, t: u32, r: u32, b: u32) -> Self {
        let (hw, hh) = ((r - l) as f64 / 2.0, (b - t) as f64 / 2.0);
        Vp { cx: l as f64 + hw, cy: t as f64 + hh, hw, hh }
    }
    /// Mirrored viewports: `viewport(pt2(r,t)..pt2(l,b))` maps NDC x = −1 to
    /// the right edge (negative half-width), likewise for y.
    pub fn flipped(mut self, flip: (bool, bool)) -> Self {
        if flip.0 {
            self.hw = -self.hw;
        }
        if flip.1 {
            self.hh = -self.hh;
        }
        self
    }
    #[inline]
    pub fn to_ndc(&self, p: P2) -> P2 {
        ((p.0 - self.cx) / self.hw, (p.1 - self.cy) / self.hh)
    }
    #[inline]
    pub fn to_screen(&self, clip: &[f64; 4]) -> P2 {
        (self.cx + self.hw * clip[0] / clip[3], self.cy + self.hh * clip[1] / clip[3])
    }
}

const PLANES: [[f64; 4]; 6] = [
    [0., 0., -1., -1.],
    [0., 0., 1., -1.],
    [-1., 0., 0., -1.],
    [1., 0., 0., -1.],
    [0., -1., 0., -1.],
    [0., 1., 0., -1.],
];

fn inv3(m: &[[f64; 3]; 3]) -> Option<[[f64; 3]; 3]> {
    let d = geo::det3(m);
    let norm: f64 = m.iter().flatten().map(|x| x.abs()).fold(0.0, f64::max);
    if !(d.abs() > 1e-14 * norm * norm * norm) {
        return None;
    }
    let c = |r0: usize, c0: usize, r1: usize, c1: usize| m[r0][c0] * m[r1][c1] - m[r0][c1] * m[r1][c0];
    Some([
        [c(1, 1, 2, 2) / d, -c(0, 1, 2, 2) / d, c(0, 1, 1, 2) / d],
        [-c(1, 0, 2, 2) / d, c(0, 0, 2, 2) / d, -c(0, 0, 1, 2) / d],
        [c(1, 0, 2, 1) / d, -c(0, 0, 2, 1) / d, c(0, 0, 1, 1) / d],
    ])
}

impl ITri {
    pub fn new(v: [[f64; 4]; 3], vp: &Vp) -> Self {
        let m = [[v[0][0], v[1][0], v[2][0]], [v[0][1], v[1][1], v[2][1]], [v[0][3], v[1][3], v[2][3]]];
        let minv = inv3(&m);
        // visible polygon: unit (u,v) triangle ∩ six half-spaces
        let mut poly: Vec<P2> = vec![(0.0, 0.0), (1.0, 0.0), (0.0, 1.0)];
        for pl in &PLANES {
            let d: [f64; 3] = std::array::from_fn(|i| pl[0] * v[i][0] + pl[1] * v[i][1] + pl[2] * v[i][2] + pl[3] * v[i][3]);
            poly = geo::clip_halfplane(&poly, |(u, w)| d[0] + u * (d[1] - d[0]) + w * (d[2] - d[0]));
            if poly.is_empty() {
                break;
            }
        }
        let scale = v.iter().flatten().fold(0.0f64, |a, x| a.max(x.abs())).max(1e-300);
        let mut unmappable = false;
        let mut spoly = vec![];
        for &(u, w) in &poly {
            let p: [f64; 4] = std::array::from_fn(|k| v[0][k] + u * (v[1][k] - v[0][k]) + w * (v[2][k] - v[0][k]));
            if !(p[3] > 1e-9 * scale) {
                unmappable = true;
                break;
            }
            spoly.push(vp.to_screen(&p));
        }
        if unmappable {
            spoly.clear();
        }
        let area = if spoly.len() >= 3 { geo::poly_area(&spoly).abs() } else { 0.0 };
        ITri { v, minv, poly: spoly, poly_area: area, degenerate: minv.is_none(), unmappable }
    }

    /// (reciprocal depth Σβ, clip-space barycentrics b) if the NDC point is in
    /// the visible part.
    #[inline]
    pub fn eval(&self, ndc: P2) -> Option<(f64, [f64; 3])> {
        let mi = self.minv.as_ref()?;
        let beta: [f64; 3] = std::array::from_fn(|i| mi[i][0] * ndc.0 + mi[i][1] * ndc.1 + mi[i][2]);
        let s = beta[0] + beta[1] + beta[2];
        if !(s > 0.0) || beta.iter().any(|&b| b < 0.0) {
            return None;
        }
        let b = [beta[0] / s, beta[1] / s, beta[2] / s];
        let w = 1.0 / s;
        let z = b[0] * self.v[0][2] + b[1] * self.v[1][2] + b[2] * self.v[2][2];
        if z < -w || z > w {
            return None;
        }
        Some((s, b))
    }

    /// Reciprocal depth Σβ of the triangle's plane at an NDC point, without
    /// any inside test (None for degenerate triangles).
    pub fn s_at(&self, ndc: P2) -> Option<f64> {
        let mi = self.minv.as_ref()?;
        Some((0..3).map(|i| mi[i][0] * ndc.0 + mi[i][1] * ndc.1 + mi[i][2]).sum())
    }

    /// Largest reciprocal depth over the visible polygon (attained at one of
    /// its vertices, the reciprocal depth being affine in screen space).
    pub fn s_max_visible(&self, vp: &Vp) -> f64 {
        self.poly.iter().filter_map(|p| self.s_at(vp.to_ndc(*p))).fold(0.0, f64::max)
    }

    /// Point-in-visible-polygon in screen space (the second, independent
    /// formulation; used to cross-check `eval`).
    pub fn poly_contains(&self, p: P2) -> bool {
        if self.poly.len() < 3 || self.poly_area < 1e-12 {
            return false;
        }
        let mut pos = 0;
        let mut neg = 0;
        for i in 0..self.poly.len() {
            let e = geo::edge(self.poly[i], self.poly[(i + 1) % self.poly.len()], p);
            if e > 0.0 {
                pos += 1;
            } else if e < 0.0 {
                neg += 1;
            }
        }
        pos == 0 || neg == 0
    }
}

/// Marks every pixel whose centre is within `r` px of segment ab.
pub fn mark_near_segment(mask: &mut [bool], w: usize, h: usize, a: P2, b: P2, r: f64) {
    if !(a.0.is_finite() && a.1.is_finite() && b.0.is_finite() && b.1.is_finite()) {
        // cannot localise: mask everything (conservative, counted by caller)
        mask.iter_mut().for_each(|m| *m = true);
        return;
    }
    let (ymin, ymax) = (a.1.min(b.1) - r, a.1.max(b.1) + r);
    let j0 = ((ymin - 0.5).ceil().max(0.0)) as usize;
    let j1 = ((ymax - 0.5).floor().min(h as f64 - 1.0)) as i64;
    if j1 < 0 {
        return;
    }
    for j in j0..=(j1 as usize) {
        let yc = j as f64 + 0.5;
        // x-extent of the part of the segment inside the slab |y - yc| <= r
        let (lo, hi) = (yc - r, yc + r);
        let (xa, xb) = if a.1 == b.1 {
            (a.0.min(b.0), a.0.max(b.0))
        } else {
            let t0 = ((lo - a.1) / (b.1 - a.1)).clamp(0.0, 1.0);
            let t1 = ((hi - a.1) / (b.1 - a.1)).clamp(0.0, 1.0);
            let (x0, x1) = (a.0 + t0 * (b.0 - a.0), a.0 + t1 * (b.0 - a.0));
            (x0.min(x1), x0.max(x1))
        };
        let i0 = ((xa - r - 0.5).ceil().max(0.0)) as usize;
        let i1 = ((xb + r - 0.5).floor().min(w as f64 - 1.0)) as i64;
        if i1 < 0 {
            continue;
        }
        for i in i0..=(i1 as usize) {
            if geo::seg_dist((i as f64 + 0.5, yc), a, b) < r {
                mask[j * w + i] = true;
            }
        }
    }
}
