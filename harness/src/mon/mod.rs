//! One monitor module per property.

use crate::{Cfg, Report};

pub mod attr;
pub mod c03_clip;
pub mod c12_tex;

pub type MonFn = fn(&Cfg, &mut Report);

pub fn lookup(prop: &str) -> Option<MonFn> {
    Some(match prop {
        "C03" => c03_clip::run,
        "C12" => c12_tex::run,
        _ => return None,
    })
}
