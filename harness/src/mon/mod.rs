//! One monitor module per property.

use crate::{Cfg, Report};

pub mod attr;
pub mod c01_image;
pub mod c02_total;
pub mod ideal;
pub mod iofault;
pub mod c03_clip;
pub mod scene;
pub mod c04_cover;
pub mod c05_frag;
pub mod c06_order;
pub mod c07_flags;
pub mod layers;
pub mod rast;
pub mod c08_proj;
pub mod c09_mat;
pub mod c11_buf;
pub mod c12_tex;
pub mod c13_pnm;
pub mod c14_obj;
pub mod c15_solids;
pub mod c16_color;
pub mod c17_spline;
pub mod c18_angle;
pub mod c19_rand;
pub mod mutate;

pub use rftk::cli::MonFn;

pub fn lookup(prop: &str) -> Option<MonFn> {
    Some(match prop {
        "C01" => c01_image::run,
        "C02" => c02_total::run,
        "C03" => c03_clip::run,
        "C04" => c04_cover::run,
        "C05" => c05_frag::run,
        "C06" => c06_order::run,
        "C07" => c07_flags::run,
        "C08" => c08_proj::run,
        "C09" => c09_mat::run,
        "C11" => c11_buf::run,
        "C12" => c12_tex::run,
        "C13" => c13_pnm::run,
        "C14" => c14_obj::run,
        "C15" => c15_solids::run,
        "C16" => c16_color::run,
        "C17" => c17_spline::run,
        "C18" => c18_angle::run,
        "C19" => c19_rand::run,
        _ => return None,
    })
}
