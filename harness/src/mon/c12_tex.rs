//! C12 — texture samplers address the right texel and never go out of
//! bounds.
//!
//! Event: value or panic of Sampler{RepeatPot,Clamp,Once}::{sample,sample_abs}.
//! Oracle: texels store their own (x, y); the expected texel is computed in
//! integer arithmetic from the exact value of the f32 coordinate.

use crate::{catch, f32s, next_down, next_up, Cfg, Hasher, Json, Report, Rng};
use re::render::tex::{uv, SamplerClamp, SamplerOnce, SamplerRepeatPot, Texture};
use re::util::buf::{AsSlice2, Buf2, Slice2};

const POISON: u32 = 0xFFFF_FFFF;

/// Parent buffer with a (w×h) window at (ox, oy); window texels hold their
/// local coordinates, everything else is poison.
pub fn make_parent(w: u32, h: u32, ox: u32, oy: u32, padr: u32, padb: u32) -> Buf2<u32> {
    let (pw, ph) = (ox + w + padr, oy + h + padb);
    Buf2::new_with((pw, ph), |x, y| {
        if x >= ox && x < ox + w && y >= oy && y < oy + h {
            ((y - oy) << 16) | (x - ox)
        } else {
            POISON
        }
    })
}

/// The coordinate palette: every integer −70..70 with both f32 neighbours,
/// half-integers, ±2^k with neighbours up to 2^33, extremes and specials.
pub fn palette() -> Vec<f32> {
    let mut p = vec![];
    for i in -70..=70 {
        let x = i as f32;
        p.extend([next_down(x), x, next_up(x), x + 0.5, x + 0.25, x + 0.999]);
    }
    for k in 0..=33 {
        let x = (2.0f64).powi(k) as f32;
        for s in [1.0f32, -1.0] {
            p.extend([s * next_down(x), s * x, s * next_up(x), s * (x + 0.5), s * (x - 0.5)]);
        }
    }
    p.extend([
        0.0,
        -0.0,
        f32::MIN_POSITIVE,
        -f32::MIN_POSITIVE,
        f32::from_bits(1),
        -f32::from_bits(1),
        f32::MAX,
        f32::MIN,
        f32::INFINITY,
        f32::NEG_INFINITY,
        f32::NAN,
        -f32::NAN,
        2147483520.0,  // largest f32 < 2^31
        -2147483648.0, // -2^31
        -2147483904.0, // next below -2^31
        4294967040.0,  // largest f32 < 2^32
        1e-10,
        -1e-10,
        1e20,
        -1e20,
    ]);
    p
}

fn floor_exact(x: f32) -> Option<i128> {
    if !x.is_finite() {
        return None;
    }
    Some((x as f64).floor() as i128)
}

/// What is demanded of the returned texel, per axis: Some(i) = exactly
/// column/row i; None = only "no panic, inside the texture" (NaN, infinite
/// or ≥ 2^31 coordinate on that axis). A special value on one axis does not
/// excuse the other.
#[derive(Clone, Copy, PartialEq, Debug)]
struct Expect(Option<u32>, Option<u32>);

/// For the relative entry points: "the absolute one scaled by the texture
/// size" leaves open whether tc·size is rounded to f32 before the floor (as
/// the library does) or not (f64, fused, integer scaling). Where the two
/// disagree — only for non-power-of-two sizes at a texel boundary — either
/// texel is accepted on that axis.
#[derive(Clone, Copy, Debug)]
struct Alt(Option<u32>, Option<u32>);

fn expect_repeat(c: f32, size: u32) -> Option<u32> {
    let f = floor_exact(c)?;
    if (c as f64).abs() >= 2147483648.0 {
        return None;
    }
    Some(f.rem_euclid(size as i128) as u32)
}
/// Clamp expectation for a relative coordinate scaled exactly (no f32 rounding
/// of the product).
fn exact_clamp(tc: f32, size: u32) -> Option<u32> {
    if tc.is_nan() {
        return None;
    }
    let hi = (size - 1) as f64;
    Some((tc as f64 * size as f64).max(0.0).min(hi).floor() as u32)
}
fn expect_clamp(c: f32, size: u32) -> Option<u32> {
    if c.is_nan() {
        return None;
    }
    let hi = (size - 1) as f64;
    let cl = (c as f64).max(0.0).min(hi);
    Some(cl.floor() as u32)
}

fn judge(
    rep: &mut Report,
    what: &str,
    got: Result<u32, String>,
    exp: Expect,
    w: u32,
    h: u32,
    case: impl Fn() -> Json,
) {
    judge_alt(rep, what, got, exp, Alt(None, None), w, h, case)
}

#[allow(clippy::too_many_arguments)]
fn judge_alt(
    rep: &mut Report,
    what: &str,
    got: Result<u32, String>,
    exp: Expect,
    alt: Alt,
    w: u32,
    h: u32,
    case: impl Fn() -> Json,
) {
    match got {
        Err(msg) => {
            rep.violation(
                &format!("tex.{what}.panic"),
                format!("{what} panicked: {msg}"),
                case(),
            );
        }
        Ok(t) => {
            if t == POISON || (t & 0xFFFF) >= w || (t >> 16) >= h {
                rep.violation(
                    &format!("tex.{what}.out_of_region"),
                    format!("{what} returned a texel outside the texture: 0x{t:08x}"),
                    case(),
                );
                return;
            }
            let (gx, gy) = (t & 0xFFFF, t >> 16);
            let okx = exp.0.map_or(true, |x| x == gx) || alt.0.is_some_and(|x| x == gx);
            let oky = exp.1.map_or(true, |y| y == gy) || alt.1.is_some_and(|y| y == gy);
            if (alt.0.is_some() && alt.0 != exp.0) || (alt.1.is_some() && alt.1 != exp.1) {
                rep.count("coord.relative_product_rounds_across_a_texel_boundary(either texel accepted)");
            }
            if !(okx && oky) {
                rep.violation(
                    &format!("tex.{what}.wrong_texel"),
                    format!("{what}: got texel ({gx},{gy}), expected ({}, {})", exp.0.map_or("any".into(), |x| x.to_string()), exp.1.map_or("any".into(), |y| y.to_string())),
                    case(),
                );
            }
            if exp.0.is_some() != exp.1.is_some() {
                rep.count("coord.one_axis_special_other_judged");
            }
        }
    }
}

/// One sampling experiment on one texture with one coordinate pair.
fn probe<D: AsSlice2<u32>>(rep: &mut Report, tex: &Texture<D>, w: u32, h: u32, pot: bool, u: f32, v: f32, kind: &str) {
    let case = || {
        Json::obj()
            .set("texture", format!("{w}x{h} {kind}"))
            .set("u", f32s(u))
            .set("v", f32s(v))
    };
    let mut hsh = Hasher::new();
    hsh.u64(w as u64).u64(h as u64).f32(u).f32(v).bytes(kind.as_bytes());
    let special = !u.is_finite() || !v.is_finite() || u.abs() >= 2147483648.0 || v.abs() >= 2147483648.0;
    rep.case(hsh.get(), true);
    rep.count(if special { "coord.special_or_huge" } else { "coord.ordinary" });
    if u < 0.0 || v < 0.0 {
        rep.count("coord.negative");
    }

    // --- repeat sampler (power-of-two sizes only)
    if pot {
        let s = match catch(|| SamplerRepeatPot::new(tex)) {
            Ok(s) => Some(s),
            Err(m) => {
                rep.violation("tex.repeat.new_panic", format!("SamplerRepeatPot::new panicked on a power-of-two texture: {m}"), case());
                None
            }
        };
        if let Some(s) = s {
        let exp = Expect(expect_repeat(u, w), expect_repeat(v, h));
        let got = catch(|| s.sample_abs(tex, uv(u, v)));
        judge(rep, "repeat.sample_abs", got.clone(), exp, w, h, case);
        rep.count("op.repeat.sample_abs");
        // relative entry point == absolute one at scaled coordinates
        let (su, sv) = (w as f32 * u, h as f32 * v);
        let rel = catch(|| s.sample(tex, uv(u, v)));
        let abs = catch(|| s.sample_abs(tex, uv(su, sv)));
        rep.count("op.repeat.sample");
        match (&rel, &abs) {
            (Ok(a), Ok(b)) if a == b => {}
            (Err(_), Err(_)) => {} // panic reported below through judge
            // outside the stated domain (NaN, infinite, ≥ 2^31 after scaling)
            // the two entry points may land on different texels
            _ if expect_repeat(su, w).is_none() || expect_repeat(sv, h).is_none() => rep.count("repeat.rel_ne_abs_outside_the_domain(not judged)"),
            _ => rep.violation(
                "tex.repeat.rel_ne_abs",
                format!("sample(tc)={rel:?} but sample_abs(tc*size)={abs:?}"),
                case(),
            ),
        }
        let exp_rel = Expect(expect_repeat(su, w), expect_repeat(sv, h));
        judge(rep, "repeat.sample", rel, exp_rel, w, h, case);
        }
    }

    // --- clamp sampler
    {
        let s = SamplerClamp;
        let exp = Expect(expect_clamp(u, w), expect_clamp(v, h));
        let got = catch(|| s.sample_abs(tex, uv(u, v)));
        judge(rep, "clamp.sample_abs", got, exp, w, h, case);
        rep.count("op.clamp.sample_abs");
        let (su, sv) = (u * w as f32, v * h as f32);
        let rel = catch(|| s.sample(tex, uv(u, v)));
        let abs = catch(|| s.sample_abs(tex, uv(su, sv)));
        rep.count("op.clamp.sample");
        match (&rel, &abs) {
            (Ok(a), Ok(b)) if a == b => {}
            (Err(_), Err(_)) => {}
            // NaN: the statement only asks for "no panic"; and where the exact
            // product and its f32 rounding fall on different texels, a relative
            // entry point that scales exactly differs from sample_abs(f32 product)
            _ if u.is_nan() || v.is_nan() || exact_clamp(u, w) != expect_clamp(su, w) || exact_clamp(v, h) != expect_clamp(sv, h) => rep.count("clamp.rel_ne_abs_outside_the_domain_or_at_a_rounding_boundary(not judged)"),
            _ => rep.violation(
                "tex.clamp.rel_ne_abs",
                format!("sample(tc)={rel:?} but sample_abs(tc*size)={abs:?}"),
                case(),
            ),
        }
        let exp_rel = Expect(expect_clamp(su, w), expect_clamp(sv, h));
        judge_alt(rep, "clamp.sample", rel, exp_rel, Alt(exact_clamp(u, w), exact_clamp(v, h)), w, h, case);
    }

    // --- unchecked sampler: only for in-range coordinates
    let in_range = |c: f32, n: u32| c >= 0.0 && (c as f64) < n as f64;
    if in_range(u, w) && in_range(v, h) {
        let exp = Expect(Some((u as f64).floor() as u32), Some((v as f64).floor() as u32));
        let got = catch(|| SamplerOnce.sample_abs(tex, uv(u, v)));
        judge(rep, "once.sample_abs", got, exp, w, h, case);
        rep.count("op.once.sample_abs");
    }
    let (su, sv) = (w as f32 * u, h as f32 * v);
    if in_range(su, w) && in_range(sv, h) && u >= 0.0 && v >= 0.0 {
        let exp = Expect(Some((su as f64).floor() as u32), Some((sv as f64).floor() as u32));
        let got = catch(|| SamplerOnce.sample(tex, uv(u, v)));
        let ex = |c: f32, n: u32| Some(((c as f64 * n as f64).floor() as u32).min(n - 1));
        judge_alt(rep, "once.sample", got, exp, Alt(ex(u, w), ex(v, h)), w, h, case);
        rep.count("op.once.sample");
    }
}

fn probe_both(rep: &mut Report, w: u32, h: u32, rng: &mut Rng, u: f32, v: f32) {
    let pot = w.is_power_of_two() && h.is_power_of_two();
    // owned texture
    let owned = Texture::from(make_parent(w, h, 0, 0, 0, 0));
    probe(rep, &owned, w, h, pot, u, v, "owned");
    // borrowed sub-region of a larger, poisoned buffer
    let (ox, oy) = (rng.below(4) as u32, rng.below(4) as u32);
    let (pr, pb) = (rng.below(4) as u32, rng.below(4) as u32);
    let parent = make_parent(w, h, ox, oy, pr, pb);
    match rng.below(3) {
        0 => {
            let sub = parent.slice((ox..ox + w, oy..oy + h));
            probe(rep, &Texture::from(sub), w, h, pot, u, v, "borrowed");
        }
        1 => {
            // a window of a window
            let outer = parent.slice((ox.., oy..));
            let sub = outer.slice((0..w, 0..h));
            rep.count("kind.borrowed.slice_of_slice");
            probe(rep, &Texture::from(sub), w, h, pot, u, v, "borrowed (slice of slice)");
        }
        _ => {
            // Slice2::new over raw data: stride ≥ width, surplus poisoned tail
            let stride = w + rng.below(40) as u32;
            let len = ((h - 1) * stride + w) as usize + rng.below(5) as usize;
            let data: Vec<u32> = (0..len as u32).map(|i| if i % stride < w && i / stride < h { ((i / stride) << 16) | (i % stride) } else { POISON }).collect();
            let sub = Slice2::new((w, h), stride, &data[..]);
            rep.count("kind.borrowed.Slice2::new(strided)");
            probe(rep, &Texture::from(sub), w, h, pot, u, v, "borrowed (Slice2::new, strided)");
        }
    }
}

pub fn run(cfg: &Cfg, rep: &mut Report) {
    rep.rule = "case = (texture size & kind, coordinate pair); coordinates enumerated from a palette \
(every integer -70..70 ± 1 ulp, k+1/2, ±2^k ± 1 ulp up to 2^33, extremes, ±inf, NaN, subnormals) crossed with all \
texture sizes, plus random pairs; all are non-trivial; distinct by hash of (size, kind, u bits, v bits)"
        .into();
    rep.assumptions.push("texture sides up to 4097 are driven; sides of 2^24 and more, where the f32 the samplers keep for the size is no longer exact, are taken to be outside 'all texture sizes' (65535 is also the limit of the 16+16-bit texel identity used here)".into());
    rep.assumptions.push("the relative entry points are compared with the absolute ones at the coordinate scaled by one f32 multiplication, which is how the library documents them".into());
    rep.assumptions.push("texel identity is observed through texels that store their own coordinates; out-of-region texels of borrowed textures hold a poison value".into());
    let pal = palette();
    let np = pal.len() as u64;
    let max = if cfg.quick() { 17u32 } else { 33 };
    // all sizes (w,h) in 1..=max plus powers of two up to 64
    let mut sizes: Vec<(u32, u32)> = vec![];
    for w in 1..=max {
        for h in 1..=max {
            sizes.push((w, h));
        }
    }
    for w in [32u32, 64, 128] {
        for h in [1u32, 2, 4, 8, 16, 32, 64, 128] {
            sizes.push((w, h));
            sizes.push((h, w));
        }
    }
    sizes.sort();
    sizes.dedup();
    let ns = sizes.len() as u64;

    // Stream 0: every size × every palette value on u (v from palette, random) and on v.
    let n0 = ns * np;
    rep.run_stream(cfg, 0, "sizes_x_palette", n0, |rng, i, rep| {
        let (w, h) = sizes[(i / np) as usize];
        let c = pal[(i % np) as usize];
        let other = if rng.chance(1, 2) { rng.pick(&pal) } else { rng.f32_in(-3.0, 70.0) };
        probe_both(rep, w, h, rng, c, other);
        probe_both(rep, w, h, rng, other, c);
        if i < 3 {
            rep.sample(|| Json::obj().set("texture", format!("{w}x{h}")).set("u", f32s(c)).set("v", f32s(other)));
        }
    });
    rep.exhaustive.push(format!(
        "all texture sizes 1..={max} squared (plus power-of-two sizes up to 128) × all {np} palette coordinates on each axis"
    ));

    // Stream 1: random pairs (relative-coordinate magnitudes, texel-space magnitudes, arbitrary bit patterns)
    let n1 = cfg.n(400_000, 40_000_000);
    rep.run_stream(cfg, 1, "random_pairs", n1, |rng, _i, rep| {
        let (w, h) = sizes[rng.usize(sizes.len())];
        let mut c = |rng: &mut Rng| match rng.below(8) {
            0 => rng.any_f32(),
            1 => rng.f32_in(-2.0, 2.0),
            2 => rng.f32_in(-300.0, 300.0),
            3 => {
                let k = rng.int(-300, 300) as f32;
                rng.ulp_nudge(k)
            }
            4 => rng.sign() * rng.log_f32(1e-3, 1e12),
            5 => rng.int(-4, 4) as f32 + rng.int(0, 8) as f32 / 8.0,
            6 => rng.pick(&pal),
            _ => rng.f32_in(0.0, 1.0),
        };
        let (mut u, mut v) = (c(rng), c(rng));
        // texel boundaries in *relative* coordinates: k/size and both f32
        // neighbours, a few repeats around the unit square
        if rng.chance(1, 4) {
            let k = rng.int(-2 * w as i64, 2 * w as i64) as f32 / w as f32;
            u = rng.ulp_nudge(k);
            rep.count("coord.relative_texel_boundary");
        }
        if rng.chance(1, 4) {
            let k = rng.int(-2 * h as i64, 2 * h as i64) as f32 / h as f32;
            v = rng.ulp_nudge(k);
        }
        probe_both(rep, w, h, rng, u, v);
    });

    // Stream 2: the repeating sampler on larger power-of-two textures and
    // non-power-of-two sizes beyond a byte, with coordinates up to 2^31
    let big_sizes: Vec<(u32, u32)> = vec![(256, 1), (256, 2), (1024, 4), (4096, 1), (4096, 2), (1, 4096), (2, 1024), (512, 512), (255, 1), (257, 3), (1000, 1), (4097, 3), (3, 1000), (1, 257), (640, 480)];
    rep.run_stream(cfg, 2, "larger_textures", cfg.n(60_000, 6_000_000), |rng, _i, rep| {
        let (w, h) = big_sizes[rng.usize(big_sizes.len())];
        let mut c = |rng: &mut Rng, n: u32| match rng.below(8) {
            0 => rng.sign() * rng.log_f32(1048576.0, 2147483648.0),
            1 => {
                // odd integers and their neighbours: the low bits survive the mask
                let k = (rng.int(-(1 << 23), 1 << 23) | 1) as f32;
                rng.ulp_nudge(k)
            }
            2 => {
                let k = rng.int(-2 * n as i64, 2 * n as i64) as f32;
                rng.ulp_nudge(k)
            }
            3 => {
                let k = rng.int(-2 * n as i64, 2 * n as i64) as f32 / n as f32;
                rng.ulp_nudge(k)
            }
            4 => rng.f32_in(-2.0 * n as f32, 3.0 * n as f32),
            5 => rng.pick(&pal),
            _ => rng.f32_in(-1.0, 2.0),
        };
        let (u, v) = (c(rng, w), c(rng, h));
        rep.count("larger_textures.cases");
        probe_both(rep, w, h, rng, u, v);
    });

    for (k, n) in [("op.repeat.sample_abs", 200_000), ("op.repeat.sample", 200_000), ("op.clamp.sample_abs", 1_000_000), ("op.clamp.sample", 1_000_000), ("op.once.sample_abs", 100_000), ("op.once.sample", 20_000), ("coord.special_or_huge", 100_000), ("coord.negative", 500_000), ("coord.one_axis_special_other_judged", 50_000), ("coord.relative_texel_boundary", 50_000), ("kind.borrowed.slice_of_slice", 100_000), ("kind.borrowed.Slice2::new(strided)", 100_000), ("larger_textures.cases", 30_000)] {
        rep.floor(k, n);
    }
}

/// Reduced workload for Miri: `n` coordinate pairs on small textures.
pub fn mini(rng: &mut Rng, n: usize, rep: &mut Report) {
    let pal = palette();
    for i in 0..n {
        let (w, h) = (rng.pick(&[1u32, 2, 3, 4, 8]), rng.pick(&[1u32, 2, 4, 5]));
        let (u, v) = if i % 2 == 0 { (rng.pick(&pal), rng.f32_in(-3.0, 9.0)) } else { (rng.f32_in(-9.0, 9.0), rng.pick(&pal)) };
        probe_both(rep, w, h, rng, u, v);
    }
}
