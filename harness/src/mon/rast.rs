//! Shared observation layer for the scan-conversion monitors (C04, C05):
//! calls the real `tri_fill` and records every Scanline and Frag it emits.

use super::attr::{Attr, MAXC};
use crate::{catch, Rng};
use re::geom::vertex;
use re::math::point::pt3;
use re::render::raster::tri_fill;

#[derive(Clone, Debug)]
pub struct Frag {
    pub pos: [f32; 3],
    pub var: [f32; MAXC],
}

#[derive(Clone, Debug)]
pub struct Span {
    pub y: usize,
    pub x0: usize,
    /// Raw `xs.end` (may be < x0).
    pub x1: usize,
    pub frags: Vec<Frag>,
    pub n_frags: usize,
}

/// Runs tri_fill on screen vertices `(x, y, z)` with attributes, recording
/// spans; `keep_frags` = also keep every fragment's values.
pub fn fill<A: Attr>(p: &[[f32; 3]; 3], a: &[[f32; MAXC]; 3], keep_frags: bool) -> Result<Vec<Span>, String> {
    let verts = std::array::from_fn::<_, 3, _>(|i| vertex(pt3(p[i][0], p[i][1], p[i][2]), A::make(&a[i][..A::N.max(1)])));
    catch(move || {
        let mut spans = vec![];
        tri_fill(verts, |mut sl| {
            let (y, x0, x1) = (sl.y, sl.xs.start, sl.xs.end);
            let mut frags = vec![];
            let mut n = 0;
            for f in sl.fragments() {
                n += 1;
                if keep_frags {
                    frags.push(Frag { pos: f.pos.0, var: f.var.comps() });
                }
            }
            spans.push(Span { y, x0, x1, frags, n_frags: n });
        });
        spans
    })
}

/// Unit-attribute variant (coverage only).
pub fn fill_unit(p: &[[f32; 2]; 3]) -> Result<Vec<Span>, String> {
    let verts = std::array::from_fn::<_, 3, _>(|i| vertex(pt3(p[i][0], p[i][1], 1.0), ()));
    catch(move || {
        let mut spans = vec![];
        tri_fill(verts, |mut sl| {
            let (y, x0, x1) = (sl.y, sl.xs.start, sl.xs.end);
            let n = sl.fragments().count();
            spans.push(Span { y, x0, x1, frags: vec![], n_frags: n });
        });
        spans
    })
}

/// Screen-coordinate generators shared by C04/C05. `ext` is the extent.
pub fn gen_coords(rng: &mut Rng, ext: f32) -> [[f32; 2]; 3] {
    let mode = rng.below(12);
    let mut c = |rng: &mut Rng| -> f32 {
        let u = rng.f32_in(0.0, ext);
        match mode {
            0 => u.floor(),
            1 => (u * 2.0).floor() / 2.0,
            2 => (u * 16.0).floor() / 16.0,
            3 => {
                // exactly on / next to pixel centres
                let k = u.floor() + 0.5;
                rng.ulp_nudge(k)
            }
            4 => {
                let k = u.floor();
                rng.ulp_nudge(k)
            }
            _ => u,
        }
    };
    let mut t = [[c(rng), c(rng)], [c(rng), c(rng)], [c(rng), c(rng)]];
    match mode {
        5 => t[1][1] = t[0][1],                                   // flat top/bottom
        6 => t[1][1] = t[0][1] + 1.0,                             // one-row-high half
        7 => t[1][1] = rng.ulp_nudge(t[0][1] + 1.0),              // one row ± ulp
        8 => t[1][1] = t[0][1] + rng.f32_in(0.0, 1.0),            // less than a row
        9 => {
            // sliver
            let s = rng.f32_in(0.0, 1.0);
            t[2][0] = t[0][0] + s * (t[1][0] - t[0][0]) + rng.f32_in(-0.6, 0.6);
            t[2][1] = t[0][1] + s * (t[1][1] - t[0][1]) + rng.f32_in(-0.6, 0.6);
            t[2][0] = t[2][0].clamp(0.0, ext);
            t[2][1] = t[2][1].clamp(0.0, ext);
        }
        10 => {
            // sub-pixel triangle
            let (cx, cy) = (t[0][0], t[0][1]);
            for v in t.iter_mut() {
                v[0] = (cx + rng.f32_in(-0.8, 0.8)).clamp(0.0, ext);
                v[1] = (cy + rng.f32_in(-0.8, 0.8)).clamp(0.0, ext);
            }
        }
        _ => {}
    }
    let k = rng.usize(6);
    const PERMS: [[usize; 3]; 6] = [[0, 1, 2], [0, 2, 1], [1, 0, 2], [1, 2, 0], [2, 0, 1], [2, 1, 0]];
    let q = PERMS[k];
    [t[q[0]], t[q[1]], t[q[2]]]
}
