//! C02 — rendering never panics, never writes outside the viewport, never
//! leaves NaN in the depth buffer.
//!
//! Event: render() through the library's own perspective/orthographic and
//! viewport matrices. Oracle: (1) no panic (caught), (2) every colour and
//! depth cell outside the viewport rectangle is bit-identical to its
//! sentinel afterwards — checked with two different sentinel patterns so a
//! write of the sentinel value itself cannot hide — (3) no NaN depth.

use super::scene::{pack, render_view, Canvas, Tk};
use crate::{f32s, f32v, next_down, next_up, Cfg, Hasher, Json, Report, Rng};
use re::math::mat::{orthographic, perspective, viewport, Mat4x4};
use re::math::point::{pt2, pt3};
use re::render::ctx::{Context, DepthSort, FaceCull};
use re::render::raster::Frag;
use re::render::ViewToProj;
use std::cmp::Ordering;

#[derive(Clone, Debug)]
pub struct Case {
    pub bw: u32,
    pub bh: u32,
    pub win: (u32, u32, u32, u32),
    pub vp: (u32, u32, u32, u32), // l,t,r,b relative to the window
    pub tk: Tk,
    pub ortho: bool,
    pub near: f32,
    pub far: f32,
    pub focal: f32,
    pub aspect: f32,
    pub obox: ([f32; 3], [f32; 3]),
    pub verts: Vec<([f32; 3], f32)>,
    pub tris: Vec<[usize; 3]>,
    pub cull: Option<FaceCull>,
    pub sort: Option<DepthSort>,
    pub test: Option<Ordering>,
    pub cw: bool,
    pub dw: bool,
    pub discard: bool,
    /// mirrored viewport: viewport(pt2(r, t)..pt2(l, b)) etc.
    pub flip: (bool, bool),
    pub generator: &'static str,
}

impl Case {
    pub fn json(&self) -> Json {
        Json::obj()
            .set("buffer", format!("{}x{}", self.bw, self.bh))
            .set("target", self.tk.name())
            .set("window", format!("{:?}", self.win))
            .set("viewport_ltrb", format!("{:?}", self.vp))
            .set("viewport_mirrored_xy", format!("{:?}", self.flip))
            .set("generator", self.generator)
            .set("projection", if self.ortho { format!("orthographic {:?}..{:?}", self.obox.0, self.obox.1) } else { format!("perspective focal={} aspect={} near={} far={}", f32s(self.focal), f32s(self.aspect), f32s(self.near), f32s(self.far)) })
            .set("verts_view_xyz", Json::Arr(self.verts.iter().map(|(p, _)| Json::Str(f32v(p))).collect()))
            .set("tris", format!("{:?}", self.tris))
            .set("ctx", format!("cull={:?} sort={:?} test={:?} color_write={} depth_write={} discarding_shader={}", self.cull, self.sort, self.test, self.cw, self.dw, self.discard))
    }
    pub fn proj(&self) -> Mat4x4<ViewToProj> {
        if self.ortho {
            orthographic(pt3(self.obox.0[0], self.obox.0[1], self.obox.0[2]), pt3(self.obox.1[0], self.obox.1[1], self.obox.1[2]))
        } else {
            perspective(self.focal, self.aspect, self.near..self.far)
        }
    }
    pub fn ctx(&self) -> Context {
        Context { face_cull: self.cull, depth_sort: self.sort, depth_test: self.test, color_write: self.cw, depth_write: self.dw, ..Context::default() }
    }
}

/// A coordinate aimed at the mechanisms the property names.
fn pick(rng: &mut Rng, near: f32, far: f32, lim: f32) -> f32 {
    let u = rng.f32_in(-1.0, 1.0);
    match rng.below(20) {
        0 => 0.0,
        1 => near,
        2 => far,
        3 => -near,
        4 => lim,
        5 => -lim,
        6 => (near + far) * 0.5,
        7 => rng.ulp_nudge(near),
        8 => rng.ulp_nudge(far),
        9 | 10 => u * lim,
        11 | 12 => u * far,
        13 => next_up(0.0) * rng.sign(),
        _ => u * near * 10.0,
    }
}

pub fn gen(rng: &mut Rng) -> Case {
    gen_sized(rng, 24, true)
}

/// Reduced workload for Miri: scenes in buffers ≤ 8x8.
pub fn mini(rng: &mut Rng, n: usize, rep: &mut Report) {
    for _ in 0..n {
        let c = gen_sized(rng, 8, false);
        run_case(rep, &c);
    }
}

pub fn gen_sized(rng: &mut Rng, small_max: u64, allow_big: bool) -> Case {
    gen_dims(rng, small_max, allow_big, None)
}

/// `dims`: a fixed frame size (the large_targets stream).
pub fn gen_dims(rng: &mut Rng, small_max: u64, allow_big: bool, dims: Option<(u32, u32)>) -> Case {
    let big = allow_big && rng.chance(1, 4);
    let bw = if big { 25 + rng.below(104) as u32 } else { 1 + rng.below(small_max) as u32 };
    let bh = if big { 25 + rng.below(72) as u32 } else { 1 + rng.below(small_max) as u32 };
    let (bw, bh) = dims.unwrap_or((bw, bh));
    let tk = rng.pick(&[Tk::FbOwned, Tk::FbOwned, Tk::FbWindow, Tk::ColOwned, Tk::ColWindow]);
    let win = if tk.is_window() {
        let ox = rng.below(bw as u64) as u32;
        let oy = rng.below(bh as u64) as u32;
        (ox, oy, 1 + rng.below((bw - ox) as u64) as u32, 1 + rng.below((bh - oy) as u64) as u32)
    } else {
        (0, 0, bw, bh)
    };
    let (ww, wh) = (win.2, win.3);
    // viewport shapes: full, single row, single column, touching each border, random
    let vp = match rng.below(8) {
        0 | 1 => (0, 0, ww, wh),
        2 => {
            let t = rng.below(wh as u64) as u32;
            (0, t, ww, t + 1)
        }
        3 => {
            let l = rng.below(ww as u64) as u32;
            (l, 0, l + 1, wh)
        }
        _ => {
            let l = rng.below(ww as u64) as u32;
            let t = rng.below(wh as u64) as u32;
            (l, t, l + 1 + rng.below((ww - l) as u64) as u32, t + 1 + rng.below((wh - t) as u64) as u32)
        }
    };
    // a palette of round values (their planes are hit exactly by round
    // coordinates), or anything in the stated domain
    let free = rng.chance(1, 3);
    let near = if free { rng.log_f32(1e-3, 1e3) } else { rng.pick(&[0.01f32, 0.1, 1.0, 10.0]) };
    let far = near * if free { rng.log_f32(1.0001, 1000.0) } else { rng.pick(&[1.5f32, 2.0, 10.0, 100.0, 1000.0]) };
    let focal = if free { rng.log_f32(0.1, 10.0) } else { rng.pick(&[0.1f32, 0.5, 1.0, 2.0, 10.0]) };
    let aspect = (vp.2 - vp.0) as f32 / (vp.3 - vp.1) as f32;
    let ortho = rng.chance(1, 4);
    let lim = 1000.0 * near;
    let s = near * rng.pick(&[1.0f32, 10.0, 100.0]);
    let mut obox = ([-s * rng.f32_in(0.5, 1.0), -s * rng.f32_in(0.3, 1.0), near], [s * rng.f32_in(0.5, 1.0), s * rng.f32_in(0.3, 1.0), far]);
    // boxes off the axis and with a flipped y (a y-up convention), as users build them
    if rng.chance(1, 4) {
        let (dx, dy) = (rng.f32_in(-2.0, 2.0) * s, rng.f32_in(-2.0, 2.0) * s);
        obox.0[0] += dx;
        obox.1[0] += dx;
        obox.0[1] += dy;
        obox.1[1] += dy;
    }
    if rng.chance(1, 6) {
        let (a, b) = (obox.0[1], obox.1[1]);
        obox.0[1] = b;
        obox.1[1] = a;
    }
    let ntri = 1 + rng.below(5) as usize;
    let mut verts = vec![];
    let mut tris = vec![];
    let visible_bias = rng.chance(4, 5);
    for k in 0..ntri {
        let kind = rng.below(13);
        for _ in 0..3 {
            let p = if visible_bias && kind < 7 {
                // inside (or near) the view volume
                let z = rng.f32_in(near, far.min(near * 50.0));
                if ortho {
                    [rng.f32_in(obox.0[0], obox.1[0]) * 1.3, rng.f32_in(obox.0[1], obox.1[1]) * 1.3, rng.f32_in(near, far)]
                } else {
                    [rng.f32_in(-1.4, 1.4) * z / focal, rng.f32_in(-1.4, 1.4) * z / (focal * aspect), z]
                }
            } else {
                [pick(rng, near, far, lim), pick(rng, near, far, lim), pick(rng, near, far, lim)]
            };
            verts.push((p, rng.f32_in(0.0, 1.0)));
        }
        let b = 3 * k;
        match kind {
            7 => verts[b + 1].0 = verts[b].0, // coincident vertices
            8 => {
                // zero area: collinear
                let s = rng.f32_in(-1.0, 2.0);
                for c in 0..3 {
                    verts[b + 2].0[c] = verts[b].0[c] + s * (verts[b + 1].0[c] - verts[b].0[c]);
                }
            }
            10 => {
                // two coincident vertices and an apex that projects exactly
                // onto the viewport centre (a pixel centre for odd sizes):
                // a zero-width triangle that may still emit a fragment
                verts[b + 1].0 = verts[b].0;
                verts[b + 2].0 = [0.0, 0.0, rng.f32_in(near, far)];
            }
            11 | 12 => {
                // slivers hugging a pixel-centre row/column from just below:
                // y (or x) a few ulps or a subnormal off the optical axis,
                // which a one-row viewport maps to 0.49999997
                let eps = rng.pick(&[-1e-45f32, -1e-30, -1e-10, -6e-8, -1.2e-7, 1e-45, 6e-8]);
                let axis = rng.usize(2);
                let j = b + rng.usize(3);
                verts[j].0[axis] = eps * verts[j].0[2].abs().max(near);
                let j2 = b + rng.usize(3);
                let nn = rng.ulp_nudge(near);
                verts[j2].0[2] = rng.pick(&[near, nn, far]);
                if kind == 12 {
                    verts[b + rng.usize(3)].0[2] = -rng.f32_in(0.5, 2.0) * near; // behind the eye
                }
            }
            9 => {
                // sub-pixel
                for j in 1..3 {
                    for c in 0..3 {
                        verts[b + j].0[c] = verts[b].0[c] * (1.0 + rng.f32_in(-1e-3, 1e-3));
                    }
                }
            }
            _ => {}
        }
        // exactly on the side planes of a perspective frustum: x = ± z/focal
        if !ortho && rng.chance(1, 8) {
            let j = b + rng.usize(3);
            let z = verts[j].0[2];
            verts[j].0[0] = rng.sign() * z / focal;
        }
        tris.push([b, b + 1, b + 2]);
    }
    // shared vertices between triangles now and then
    if ntri > 1 && rng.chance(1, 3) {
        tris[1][0] = tris[0][0];
        tris[1][1] = tris[0][2];
    }
    // a triangle naming the same vertex twice (or three times)
    if rng.chance(1, 25) {
        let k = rng.usize(ntri);
        tris[k][1] = tris[k][0];
        if rng.bool() {
            tris[k][2] = tris[k][0];
        }
    }
    // the stated domain: |view-space coordinate| ≤ 1000·near (the mutations
    // above can leave it)
    for (p, _) in verts.iter_mut() {
        for c in p.iter_mut() {
            *c = c.clamp(-lim, lim);
        }
    }
    Case {
        bw,
        bh,
        win,
        vp,
        tk,
        ortho,
        near,
        far,
        focal,
        aspect,
        obox,
        verts,
        tris,
        cull: rng.pick(&[None, Some(FaceCull::Back), Some(FaceCull::Front)]),
        sort: rng.pick(&[None, Some(DepthSort::FrontToBack), Some(DepthSort::BackToFront)]),
        test: rng.pick(&[None, Some(Ordering::Less), Some(Ordering::Less), Some(Ordering::Equal), Some(Ordering::Greater)]),
        cw: !rng.chance(1, 5),
        dw: !rng.chance(1, 5),
        discard: rng.chance(1, 5),
        flip: if rng.chance(1, 6) { (rng.bool(), rng.bool()) } else { (false, false) },
        generator: if free { "free parameters" } else { "palette" },
    }
}

/// Scenes whose vertices lie *bit-exactly* on frustum planes: all parameters
/// are powers of two or small integers, so that x = ±w, y = ±w, z = ±w hold
/// exactly after the projection. Patterns: a vertex, an edge or a whole
/// triangle in a plane; a triangle touching a plane or a frustum corner from
/// outside (its clipped polygon has one or two vertices left), followed in
/// the same call by triangles that straddle planes — where bookkeeping slips
/// of the clipper's reused scratch buffers live.
pub fn gen_on_planes(rng: &mut Rng) -> Case {
    let n = rng.pick(&[8u32, 16, 32]);
    let (bw, bh) = (n * rng.pick(&[1u32, 2]), n);
    let tk = rng.pick(&[Tk::FbOwned, Tk::FbWindow, Tk::ColOwned]);
    let win = if tk.is_window() { (2, 1, bw - 3, bh - 2) } else { (0, 0, bw, bh) };
    // a viewport with a power-of-two aspect inside the window
    let (vw, vh) = if win.2 >= 2 * (win.3 / 2) && rng.bool() { (2 * (win.3 / 2).max(1), (win.3 / 2).max(1)) } else { (win.3.min(win.2), win.3.min(win.2)) };
    let vp = (0, 0, vw.max(1), vh.max(1));
    let aspect = vp.2 as f32 / vp.3 as f32; // 1 or 2
    let ortho = rng.chance(1, 3);
    let near = rng.pick(&[0.5f32, 1.0, 2.0]);
    let far = near * rng.pick(&[2.0f32, 3.0, 5.0, 9.0]);
    let focal = rng.pick(&[0.5f32, 1.0, 2.0]);
    let h = rng.pick(&[1.0f32, 2.0, 4.0]);
    let obox = ([-h, -h / 2.0, near], [h, h / 2.0, far]);
    // a point exactly on plane `pl` (0 near, 1 far, 2 left, 3 right, 4 bottom, 5 top) at parameters (a, b) ∈ [-1, 1]²
    let on = |pl: usize, a: f32, b: f32, zsel: f32| -> [f32; 3] {
        // zsel ∈ {near, far, mid values}: dyadic depths
        let z = zsel;
        let (sx, sy) = if ortho { (h, h / 2.0) } else { (z / focal, z / (focal * aspect)) };
        match pl {
            0 => [a * if ortho { h } else { near / focal }, b * if ortho { h / 2.0 } else { near / (focal * aspect) }, near],
            1 => [a * if ortho { h } else { far / focal }, b * if ortho { h / 2.0 } else { far / (focal * aspect) }, far],
            2 => [-sx, b * sy, z],
            3 => [sx, b * sy, z],
            4 => [a * sx, -sy, z],
            _ => [a * sx, sy, z],
        }
    };
    let depths = [near, far, near * 2.0, (near + far) / 2.0];
    let mut dy = |rng: &mut Rng| rng.pick(&[-1.0f32, -0.5, 0.0, 0.25, 0.5, 1.0]);
    let mut verts: Vec<([f32; 3], f32)> = vec![];
    let mut tris = vec![];
    let ntri = 2 + rng.usize(4);
    for k in 0..ntri {
        let pl = rng.usize(6);
        let z = rng.pick(&depths);
        let p_on = on(pl, dy(rng), dy(rng), z);
        // outward direction of plane pl in view space (for points strictly outside)
        let outward = |p: [f32; 3], f: f32| -> [f32; 3] {
            match pl {
                0 => [p[0], p[1], p[2] - f * near],
                1 => [p[0], p[1], p[2] + f * far],
                2 => [p[0] - f * p[0].abs().max(1.0), p[1], p[2]],
                3 => [p[0] + f * p[0].abs().max(1.0), p[1], p[2]],
                4 => [p[0], p[1] - f * p[1].abs().max(1.0), p[2]],
                _ => [p[0], p[1] + f * p[1].abs().max(1.0), p[2]],
            }
        };
        let inside_pt = [0.0, 0.0, (near + far) / 2.0];
        let t: [[f32; 3]; 3] = match rng.below(6) {
            // one vertex on the plane, the others strictly outside it
            0 => [p_on, outward(on(pl, dy(rng), dy(rng), z), 0.5), outward(on(pl, dy(rng), dy(rng), z), 1.0)],
            // an edge in the plane, the third vertex outside
            1 => [p_on, on(pl, dy(rng), dy(rng), rng.pick(&depths)), outward(on(pl, dy(rng), dy(rng), z), 0.5)],
            // the whole triangle in the plane
            2 => [p_on, on(pl, dy(rng), dy(rng), rng.pick(&depths)), on(pl, dy(rng), dy(rng), rng.pick(&depths))],
            // one vertex on the plane, the others inside
            3 => [p_on, inside_pt, [inside_pt[0] + 0.25, inside_pt[1], inside_pt[2]]],
            // straddling: one in, one on, one out
            4 => [p_on, inside_pt, outward(on(pl, dy(rng), dy(rng), z), 1.0)],
            // a frustum corner (on two side planes at once) touched from outside
            _ => {
                let c = on(3, 0.0, 1.0, z); // x = +w, y = +w
                [c, [c[0] * 2.0, c[1], c[2]], [c[0], c[1] * 2.0, c[2]]]
            }
        };
        let b = 3 * k;
        for p in t {
            verts.push((p, rng.f32_in(0.0, 1.0)));
        }
        tris.push([b, b + 1, b + 2]);
    }
    Case {
        bw,
        bh,
        win,
        vp,
        tk,
        ortho,
        near,
        far,
        focal,
        aspect,
        obox,
        verts,
        tris,
        cull: rng.pick(&[None, None, Some(FaceCull::Back), Some(FaceCull::Front)]),
        sort: rng.pick(&[None, Some(DepthSort::FrontToBack), Some(DepthSort::BackToFront)]),
        test: rng.pick(&[None, None, Some(Ordering::Less), Some(Ordering::Greater)]),
        cw: true,
        dw: true,
        discard: false,
        flip: (false, false),
        generator: "vertices exactly on frustum planes",
    }
}

fn sentinel(which: u32, x: u32, y: u32) -> (u32, f32) {
    if which == 0 {
        (0xDEAD_0000 | ((y & 0xFF) << 8) | (x & 0xFF), -7.0 - (x + 31 * y) as f32)
    } else {
        (0x5A5A_A5A5 ^ (x * 7 + y * 131), 0.25 + (x + 17 * y) as f32 * 0.5)
    }
}

pub fn run_case(rep: &mut Report, c: &Case) {
    let (l, t, r, b) = c.vp;
    let mats = crate::catch(|| {
        let (x0, x1) = if c.flip.0 { (r, l) } else { (l, r) };
        let (y0, y1) = if c.flip.1 { (b, t) } else { (t, b) };
        (c.proj(), viewport(pt2(x0, y0)..pt2(x1, y1)))
    });
    let (proj, to_screen) = match mats {
        Ok(m) => m,
        Err(m) => {
            rep.violation("render.panic", format!("the projection or viewport matrix constructor panicked: {m}"), c.json());
            return;
        }
    };
    let mut drew = false;
    // Passes 0 and 1: the scene's own flags over two sentinel patterns. Pass 2
    // (only if the scene's flags can hide a stray fragment: a depth predicate
    // that rarely passes, masked writes, a discarding shader): the same
    // geometry with every fragment written — another scene of the quantifier,
    // in which a fragment outside the viewport or a NaN depth cannot hide.
    let restrictive = c.test.is_some() || !c.cw || !c.dw || c.discard;
    for which in 0..(if restrictive { 3 } else { 2 }) {
        let permissive = which == 2;
        let ctx = if permissive { Context { depth_test: None, color_write: true, depth_write: true, ..c.ctx() } } else { c.ctx() };
        let ctx = &ctx;
        let which = which % 2;
        if permissive {
            rep.count("passes_with_every_fragment_written");
        }
        let mut cv = Canvas::new(c.bw, c.bh, c.win, |x, y| sentinel(which, x, y).0, |x, y| sentinel(which, x, y).1);
        let discard = c.discard && !permissive;
        let res = render_view::<f32, _>(
            &c.verts,
            &c.tris,
            &proj,
            move |f: Frag<f32>| {
                if discard && ((f.pos.x() as u32 + f.pos.y() as u32) % 3 == 0) {
                    None
                } else {
                    Some(pack(0x00C0_FFEE))
                }
            },
            ctx,
            to_screen,
            &mut cv,
            c.tk,
        );
        if which == 0 && !permissive {
            let st = ctx.stats.borrow();
            if st.frags.i > 0 {
                rep.count("scenes_with_fragments");
            }
            if st.prims.o as usize > c.tris.len() * 2 {
                rep.count("scenes_where_clipping_split_triangles");
            }
        }
        if let Err(m) = res {
            rep.violation("render.panic", format!("render() panicked: {m}"), c.json());
            return;
        }
        let (ox, oy, _, _) = c.win;
        for y in 0..c.bh {
            for x in 0..c.bw {
                let inside = x >= ox + l && x < ox + r && y >= oy + t && y < oy + b;
                let (sc, sz) = sentinel(which, x, y);
                let (gc, gz) = (cv.col[[x, y]], cv.dep[[x, y]]);
                if !inside && (gc != sc || gz.to_bits() != sz.to_bits()) {
                    rep.violation(
                        "render.write_outside_viewport",
                        format!("cell ({x},{y}) outside the viewport rectangle changed: colour {sc:#x}->{gc:#x}, depth {sz}->{gz}"),
                        c.json(),
                    );
                    return;
                }
                if gz.is_nan() {
                    rep.violation("render.nan_depth", format!("depth cell ({x},{y}) is NaN after render()"), c.json());
                    return;
                }
                if inside && (gc != sc || gz.to_bits() != sz.to_bits()) {
                    drew = true;
                }
                if !c.tk.has_depth() && gz.to_bits() != sz.to_bits() {
                    rep.violation("render.write_outside_viewport", format!("colour-only target but depth-like side buffer changed at ({x},{y})"), c.json());
                    return;
                }
            }
        }
    }
    if drew {
        rep.count("scenes_with_visible_writes");
    }
}

fn hash_case(c: &Case) -> u64 {
    let mut h = Hasher::new();
    h.u64(c.bw as u64).u64(c.bh as u64).u64(c.vp.0 as u64).u64(c.vp.1 as u64).u64(c.vp.2 as u64).u64(c.vp.3 as u64);
    h.f32(c.near).f32(c.far).f32(c.focal).u64(c.ortho as u64).u64(c.win.0 as u64).u64(c.win.1 as u64).u64(c.tk as u64).u64(c.flip.0 as u64 * 2 + c.flip.1 as u64);
    h.u64(c.cw as u64 | (c.dw as u64) << 1 | (c.discard as u64) << 2).bytes(format!("{:?}{:?}{:?}{:?}", c.cull, c.sort, c.test, c.tris).as_bytes());
    for (p, _) in &c.verts {
        h.f32s(p);
    }
    h.get()
}

pub fn run(cfg: &Cfg, rep: &mut Report) {
    rep.rule = "case = one scene (1..5 view-space triangles, projection, viewport, target kind, Context flags) rendered twice over different sentinel patterns; generators aim at near/far/side planes ±1ulp, the eye plane, behind-camera, coincident, collinear and sub-pixel triangles, 1x1 buffers and single-row/column viewports, mirrored viewports, triangles naming a vertex twice; a stream of scenes whose vertices lie bit-exactly on frustum planes (touching patterns in multi-triangle calls) and a stream of frames up to 4096 px; scenes whose flags could hide a stray fragment are rendered once more with every fragment written; non-trivial = produced at least one fragment; distinct by hash of geometry+projection+viewport".into();
    rep.assumptions.push("numeric domain as stated in the property: far/near ≤ 1000, |view coordinate| ≤ 1000·near, focal ratio 0.1..10".into());

    // pinned F1 consequence: NaN depths with the depth test off
    {
        let c = Case {
            bw: 12,
            bh: 8,
            win: (0, 0, 12, 8),
            vp: (0, 0, 12, 8),
            tk: Tk::FbOwned,
            ortho: true,
            near: 1.0,
            far: 10.0,
            focal: 1.0,
            aspect: 1.5,
            obox: ([0.0, 0.0, 1.0], [12.0, 8.0, 10.0]),
            verts: vec![([2.0, 1.0, 2.0], 0.0), ([9.0, 4.0, 3.0], 1.0), ([4.0, 5.0, 4.0], 0.5)],
            tris: vec![[0, 1, 2]],
            cull: None,
            sort: None,
            test: None,
            cw: true,
            dw: true,
            discard: false,
            flip: (false, false),
            generator: "pin",
        };
        let mut r2 = Report::new();
        run_case(&mut r2, &c);
        let r = if r2.n_violations() == 0 { Ok(()) } else { Err(r2.violations.values().next().map(|v| v.firsts[0].detail.clone()).unwrap_or_default()) };
        rep.pin("F1.render_nan_depth", r);
    }

    {
        let fb = f32::from_bits;
        // F14: a scanline past the end of a 2e-7 px tall sliver in a one-row viewport
        let c = Case {
            bw: 16, bh: 1, win: (0, 0, 16, 1), vp: (0, 0, 16, 1), tk: Tk::FbOwned, ortho: false, near: 1.0, far: 10.0, focal: 0.5, aspect: 16.0,
            obox: ([0.0; 3], [1.0; 3]),
            verts: vec![([0.0, fb(0x4028e34a), -1.0], 0.0), ([fb(0x3d4c9ff4), fb(0x80000001), 1.0], 1.0), ([fb(0x4026dd98), fb(0xbecd1f68), fb(0x3fa6dd98)], 0.5)],
            tris: vec![[0, 1, 2]], cull: None, sort: None, test: Some(Ordering::Greater), cw: true, dw: false, discard: false, flip: (false, false), generator: "pin",
        };
        let mut r2 = Report::new();
        run_case(&mut r2, &c);
        rep.pin("F14.scanline_past_sliver_end", if r2.n_violations() == 0 { Ok(()) } else { Err(r2.violations.values().next().map(|v| v.firsts[0].detail.clone()).unwrap_or_default()) });
        // F15: zero-width degenerate triangle whose apex sits on a pixel centre
        let p = [fb(0x42445f7b), fb(0xc2b50352), fb(0xc28d6c23)];
        let c = Case {
            bw: 18, bh: 14, win: (0, 0, 18, 14), vp: (11, 7, 16, 10), tk: Tk::FbOwned, ortho: false, near: 10.0, far: 20.0, focal: 10.0, aspect: fb(0x3fd55555),
            obox: ([0.0; 3], [1.0; 3]),
            verts: vec![(p, 0.0), (p, 1.0), ([0.0, 0.0, fb(0x418f5b72)], 0.5)],
            tris: vec![[0, 1, 2]], cull: None, sort: None, test: None, cw: false, dw: true, discard: false, flip: (false, false), generator: "pin",
        };
        let mut r2 = Report::new();
        run_case(&mut r2, &c);
        rep.pin("F15.zero_width_triangle_nan", if r2.n_violations() == 0 { Ok(()) } else { Err(r2.violations.values().next().map(|v| v.firsts[0].detail.clone()).unwrap_or_default()) });
    }

    let n = cfg.n(1_500_000, 200_000_000);
    rep.run_stream(cfg, 0, "scenes", n, |rng, i, rep| {
        let c = gen(rng);
        if cfg.only.is_some() {
            explain(&c);
        }
        let before = rep.classes.get("scenes_with_fragments").copied().unwrap_or(0);
        run_case(rep, &c);
        let nontrivial = rep.classes.get("scenes_with_fragments").copied().unwrap_or(0) > before;
        rep.case(hash_case(&c), nontrivial);
        rep.count(&format!("target.{}", c.tk.name()));
        rep.count(if c.ortho { "projection.orthographic" } else { "projection.perspective" });
        if c.bw == 1 || c.bh == 1 {
            rep.count("buffer.one_pixel_wide_or_high");
        }
        if c.vp.2 - c.vp.0 == 1 || c.vp.3 - c.vp.1 == 1 {
            rep.count("viewport.single_row_or_column");
        }
        rep.count(&format!("ctx.test_{:?}", c.test));
        if c.flip != (false, false) {
            rep.count("viewport.mirrored");
        }
        if i < 2 {
            rep.sample(|| c.json());
        }
    });
    // Stream 1: vertices bit-exactly on frustum planes, touching patterns
    let n1 = cfg.n(300_000, 30_000_000);
    rep.run_stream(cfg, 1, "on_plane_patterns", n1, |rng, i, rep| {
        let c = gen_on_planes(rng);
        if cfg.only.is_some() {
            explain(&c);
        }
        run_case(rep, &c);
        rep.case(hash_case(&c), true);
        rep.count("on_plane.scenes");
        if i < 1 {
            rep.sample(|| c.json());
        }
    });
    // Stream 2: realistic and elongated frames up to 4096 px: edge drift and
    // clip overshoot grow with the extent (known finding F9's mechanism), and
    // here they would turn into a write outside the viewport or a panic
    let n2 = cfg.n(3_000, 200_000);
    rep.run_stream(cfg, 2, "large_targets", n2, |rng, i, rep| {
        let long = rng.pick(&[1024u32, 1536, 2048, 3000, 4096]);
        let short = rng.pick(&[1u32, 2, 3, 5, 8, 33]);
        let dims = match rng.below(4) {
            0 => (long, short),
            1 => (short, long),
            2 => (640, 480),
            _ => (long / 4, long / 4 + 1),
        };
        let c = gen_dims(rng, 24, false, Some(dims));
        if cfg.only.is_some() {
            explain(&c);
        }
        run_case(rep, &c);
        rep.case(hash_case(&c), true);
        rep.count("large_targets.scenes");
        if i < 1 {
            rep.sample(|| c.json());
        }
    });
    let _ = next_down(1.0);
    rep.floor("on_plane.scenes", n1 / 2);
    rep.floor("large_targets.scenes", n2 / 2);
    rep.floor("passes_with_every_fragment_written", n / 4);
    rep.floor("viewport.mirrored", n / 20);
    rep.floor("projection.orthographic", n / 8);
    for tk in [Tk::FbOwned, Tk::FbWindow, Tk::ColOwned, Tk::ColWindow] {
        rep.floor(&format!("target.{}", tk.name()), n / 10);
    }
    // (both classes are read from ctx.stats, which this property does not
    // speak about: a generous floor for the first, none for the second)
    rep.floor("scenes_with_fragments", n / 10);
    rep.floor("scenes_with_visible_writes", n / 4);
    rep.floor("viewport.single_row_or_column", n / 50);
    rep.floor("buffer.one_pixel_wide_or_high", n / 100);
}

/// Replay aid: renders each triangle of a case alone and prints the
/// geometry of those that violate on their own.
pub fn explain(c: &Case) {
    let proj = c.proj();
    let (l, t, r, b) = c.vp;
    for (k, tri) in c.tris.iter().enumerate() {
        let mut one = c.clone();
        one.tris = vec![*tri];
        let mut r2 = Report::new();
        run_case(&mut r2, &one);
        if r2.n_violations() > 0 {
            println!("  triangle {k} {tri:?} violates alone: {}", r2.violations.values().next().unwrap().firsts[0].detail);
            for &vi in tri {
                let p = c.verts[vi].0;
                let cl = proj.apply(&re::math::point::pt3::<f32, re::render::View>(p[0], p[1], p[2])).0;
                let (hw, hh) = ((r - l) as f64 / 2.0, (b - t) as f64 / 2.0);
                let sx = l as f64 + hw * (1.0 + cl[0] as f64 / cl[3] as f64);
                let sy = t as f64 + hh * (1.0 + cl[1] as f64 / cl[3] as f64);
                println!("    view {} clip {} screen ({sx:.6}, {sy:.6}) 1/w {}", f32v(&p), f32v(&cl), 1.0 / cl[3]);
            }
            // the real clipper's output for this triangle, on screen
            use re::render::clip::{view_frustum, ClipVert};
            let cv = re::geom::Tri(std::array::from_fn::<_, 3, _>(|i| {
                let p = c.verts[tri[i]].0;
                ClipVert::new(re::geom::vertex(proj.apply(&re::math::point::pt3::<f32, re::render::View>(p[0], p[1], p[2])), 0.0f32))
            }));
            let mut out = vec![];
            view_frustum::clip(&[cv][..], &mut out);
            for (j, re::geom::Tri(vs)) in out.iter().enumerate() {
                let s: Vec<String> = vs
                    .iter()
                    .map(|v| {
                        let cl = v.pos.0;
                        let (hw, hh) = ((r - l) as f32 / 2.0, (b - t) as f32 / 2.0);
                        format!("clip {:?} -> screen ({}, {})", cl, l as f32 + hw + hw * (cl[0] / cl[3]), t as f32 + hh + hh * (cl[1] / cl[3]))
                    })
                    .collect();
                println!("    clipped tri {j}: {}", s.join(" | "));
            }
        }
    }
}
