//! C02 — rendering never panics, never writes outside the viewport, never
//! leaves NaN in the depth buffer.
//!
//! Event: render() through the library's own perspective/orthographic and
//! viewport matrices. Oracle: (1) no panic (caught), (2) every colour and
//! depth cell outside the viewport rectangle is bit-identical to its
//! sentinel afterwards — checked with two different sentinel patterns so a
//! write of the sentinel value itself cannot hide — (3) no NaN depth.

use super::scene::{pack, render_view, Canvas, Tk};
use crate::{f32s, f32v, next_down, next_up, Cfg, Hasher, Json, Report, Rng};
use re::math::mat::{orthographic, perspective, viewport, Mat4x4};
use re::math::point::{pt2, pt3};
use re::render::ctx::{Context, DepthSort, FaceCull};
use re::render::raster::Frag;
use re::render::ViewToProj;
use std::cmp::Ordering;

#[derive(Clone, Debug)]
pub struct Case {
    pub bw: u32,
    pub bh: u32,
    pub win: (u32, u32, u32, u32),
    pub vp: (u32, u32, u32, u32), // l,t,r,b relative to the window
    pub tk: Tk,
    pub ortho: bool,
    pub near: f32,
    pub far: f32,
    pub focal: f32,
    pub aspect: f32,
    pub obox: ([f32; 3], [f32; 3]),
    pub verts: Vec<([f32; 3], f32)>,
    pub tris: Vec<[usize; 3]>,
    pub cull: Option<FaceCull>,
    pub sort: Option<DepthSort>,
    pub test: Option<Ordering>,
    pub cw: bool,
    pub dw: bool,
    pub discard: bool,
}

impl Case {
    pub fn json(&self) -> Json {
        Json::obj()
            .set("buffer", format!("{}x{}", self.bw, self.bh))
            .set("target", self.tk.name())
            .set("window", format!("{:?}", self.win))
            .set("viewport_ltrb", format!("{:?}", self.vp))
            .set("projection", if self.ortho { format!("orthographic {:?}..{:?}", self.obox.0, self.obox.1) } else { format!("perspective focal={} aspect={} near={} far={}", f32s(self.focal), f32s(self.aspect), f32s(self.near), f32s(self.far)) })
            .set("verts_view_xyz", Json::Arr(self.verts.iter().map(|(p, _)| Json::Str(f32v(p))).collect()))
            .set("tris", format!("{:?}", self.tris))
            .set("ctx", format!("cull={:?} sort={:?} test={:?} color_write={} depth_write={} discarding_shader={}", self.cull, self.sort, self.test, self.cw, self.dw, self.discard))
    }
    pub fn proj(&self) -> Mat4x4<ViewToProj> {
        if self.ortho {
            orthographic(pt3(self.obox.0[0], self.obox.0[1], self.obox.0[2]), pt3(self.obox.1[0], self.obox.1[1], self.obox.1[2]))
        } else {
            perspective(self.focal, self.aspect, self.near..self.far)
        }
    }
    pub fn ctx(&self) -> Context {
        Context { face_cull: self.cull, depth_sort: self.sort, depth_test: self.test, color_write: self.cw, depth_write: self.dw, ..Context::default() }
    }
}

/// A coordinate aimed at the mechanisms the property names.
fn pick(rng: &mut Rng, near: f32, far: f32, lim: f32) -> f32 {
    let u = rng.f32_in(-1.0, 1.0);
    match rng.below(20) {
        0 => 0.0,
        1 => near,
        2 => far,
        3 => -near,
        4 => lim,
        5 => -lim,
        6 => (near + far) * 0.5,
        7 => rng.ulp_nudge(near),
        8 => rng.ulp_nudge(far),
        9 | 10 => u * lim,
        11 | 12 => u * far,
        13 => next_up(0.0) * rng.sign(),
        _ => u * near * 10.0,
    }
}

pub fn gen(rng: &mut Rng) -> Case {
    gen_sized(rng, 24, true)
}

/// Reduced workload for Miri: scenes in buffers ≤ 8x8.
pub fn mini(rng: &mut Rng, n: usize, rep: &mut Report) {
    for _ in 0..n {
        let c = gen_sized(rng, 8, false);
        run_case(rep, &c);
    }
}

pub fn gen_sized(rng: &mut Rng, small_max: u64, allow_big: bool) -> Case {
    let big = allow_big && rng.chance(1, 4);
    let bw = if big { 25 + rng.below(104) as u32 } else { 1 + rng.below(small_max) as u32 };
    let bh = if big { 25 + rng.below(72) as u32 } else { 1 + rng.below(small_max) as u32 };
    let tk = rng.pick(&[Tk::FbOwned, Tk::FbOwned, Tk::FbWindow, Tk::ColOwned, Tk::ColWindow]);
    let win = if tk.is_window() {
        let ox = rng.below(bw as u64) as u32;
        let oy = rng.below(bh as u64) as u32;
        (ox, oy, 1 + rng.below((bw - ox) as u64) as u32, 1 + rng.below((bh - oy) as u64) as u32)
    } else {
        (0, 0, bw, bh)
    };
    let (ww, wh) = (win.2, win.3);
    // viewport shapes: full, single row, single column, touching each border, random
    let vp = match rng.below(8) {
        0 | 1 => (0, 0, ww, wh),
        2 => {
            let t = rng.below(wh as u64) as u32;
            (0, t, ww, t + 1)
        }
        3 => {
            let l = rng.below(ww as u64) as u32;
            (l, 0, l + 1, wh)
        }
        _ => {
            let l = rng.below(ww as u64) as u32;
            let t = rng.below(wh as u64) as u32;
            (l, t, l + 1 + rng.below((ww - l) as u64) as u32, t + 1 + rng.below((wh - t) as u64) as u32)
        }
    };
    let near = rng.pick(&[0.01f32, 0.1, 1.0, 10.0]);
    let far = near * rng.pick(&[1.5f32, 2.0, 10.0, 100.0, 1000.0]);
    let focal = rng.pick(&[0.1f32, 0.5, 1.0, 2.0, 10.0]);
    let aspect = (vp.2 - vp.0) as f32 / (vp.3 - vp.1) as f32;
    let ortho = rng.chance(1, 4);
    let lim = 1000.0 * near;
    let s = near * rng.pick(&[1.0f32, 10.0, 100.0]);
    let obox = ([-s * rng.f32_in(0.5, 1.0), -s * rng.f32_in(0.3, 1.0), near], [s * rng.f32_in(0.5, 1.0), s * rng.f32_in(0.3, 1.0), far]);
    let ntri = 1 + rng.below(5) as usize;
    let mut verts = vec![];
    let mut tris = vec![];
    let visible_bias = rng.chance(4, 5);
    for k in 0..ntri {
        let kind = rng.below(13);
        for _ in 0..3 {
            let p = if visible_bias && kind < 7 {
                // inside (or near) the view volume
                let z = rng.f32_in(near, far.min(near * 50.0));
                if ortho {
                    [rng.f32_in(obox.0[0], obox.1[0]) * 1.3, rng.f32_in(obox.0[1], obox.1[1]) * 1.3, rng.f32_in(near, far)]
                } else {
                    [rng.f32_in(-1.4, 1.4) * z / focal, rng.f32_in(-1.4, 1.4) * z / (focal * aspect), z]
                }
            } else {
                [pick(rng, near, far, lim), pick(rng, near, far, lim), pick(rng, near, far, lim)]
            };
            verts.push((p, rng.f32_in(0.0, 1.0)));
        }
        let b = 3 * k;
        match kind {
            7 => verts[b + 1].0 = verts[b].0, // coincident vertices
            8 => {
                // zero area: collinear
                let s = rng.f32_in(-1.0, 2.0);
                for c in 0..3 {
                    verts[b + 2].0[c] = verts[b].0[c] + s * (verts[b + 1].0[c] - verts[b].0[c]);
                }
            }
            10 => {
                // two coincident vertices and an apex that projects exactly
                // onto the viewport centre (a pixel centre for odd sizes):
                // a zero-width triangle that may still emit a fragment
                verts[b + 1].0 = verts[b].0;
                verts[b + 2].0 = [0.0, 0.0, rng.f32_in(near, far)];
            }
            11 | 12 => {
                // slivers hugging a pixel-centre row/column from just below:
                // y (or x) a few ulps or a subnormal off the optical axis,
                // which a one-row viewport maps to 0.49999997
                let eps = rng.pick(&[-1e-45f32, -1e-30, -1e-10, -6e-8, -1.2e-7, 1e-45, 6e-8]);
                let axis = rng.usize(2);
                let j = b + rng.usize(3);
                verts[j].0[axis] = eps * verts[j].0[2].abs().max(near);
                let j2 = b + rng.usize(3);
                let nn = rng.ulp_nudge(near);
                verts[j2].0[2] = rng.pick(&[near, nn, far]);
                if kind == 12 {
                    verts[b + rng.usize(3)].0[2] = -rng.f32_in(0.5, 2.0) * near; // behind the eye
                }
            }
            9 => {
                // sub-pixel
                for j in 1..3 {
                    for c in 0..3 {
                        verts[b + j].0[c] = verts[b].0[c] * (1.0 + rng.f32_in(-1e-3, 1e-3));
                    }
                }
            }
            _ => {}
        }
        // exactly on the side planes of a perspective frustum: x = ± z/focal
        if !ortho && rng.chance(1, 8) {
            let j = b + rng.usize(3);
            let z = verts[j].0[2];
            verts[j].0[0] = rng.sign() * z / focal;
        }
        tris.push([b, b + 1, b + 2]);
    }
    // shared vertices between triangles now and then
    if ntri > 1 && rng.chance(1, 3) {
        tris[1][0] = tris[0][0];
        tris[1][1] = tris[0][2];
    }
    Case {
        bw,
        bh,
        win,
        vp,
        tk,
        ortho,
        near,
        far,
        focal,
        aspect,
        obox,
        verts,
        tris,
        cull: rng.pick(&[None, Some(FaceCull::Back), Some(FaceCull::Front)]),
        sort: rng.pick(&[None, Some(DepthSort::FrontToBack), Some(DepthSort::BackToFront)]),
        test: rng.pick(&[None, Some(Ordering::Less), Some(Ordering::Less), Some(Ordering::Equal), Some(Ordering::Greater)]),
        cw: !rng.chance(1, 5),
        dw: !rng.chance(1, 5),
        discard: rng.chance(1, 5),
    }
}

fn sentinel(which: u32, x: u32, y: u32) -> (u32, f32) {
    if which == 0 {
        (0xDEAD_0000 | ((y & 0xFF) << 8) | (x & 0xFF), -7.0 - (x + 31 * y) as f32)
    } else {
        (0x5A5A_A5A5 ^ (x * 7 + y * 131), 0.25 + (x + 17 * y) as f32 * 0.5)
    }
}

pub fn run_case(rep: &mut Report, c: &Case) {
    let ctx = c.ctx();
    let proj = c.proj();
    let (l, t, r, b) = c.vp;
    let to_screen = viewport(pt2(l, t)..pt2(r, b));
    let mut drew = false;
    for which in 0..2 {
        let mut cv = Canvas::new(c.bw, c.bh, c.win, |x, y| sentinel(which, x, y).0, |x, y| sentinel(which, x, y).1);
        let discard = c.discard;
        let res = render_view::<f32, _>(
            &c.verts,
            &c.tris,
            &proj,
            move |f: Frag<f32>| {
                if discard && ((f.pos.x() as u32 + f.pos.y() as u32) % 3 == 0) {
                    None
                } else {
                    Some(pack(0x00C0_FFEE))
                }
            },
            &ctx,
            to_screen,
            &mut cv,
            c.tk,
        );
        if let Err(m) = res {
            rep.violation("render.panic", format!("render() panicked: {m}"), c.json());
            return;
        }
        let (ox, oy, _, _) = c.win;
        for y in 0..c.bh {
            for x in 0..c.bw {
                let inside = x >= ox + l && x < ox + r && y >= oy + t && y < oy + b;
                let (sc, sz) = sentinel(which, x, y);
                let (gc, gz) = (cv.col[[x, y]], cv.dep[[x, y]]);
                if !inside && (gc != sc || gz.to_bits() != sz.to_bits()) {
                    rep.violation(
                        "render.write_outside_viewport",
                        format!("cell ({x},{y}) outside the viewport rectangle changed: colour {sc:#x}->{gc:#x}, depth {sz}->{gz}"),
                        c.json(),
                    );
                    return;
                }
                if gz.is_nan() {
                    rep.violation("render.nan_depth", format!("depth cell ({x},{y}) is NaN after render()"), c.json());
                    return;
                }
                if inside && (gc != sc || gz.to_bits() != sz.to_bits()) {
                    drew = true;
                }
                if !c.tk.has_depth() && gz.to_bits() != sz.to_bits() {
                    rep.violation("render.write_outside_viewport", format!("colour-only target but depth-like side buffer changed at ({x},{y})"), c.json());
                    return;
                }
            }
        }
    }
    let st = ctx.stats.borrow();
    if st.frags.i > 0 {
        rep.count("scenes_with_fragments");
    }
    if drew {
        rep.count("scenes_with_visible_writes");
    }
    if st.prims.o as usize > c.tris.len() * 2 {
        rep.count("scenes_where_clipping_split_triangles");
    }
}

fn hash_case(c: &Case) -> u64 {
    let mut h = Hasher::new();
    h.u64(c.bw as u64).u64(c.bh as u64).u64(c.vp.0 as u64).u64(c.vp.1 as u64).u64(c.vp.2 as u64).u64(c.vp.3 as u64);
    h.f32(c.near).f32(c.far).f32(c.focal).u64(c.ortho as u64);
    for (p, _) in &c.verts {
        h.f32s(p);
    }
    h.get()
}

pub fn run(cfg: &Cfg, rep: &mut Report) {
    rep.rule = "case = one scene (1..5 view-space triangles, projection, viewport, target kind, Context flags) rendered twice over different sentinel patterns; generators aim at near/far/side planes ±1ulp, the eye plane, behind-camera, coincident, collinear and sub-pixel triangles, 1x1 buffers and single-row/column viewports; non-trivial = produced at least one fragment; distinct by hash of geometry+projection+viewport".into();
    rep.assumptions.push("numeric domain as stated in the property: far/near ≤ 1000, |view coordinate| ≤ 1000·near, focal ratio 0.1..10".into());

    // pinned F1 consequence: NaN depths with the depth test off
    {
        let c = Case {
            bw: 12,
            bh: 8,
            win: (0, 0, 12, 8),
            vp: (0, 0, 12, 8),
            tk: Tk::FbOwned,
            ortho: true,
            near: 1.0,
            far: 10.0,
            focal: 1.0,
            aspect: 1.5,
            obox: ([0.0, 0.0, 1.0], [12.0, 8.0, 10.0]),
            verts: vec![([2.0, 1.0, 2.0], 0.0), ([9.0, 4.0, 3.0], 1.0), ([4.0, 5.0, 4.0], 0.5)],
            tris: vec![[0, 1, 2]],
            cull: None,
            sort: None,
            test: None,
            cw: true,
            dw: true,
            discard: false,
        };
        let mut r2 = Report::new();
        run_case(&mut r2, &c);
        let r = if r2.n_violations() == 0 { Ok(()) } else { Err(r2.violations.values().next().map(|v| v.firsts[0].detail.clone()).unwrap_or_default()) };
        rep.pin("F1.render_nan_depth", r);
    }

    {
        let fb = f32::from_bits;
        // F14: a scanline past the end of a 2e-7 px tall sliver in a one-row viewport
        let c = Case {
            bw: 16, bh: 1, win: (0, 0, 16, 1), vp: (0, 0, 16, 1), tk: Tk::FbOwned, ortho: false, near: 1.0, far: 10.0, focal: 0.5, aspect: 16.0,
            obox: ([0.0; 3], [1.0; 3]),
            verts: vec![([0.0, fb(0x4028e34a), -1.0], 0.0), ([fb(0x3d4c9ff4), fb(0x80000001), 1.0], 1.0), ([fb(0x4026dd98), fb(0xbecd1f68), fb(0x3fa6dd98)], 0.5)],
            tris: vec![[0, 1, 2]], cull: None, sort: None, test: Some(Ordering::Greater), cw: true, dw: false, discard: false,
        };
        let mut r2 = Report::new();
        run_case(&mut r2, &c);
        rep.pin("F14.scanline_past_sliver_end", if r2.n_violations() == 0 { Ok(()) } else { Err(r2.violations.values().next().map(|v| v.firsts[0].detail.clone()).unwrap_or_default()) });
        // F15: zero-width degenerate triangle whose apex sits on a pixel centre
        let p = [fb(0x42445f7b), fb(0xc2b50352), fb(0xc28d6c23)];
        let c = Case {
            bw: 18, bh: 14, win: (0, 0, 18, 14), vp: (11, 7, 16, 10), tk: Tk::FbOwned, ortho: false, near: 10.0, far: 20.0, focal: 10.0, aspect: fb(0x3fd55555),
            obox: ([0.0; 3], [1.0; 3]),
            verts: vec![(p, 0.0), (p, 1.0), ([0.0, 0.0, fb(0x418f5b72)], 0.5)],
            tris: vec![[0, 1, 2]], cull: None, sort: None, test: None, cw: false, dw: true, discard: false,
        };
        let mut r2 = Report::new();
        run_case(&mut r2, &c);
        rep.pin("F15.zero_width_triangle_nan", if r2.n_violations() == 0 { Ok(()) } else { Err(r2.violations.values().next().map(|v| v.firsts[0].detail.clone()).unwrap_or_default()) });
    }

    let n = cfg.n(1_500_000, 200_000_000);
    rep.run_stream(cfg, 0, "scenes", n, |rng, i, rep| {
        let c = gen(rng);
        if cfg.only.is_some() {
            explain(&c);
        }
        let before = rep.classes.get("scenes_with_fragments").copied().unwrap_or(0);
        run_case(rep, &c);
        let nontrivial = rep.classes.get("scenes_with_fragments").copied().unwrap_or(0) > before;
        rep.case(hash_case(&c), nontrivial);
        rep.count(&format!("target.{}", c.tk.name()));
        rep.count(if c.ortho { "projection.orthographic" } else { "projection.perspective" });
        if c.bw == 1 || c.bh == 1 {
            rep.count("buffer.one_pixel_wide_or_high");
        }
        if c.vp.2 - c.vp.0 == 1 || c.vp.3 - c.vp.1 == 1 {
            rep.count("viewport.single_row_or_column");
        }
        rep.count(&format!("ctx.test_{:?}", c.test));
        if i < 2 {
            rep.sample(|| c.json());
        }
    });
    let _ = next_down(1.0);
    rep.floor("scenes_with_fragments", n * 2 / 5);
    rep.floor("scenes_with_visible_writes", n / 4);
    rep.floor("scenes_where_clipping_split_triangles", n / 100);
    rep.floor("viewport.single_row_or_column", n / 50);
    rep.floor("buffer.one_pixel_wide_or_high", n / 100);
}

/// Replay aid: renders each triangle of a case alone and prints the
/// geometry of those that violate on their own.
pub fn explain(c: &Case) {
    let proj = c.proj();
    let (l, t, r, b) = c.vp;
    for (k, tri) in c.tris.iter().enumerate() {
        let mut one = c.clone();
        one.tris = vec![*tri];
        let mut r2 = Report::new();
        run_case(&mut r2, &one);
        if r2.n_violations() > 0 {
            println!("  triangle {k} {tri:?} violates alone: {}", r2.violations.values().next().unwrap().firsts[0].detail);
            for &vi in tri {
                let p = c.verts[vi].0;
                let cl = proj.apply(&re::math::point::pt3::<f32, re::render::View>(p[0], p[1], p[2])).0;
                let (hw, hh) = ((r - l) as f64 / 2.0, (b - t) as f64 / 2.0);
                let sx = l as f64 + hw * (1.0 + cl[0] as f64 / cl[3] as f64);
                let sy = t as f64 + hh * (1.0 + cl[1] as f64 / cl[3] as f64);
                println!("    view {} clip {} screen ({sx:.6}, {sy:.6}) 1/w {}", f32v(&p), f32v(&cl), 1.0 / cl[3]);
            }
            // the real clipper's output for this triangle, on screen
            use re::render::clip::{view_frustum, ClipVert};
            let cv = re::geom::Tri(std::array::from_fn::<_, 3, _>(|i| {
                let p = c.verts[tri[i]].0;
                ClipVert::new(re::geom::vertex(proj.apply(&re::math::point::pt3::<f32, re::render::View>(p[0], p[1], p[2])), 0.0f32))
            }));
            let mut out = vec![];
            view_frustum::clip(&[cv][..], &mut out);
            for (j, re::geom::Tri(vs)) in out.iter().enumerate() {
                let s: Vec<String> = vs
                    .iter()
                    .map(|v| {
                        let cl = v.pos.0;
                        let (hw, hh) = ((r - l) as f32 / 2.0, (b - t) as f32 / 2.0);
                        format!("clip {:?} -> screen ({}, {})", cl, l as f32 + hw + hw * (cl[0] / cl[3]), t as f32 + hh + hh * (cl[1] / cl[3]))
                    })
                    .collect();
                println!("    clipped tri {j}: {}", s.join(" | "));
            }
        }
    }
}
