//! C06 — hidden-surface removal is independent of submission order.
//!
//! Event: final colour/depth buffers after a *history* of render() calls.
//! Oracle (metamorphic, bit-exact): every permutation, every ordered
//! partition into separate calls and every depth_sort setting must give
//! bit-identical buffers; absolute anchor: per pixel the winner is the solo
//! layer with the largest reciprocal depth (exact ties excluded).
//! Second clause: depth test off + back-to-front sort on scenes with
//! disjoint depth ranges equals the depth-buffered image.

use super::layers::{gen_flat, shade_cutout, shade_plain, solo_layers_with, Flat, COL_SENT, Z_MARK};
use super::scene::{render_clip, render_view, Canvas, ClipScene, Tk};
use crate::{f32v, Cfg, Hasher, Json, Report, Rng};
use re::math::mat::{perspective, viewport};
use re::math::point::pt2;
use re::render::ctx::{Context, DepthSort};
use std::cmp::Ordering;

fn fl_json(fl: &Flat) -> Json {
    Json::obj()
        .set("buffer", format!("{}x{}", fl.w, fl.h))
        .set("tris", format!("{:?}", fl.sc.tris))
        .set("clip_verts", Json::Arr(fl.sc.verts.iter().map(|(p, a)| Json::Str(format!("{} attr {:?}", f32v(p), a))).collect()))
}

/// Renders a history: a list of render() calls, each a list of triangle
/// indices, with one depth-sort setting.
fn render_history(fl: &Flat, calls: &[Vec<usize>], sort: Option<DepthSort>, test: Option<Ordering>, cutout: bool) -> Result<(Vec<u32>, Vec<u32>), String> {
    let to_screen = viewport(pt2(0, 0)..pt2(fl.w, fl.h));
    let ctx = Context { face_cull: None, depth_sort: sort, depth_test: test, ..Context::default() };
    let mut cv = Canvas::new(fl.w, fl.h, (0, 0, fl.w, fl.h), |_, _| COL_SENT, |_, _| 0.0);
    for call in calls {
        let tris: Vec<[usize; 3]> = call.iter().map(|&k| fl.sc.tris[k]).collect();
        if cutout {
            render_clip(&fl.sc, &tris, shade_cutout, &ctx, to_screen, &mut cv, Tk::FbOwned)?;
        } else {
            render_clip(&fl.sc, &tris, shade_plain, &ctx, to_screen, &mut cv, Tk::FbOwned)?;
        }
    }
    Ok((cv.col.data().to_vec(), cv.dep.data().iter().map(|z| z.to_bits()).collect()))
}

fn permutations(n: usize) -> Vec<Vec<usize>> {
    fn rec(cur: &mut Vec<usize>, used: &mut Vec<bool>, n: usize, out: &mut Vec<Vec<usize>>) {
        if cur.len() == n {
            out.push(cur.clone());
            return;
        }
        for i in 0..n {
            if !used[i] {
                used[i] = true;
                cur.push(i);
                rec(cur, used, n, out);
                cur.pop();
                used[i] = false;
            }
        }
    }
    let mut out = vec![];
    rec(&mut vec![], &mut vec![false; n], n, &mut out);
    out
}

fn order_case(rng: &mut Rng, rep: &mut Report, idx: u64) {
    let n = 2 + rng.usize(if idx % 4 == 0 { 9 } else { 4 }); // 2..10, mostly 2..5
    let fl = gen_flat(rng, n, 48, true);
    let mut h = Hasher::new();
    h.u64(fl.w as u64).u64(fl.h as u64);
    for (p, _) in &fl.sc.verts {
        h.f32s(p);
    }
    // every fourth scene uses a cut-out (discarding) material: "the nearest
    // fragment covering a pixel" is then the nearest *non-discarded* one
    let cutout = idx % 4 == 1;
    if cutout {
        rep.count("scenes_with_discarding_shader");
    }
    let layers = match solo_layers_with(&fl, true, cutout) {
        Ok(l) => l,
        Err(m) => {
            rep.violation("render.panic", format!("render() panicked: {m}"), fl_json(&fl));
            return;
        }
    };
    // expected per pixel: the layer with the largest reciprocal depth
    let npx = (fl.w * fl.h) as usize;
    let mut exp_col = vec![COL_SENT; npx];
    let mut exp_z = vec![0.0f32.to_bits(); npx];
    let mut tie = vec![false; npx];
    let mut overlap_px = 0u64;
    let mut own_multi = 0u64;
    for p in 0..npx {
        let mut best: Option<(f32, usize)> = None;
        let mut cnt = 0;
        for (k, l) in layers.iter().enumerate() {
            let z = l.z[p];
            if z.to_bits() == Z_MARK.to_bits() {
                continue;
            }
            cnt += 1;
            if l.multi[p] {
                // drawn twice by this triangle's own clip fan (internal
                // edge, inside the band C04 exempts): which of its own
                // fragments is "the" fragment is not defined
                tie[p] = true;
                own_multi += 1;
            }
            if z.is_nan() {
                tie[p] = true; // no order is defined; the NaN itself is reported below
                continue;
            }
            match best {
                None => best = Some((z, k)),
                Some((bz, _)) => {
                    if z == bz {
                        tie[p] = true;
                    } else if z > bz {
                        best = Some((z, k));
                    }
                }
            }
        }
        if cnt > 1 {
            overlap_px += 1;
        }
        if let Some((z, k)) = best {
            if z > 0.0 {
                exp_col[p] = layers[k].col[p];
                exp_z[p] = z.to_bits();
            } else if z == 0.0 {
                tie[p] = true;
            }
        }
    }
    rep.case(h.get(), overlap_px > 0);
    rep.add("pixels_with_overlapping_layers", overlap_px);
    rep.add("pixels_excluded_drawn_twice_by_own_clip_fan", own_multi);
    rep.add("pixels_excluded_exact_depth_tie", tie.iter().filter(|t| **t).count() as u64);
    if layers.iter().any(|l| l.z.iter().any(|z| z.is_nan())) {
        rep.violation("order.nan_depth_in_layer", "a solo render wrote NaN reciprocal depth, so no submission order is well defined".into(), fl_json(&fl));
        return;
    }

    // histories
    let mut hist: Vec<(Vec<Vec<usize>>, Option<DepthSort>, String)> = vec![];
    let perms: Vec<Vec<usize>> = if n <= 4 {
        permutations(n)
    } else {
        (0..24)
            .map(|_| {
                let mut p: Vec<usize> = (0..n).collect();
                rng.shuffle(&mut p);
                p
            })
            .collect()
    };
    for p in &perms {
        let sort = rng.pick(&[None, Some(DepthSort::FrontToBack), Some(DepthSort::BackToFront)]);
        hist.push((vec![p.clone()], sort, format!("one call, order {p:?}, sort {sort:?}")));
    }
    // every depth-sort setting on the identity order
    for sort in [None, Some(DepthSort::FrontToBack), Some(DepthSort::BackToFront)] {
        hist.push((vec![(0..n).collect()], sort, format!("one call, submission order, sort {sort:?}")));
    }
    // ordered partitions into separate calls
    for _ in 0..8 {
        let mut p: Vec<usize> = (0..n).collect();
        rng.shuffle(&mut p);
        let mut calls: Vec<Vec<usize>> = vec![vec![]];
        for k in p {
            if !calls.last().unwrap().is_empty() && rng.chance(1, 2) {
                calls.push(vec![]);
            }
            calls.last_mut().unwrap().push(k);
        }
        let sort = rng.pick(&[None, Some(DepthSort::FrontToBack), Some(DepthSort::BackToFront)]);
        hist.push((calls.clone(), sort, format!("{} calls {calls:?}, sort {sort:?}", calls.len())));
    }
    // one call per triangle, reversed
    hist.push(((0..n).rev().map(|k| vec![k]).collect(), None, "one call per triangle, reversed".into()));

    for (calls, sort, desc) in &hist {
        rep.count("histories_rendered");
        let (col, z) = match render_history(&fl, calls, *sort, Some(Ordering::Less), cutout) {
            Ok(r) => r,
            Err(m) => {
                rep.violation("render.panic", format!("render() panicked in history [{desc}]: {m}"), fl_json(&fl));
                return;
            }
        };
        for p in 0..npx {
            if tie[p] {
                continue;
            }
            if col[p] != exp_col[p] || z[p] != exp_z[p] {
                let (x, y) = (p as u32 % fl.w, p as u32 / fl.w);
                rep.violation(
                    "order.final_image_depends_on_history",
                    format!(
                        "history [{desc}]: pixel ({x},{y}) ends with colour {:#x} depth {} but the nearest covering fragment has colour {:#x} depth {}",
                        col[p],
                        f32::from_bits(z[p]),
                        exp_col[p],
                        f32::from_bits(exp_z[p])
                    ),
                    fl_json(&fl).set("history", desc.clone()).set("cutout_shader", cutout),
                );
                return;
            }
        }
    }
    if idx < 2 {
        rep.sample(|| fl_json(&fl).set("histories", hist.len()));
    }
}

/// Second clause: disjoint depth ranges, depth test off, back-to-front sort.
fn painter_case(rng: &mut Rng, rep: &mut Report) {
    let n = 2 + rng.usize(5);
    let (w, h) = (8 + rng.below(40) as u32, 8 + rng.below(40) as u32);
    let near = rng.pick(&[0.1f32, 1.0, 5.0]);
    let far = near * rng.pick(&[10.0f32, 100.0, 1000.0]);
    let focal = rng.pick(&[0.7f32, 1.0, 1.5]);
    let proj = perspective(focal, w as f32 / h as f32, near..far);
    // disjoint depth slabs in geometric progression starting right behind
    // the near plane (clip z is negative below ≈ 2·near, positive beyond),
    // shuffled so that submission order is unrelated to depth
    let mut slabs: Vec<usize> = (0..n).collect();
    rng.shuffle(&mut slabs);
    let g = rng.pick(&[1.25f32, 1.6, 2.5]);
    let mut verts = vec![];
    let mut tris = vec![];
    for (k, &s) in slabs.iter().enumerate() {
        let z0 = near * 1.02 * g.powi(s as i32);
        let z1 = z0 * (1.0 + 0.6 * (g - 1.0));
        if z1 >= far {
            continue;
        }
        let kk = tris.len();
        let _ = k;
        for _ in 0..3 {
            let z = rng.f32_in(z0, z1);
            // partly outside the side planes now and then (gets clipped)
            let r = if rng.chance(1, 4) { 1.5 } else { 0.95 };
            verts.push(([rng.f32_in(-r, r) * z / focal, rng.f32_in(-r, r) * z / (focal * w as f32 / h as f32), z], rng.f32_in(0.0, 1.0)));
        }
        tris.push([3 * kk, 3 * kk + 1, 3 * kk + 2]);
    }
    if tris.len() < 2 {
        return;
    }
    if verts.iter().any(|(p, _)| p[2] < 1.9 * near) {
        rep.count("painter.scenes_with_triangles_within_2x_near");
    }
    let mut hs = Hasher::new();
    for (p, _) in &verts {
        hs.f32s(p);
    }
    rep.case(hs.get(), true);
    rep.count("painter.scenes");
    let to_screen = viewport(pt2(0, 0)..pt2(w, h));
    let cj = || Json::obj().set("buffer", format!("{w}x{h}")).set("focal", focal).set("view_verts", Json::Arr(verts.iter().map(|(p, a)| Json::Str(format!("{} attr {a}", f32v(p)))).collect()));
    let mut run = |test: Option<Ordering>, sort: Option<DepthSort>| -> Result<(Vec<u32>, Vec<u32>), String> {
        let ctx = Context { face_cull: None, depth_sort: sort, depth_test: test, ..Context::default() };
        let mut cv = Canvas::new(w, h, (0, 0, w, h), |_, _| COL_SENT, |_, _| 0.0);
        render_view(&verts, &tris, &proj, shade_plain, &ctx, to_screen, &mut cv, Tk::FbOwned)?;
        Ok((cv.col.data().to_vec(), cv.dep.data().iter().map(|z| z.to_bits()).collect()))
    };
    let zbuf = run(Some(Ordering::Less), None);
    let paint = run(None, Some(DepthSort::BackToFront));
    // pixels that one triangle's own clip fan draws twice (internal fan
    // edge, inside C04's band): "last own fragment" (painter) and "nearest
    // own fragment" (depth buffer) may differ there by rounding — excluded
    let mut multi = vec![false; (w * h) as usize];
    for t in &tris {
        let counts = std::cell::RefCell::new(vec![0u8; (w * h) as usize]);
        let counting = |f: re::render::raster::Frag<f32>| {
            let i = f.pos.y() as usize * w as usize + f.pos.x() as usize;
            if let Some(c) = counts.borrow_mut().get_mut(i) {
                *c = c.saturating_add(1);
            }
            Some(super::scene::pack(0))
        };
        let ctx = Context { face_cull: None, depth_sort: None, depth_test: None, ..Context::default() };
        let mut cv = Canvas::new(w, h, (0, 0, w, h), |_, _| COL_SENT, |_, _| 0.0);
        if render_view(&verts, &[*t], &proj, counting, &ctx, to_screen, &mut cv, Tk::FbOwned).is_err() {
            rep.violation("render.panic", "render() panicked".into(), cj());
            return;
        }
        for (m, c) in multi.iter_mut().zip(counts.borrow().iter()) {
            *m |= *c > 1;
        }
    }
    rep.add("painter.pixels_excluded_drawn_twice_by_own_clip_fan", multi.iter().filter(|m| **m).count() as u64);
    match (zbuf, paint) {
        (Ok(a), Ok(b)) => {
            let drawn = a.0.iter().filter(|c| **c != COL_SENT).count();
            rep.add("painter.pixels_compared", drawn as u64);
            if let Some(p) = (0..a.0.len()).find(|&p| !multi[p] && a.0[p] != b.0[p]) {
                rep.violation(
                    "order.painter_differs_from_depth_buffer",
                    format!("disjoint depth ranges: depth test off + BackToFront gives colour {:#x} at pixel ({},{}) but the depth-buffered image has {:#x}", b.0[p], p as u32 % w, p as u32 / w, a.0[p]),
                    cj(),
                );
            } else if (0..a.1.len()).any(|p| !multi[p] && a.1[p] != b.1[p]) {
                rep.count("painter.depth_buffers_differ(informational)");
            }
        }
        (Err(m), _) | (_, Err(m)) => rep.violation("render.panic", format!("render() panicked: {m}"), cj()),
    }
}

pub fn run(cfg: &Cfg, rep: &mut Report) {
    rep.rule = "case = one scene (every fourth with a discarding cut-out material) of 2..10 overlapping / interpenetrating / nested / coplanar-offset / clipped triangles in a buffer ≤ 48 px, rendered under ~20..40 histories (all permutations for n ≤ 4 else 24 random, 8 random ordered partitions into separate calls, all depth_sort settings, one call per triangle reversed); non-trivial = at least one pixel covered by two layers; distinct by hash of the scene; plus painter scenes with disjoint depth slabs".into();
    rep.assumptions.push("solo renders of the same rasteriser are the layers; their absolute correctness is C01/C04/C05's subject".into());
    rep.assumptions.push("pixels where two layers have exactly equal reciprocal depth are excluded, as the property states".into());
    rep.run_stream(cfg, 0, "order_histories", cfg.n(40_000, 5_000_000), |rng, i, rep| order_case(rng, rep, i));
    rep.run_stream(cfg, 1, "painter_disjoint_depths", cfg.n(60_000, 6_000_000), |rng, _, rep| painter_case(rng, rep));
    rep.floor("histories_rendered", 50_000);
    rep.floor("scenes_with_discarding_shader", 1_000);
    rep.floor("pixels_with_overlapping_layers", 200_000);
    rep.floor("painter.pixels_compared", 500_000);
    rep.floor("painter.scenes_with_triangles_within_2x_near", 5_000);
    let _ = ClipScene::<f32> { verts: vec![], tris: vec![] };
}
