//! C06 — hidden-surface removal is independent of submission order.
//!
//! Event: final colour/depth buffers after a *history* of render() calls.
//! Oracle (metamorphic, bit-exact): every permutation, every ordered
//! partition into separate calls and every depth_sort setting must give
//! bit-identical buffers; absolute anchor: per pixel the winner is the solo
//! layer with the largest reciprocal depth (exact ties excluded).
//! Second clause: depth test off + back-to-front sort on scenes with
//! disjoint depth ranges equals the depth-buffered image.

use super::layers::{gen_flat, shade_cutout, shade_plain, solo_layers_with, Flat, COL_SENT, Z_MARK};
use super::scene::{render_clip, render_view, Canvas, ClipScene, Tk};
use crate::{f32v, Cfg, Hasher, Json, Report, Rng};
use re::math::mat::{perspective, viewport};
use re::math::point::pt2;
use re::render::ctx::{Context, DepthSort};
use std::cmp::Ordering;

fn fl_json(fl: &Flat) -> Json {
    Json::obj()
        .set("buffer", format!("{}x{}", fl.w, fl.h))
        .set("tris", format!("{:?}", fl.sc.tris))
        .set("clip_verts", Json::Arr(fl.sc.verts.iter().map(|(p, a)| Json::Str(format!("{} attr {:?}", f32v(p), a))).collect()))
}

/// How the colour and depth buffers of a history are laid out.
#[derive(Clone, Copy, Debug, PartialEq)]
enum Target {
    /// Framebuf of two owned buffers of exactly the frame's size.
    Owned,
    /// Framebuf of two MutSlice2 windows into parents of *different* sizes at
    /// *different* offsets (a stride or offset slip in either row is then
    /// visible: colour and depth rows are indexed separately).
    Windows { col_off: (u32, u32), col_pad: (u32, u32), dep_off: (u32, u32), dep_pad: (u32, u32) },
    /// Owned colour buffer, depth buffer a window.
    Mixed { dep_off: (u32, u32), dep_pad: (u32, u32) },
}

/// Renders a history: a list of render() calls, each a list of triangle
/// indices with its own depth-sort setting, over a prior frame.
#[allow(clippy::too_many_arguments)]
fn render_history(fl: &Flat, calls: &[(Vec<usize>, Option<DepthSort>)], test: Option<Ordering>, cutout: bool, prior_z: &[f32], target: Target) -> Result<(Vec<u32>, Vec<u32>), String> {
    use re::geom::{vertex, Tri, Vertex};
    use re::render::clip::ClipVec;
    use re::render::shader::Shader;
    use re::render::target::Framebuf;
    use re::util::buf::Buf2;
    let to_screen = viewport(pt2(0, 0)..pt2(fl.w, fl.h));
    let (w, h) = (fl.w, fl.h);
    let (co, cp, dof, dp) = match target {
        Target::Owned => ((0, 0), (0, 0), (0, 0), (0, 0)),
        Target::Windows { col_off, col_pad, dep_off, dep_pad } => (col_off, col_pad, dep_off, dep_pad),
        Target::Mixed { dep_off, dep_pad } => ((0, 0), (0, 0), dep_off, dep_pad),
    };
    let mut col = Buf2::new_with((co.0 + w + cp.0, co.1 + h + cp.1), |_, _| COL_SENT);
    let mut dep = Buf2::new_with((dof.0 + w + dp.0, dof.1 + h + dp.1), |x, y| if x >= dof.0 && x < dof.0 + w && y >= dof.1 && y < dof.1 + h { prior_z[((y - dof.1) * w + (x - dof.0)) as usize] } else { 12345.0 });
    let verts: Vec<Vertex<ClipVec, f32>> = fl.sc.verts.iter().map(|(p, a)| vertex(ClipVec::from(*p), *a)).collect();
    for (call, sort) in calls {
        let ctx = Context { face_cull: None, depth_sort: *sort, depth_test: test, ..Context::default() };
        let tris: Vec<Tri<usize>> = call.iter().map(|&k| Tri(fl.sc.tris[k])).collect();
        let shader_plain = Shader::new(|v: Vertex<ClipVec, f32>, _: ()| v, shade_plain);
        let shader_cut = Shader::new(|v: Vertex<ClipVec, f32>, _: ()| v, shade_cutout);
        crate::catch(|| {
            macro_rules! go {
                ($fb:expr) => {{
                    let mut fb = $fb;
                    if cutout {
                        re::render::render(&tris, &verts, &shader_cut, (), to_screen, &mut fb, &ctx);
                    } else {
                        re::render::render(&tris, &verts, &shader_plain, (), to_screen, &mut fb, &ctx);
                    }
                }};
            }
            match target {
                Target::Owned => go!(Framebuf { color_buf: &mut col, depth_buf: &mut dep }),
                Target::Windows { .. } => go!(Framebuf { color_buf: col.slice_mut((co.0..co.0 + w, co.1..co.1 + h)), depth_buf: dep.slice_mut((dof.0..dof.0 + w, dof.1..dof.1 + h)) }),
                Target::Mixed { .. } => go!(Framebuf { color_buf: &mut col, depth_buf: dep.slice_mut((dof.0..dof.0 + w, dof.1..dof.1 + h)) }),
            }
        })?;
    }
    // nothing outside the windows may change
    for y in 0..col.height() {
        for x in 0..col.width() {
            let inside = x >= co.0 && x < co.0 + w && y >= co.1 && y < co.1 + h;
            if !inside && col[[x, y]] != COL_SENT {
                return Err(format!("colour cell ({x},{y}) outside the window was written"));
            }
        }
    }
    for y in 0..dep.height() {
        for x in 0..dep.width() {
            let inside = x >= dof.0 && x < dof.0 + w && y >= dof.1 && y < dof.1 + h;
            if !inside && dep[[x, y]] != 12345.0 {
                return Err(format!("depth cell ({x},{y}) outside the window was written"));
            }
        }
    }
    let c: Vec<u32> = (0..h).flat_map(|y| (0..w).map(move |x| (x, y))).map(|(x, y)| col[[co.0 + x, co.1 + y]]).collect();
    let z: Vec<u32> = (0..h).flat_map(|y| (0..w).map(move |x| (x, y))).map(|(x, y)| dep[[dof.0 + x, dof.1 + y]].to_bits()).collect();
    Ok((c, z))
}

pub(crate) fn permutations(n: usize) -> Vec<Vec<usize>> {
    fn rec(cur: &mut Vec<usize>, used: &mut Vec<bool>, n: usize, out: &mut Vec<Vec<usize>>) {
        if cur.len() == n {
            out.push(cur.clone());
            return;
        }
        for i in 0..n {
            if !used[i] {
                used[i] = true;
                cur.push(i);
                rec(cur, used, n, out);
                cur.pop();
                used[i] = false;
            }
        }
    }
    let mut out = vec![];
    rec(&mut vec![], &mut vec![false; n], n, &mut out);
    out
}

fn order_case(rng: &mut Rng, rep: &mut Report, idx: u64) {
    let n = 2 + rng.usize(if idx % 4 == 0 { 9 } else { 4 }); // 2..10, mostly 2..5
    let mut fl = gen_flat(rng, n, 48, true);
    // Depth magnitudes: the whole clip vector of a triangle scaled by 2^k
    // leaves its footprint alone and multiplies its reciprocal depth by
    // 2^-k: depths from 1e-6 to 1e6 in one scene
    let scaled = idx % 5 == 2;
    if scaled {
        rep.count("scenes_with_depths_over_many_magnitudes");
        for t in fl.sc.tris.clone() {
            let f = 2.0f32.powi(rng.int(-20, 20) as i32);
            for i in t {
                fl.sc.verts[i].0 = fl.sc.verts[i].0.map(|c| c * f);
            }
        }
    }
    // Near ties: copies of the first triangle with every coordinate scaled by
    // 1 ± j·2^-23 — the same footprint, reciprocal depths a few ulps apart.
    // (Exact ties are excluded below, from the layers' actual depths.)
    if idx % 5 == 3 && n >= 3 {
        rep.count("scenes_with_depths_a_few_ulps_apart");
        let base: Vec<[f32; 4]> = fl.sc.tris[0].iter().map(|&i| fl.sc.verts[i].0).collect();
        for (k, t) in fl.sc.tris.clone().iter().enumerate().skip(1).take(3) {
            let f = 1.0 + (k as f32) * if rng.bool() { 1.1920929e-7 } else { -5.9604645e-8 };
            for (j, &i) in t.iter().enumerate() {
                fl.sc.verts[i].0 = base[j].map(|c| c * f);
            }
        }
    }
    let fl = fl;
    let mut h = Hasher::new();
    h.u64(fl.w as u64).u64(fl.h as u64);
    for (p, _) in &fl.sc.verts {
        h.f32s(p);
    }
    // every fourth scene uses a cut-out (discarding) material: "the nearest
    // fragment covering a pixel" is then the nearest *non-discarded* one
    let cutout = idx % 4 == 1;
    if cutout {
        rep.count("scenes_with_discarding_shader");
    }
    let layers = match solo_layers_with(&fl, true, cutout) {
        Ok(l) => l,
        Err(m) => {
            // a panic of one triangle on its own is C02's subject, not an
            // order dependence
            rep.skip("scene.solo_render_panicked(C02's subject)");
            let _ = m;
            return;
        }
    };
    if layers.iter().any(|l| l.z.iter().any(|z| z.is_nan())) {
        // NaN depths (C02/C05's subject) leave no order defined
        rep.skip("scene.nan_depth_in_a_solo_layer(C02/C05's subject)");
        return;
    }
    let npx = (fl.w * fl.h) as usize;
    // The frame the scene is drawn over: far everywhere, or a previous
    // frame's depths of every magnitude incl. the library's own clear value
    // (+inf: nothing passes) and −inf. It takes part in the fold as one more
    // layer holding the sentinel colour.
    let prior_mode = rng.below(3);
    let zmax = layers.iter().flat_map(|l| l.z.iter()).filter(|z| z.to_bits() != Z_MARK.to_bits()).fold(0.0f32, |a, z| a.max(*z));
    let prior_z: Vec<f32> = (0..npx)
        .map(|_| match prior_mode {
            0 => 0.0,
            _ => rng.pick(&[0.0f32, 0.0, f32::NEG_INFINITY, f32::INFINITY, 0.3 * zmax, 0.7 * zmax, 1.1 * zmax, 1e-30]),
        })
        .collect();
    if prior_mode != 0 {
        rep.count("scenes_over_a_prior_frame_with_depths");
    }
    // expected per pixel: the layer with the largest reciprocal depth
    let mut exp_col = vec![COL_SENT; npx];
    let mut exp_z: Vec<u32> = prior_z.iter().map(|z| z.to_bits()).collect();
    let mut tie = vec![false; npx];
    let mut overlap_px = 0u64;
    let mut own_multi = 0u64;
    let mut ulp_close = 0u64;
    for p in 0..npx {
        // (depth, layer, is_multi); the winner and the runner-up decide
        let mut cand: Vec<(f32, usize, bool)> = vec![];
        for (k, l) in layers.iter().enumerate() {
            let z = l.z[p];
            if z.to_bits() == Z_MARK.to_bits() {
                continue;
            }
            cand.push((z, k, l.multi[p]));
        }
        if cand.len() > 1 {
            overlap_px += 1;
        }
        cand.sort_by(|a, b| b.0.partial_cmp(&a.0).unwrap());
        let Some(&(z, k, multi)) = cand.first() else { continue };
        // ambiguous only if it concerns who wins: the winner is one of a
        // triangle's own doubly drawn pixels (internal fan edge, inside the
        // band C04 exempts), or the runner-up or the prior depth ties with it
        if multi {
            tie[p] = true;
            own_multi += 1;
        }
        if let Some(&(z2, _, m2)) = cand.get(1) {
            // (a runner-up drawn twice by its own fan cannot win with either
            // of its fragments: the layer holds the nearer one)
            let _ = m2;
            if z2 == z {
                tie[p] = true;
            }
            if z2 != z && (z - z2).abs() <= 4.0 * 1.1920929e-7 * z.abs() {
                ulp_close += 1;
            }
        }
        if z == prior_z[p] {
            tie[p] = true;
        }
        if z > prior_z[p] {
            exp_col[p] = layers[k].col[p];
            exp_z[p] = z.to_bits();
        }
    }
    rep.case(h.get(), overlap_px > 0);
    rep.add("pixels_with_overlapping_layers", overlap_px);
    rep.add("pixels_with_winner_and_runner_up_within_4_ulp", ulp_close);
    rep.add("pixels_excluded_drawn_twice_by_own_clip_fan", own_multi);
    rep.add("pixels_excluded_exact_depth_tie", tie.iter().filter(|t| **t).count() as u64);

    // histories: (calls with their own sort settings, description)
    let any_sort = |rng: &mut Rng| rng.pick(&[None, Some(DepthSort::FrontToBack), Some(DepthSort::BackToFront)]);
    let mut hist: Vec<(Vec<(Vec<usize>, Option<DepthSort>)>, String)> = vec![];
    let perms: Vec<Vec<usize>> = if n <= 4 {
        permutations(n)
    } else {
        (0..24)
            .map(|_| {
                let mut p: Vec<usize> = (0..n).collect();
                rng.shuffle(&mut p);
                p
            })
            .collect()
    };
    for p in &perms {
        // (a sort setting overrides the submission order within a call, so
        // permutations are submitted unsorted two times out of three)
        let sort = if rng.chance(2, 3) { None } else { any_sort(rng) };
        hist.push((vec![(p.clone(), sort)], format!("one call, order {p:?}, sort {sort:?}")));
    }
    // every depth-sort setting on the identity order
    for sort in [None, Some(DepthSort::FrontToBack), Some(DepthSort::BackToFront)] {
        hist.push((vec![((0..n).collect(), sort)], format!("one call, submission order, sort {sort:?}")));
    }
    // ordered partitions into separate calls, each call with its own sort
    // setting, empty calls in between now and then
    for _ in 0..8 {
        let mut p: Vec<usize> = (0..n).collect();
        rng.shuffle(&mut p);
        let mut calls: Vec<(Vec<usize>, Option<DepthSort>)> = vec![(vec![], any_sort(rng))];
        for k in p {
            if !calls.last().unwrap().0.is_empty() && rng.chance(1, 2) {
                if rng.chance(1, 6) {
                    calls.push((vec![], any_sort(rng)));
                    rep.count("histories_with_an_empty_call");
                }
                calls.push((vec![], any_sort(rng)));
            }
            calls.last_mut().unwrap().0.push(k);
        }
        if calls.len() > 1 {
            rep.count("histories_of_several_calls");
        }
        hist.push((calls.clone(), format!("{} calls {calls:?}", calls.len())));
    }
    // one call per triangle, reversed
    hist.push(((0..n).rev().map(|k| (vec![k], None)).collect(), "one call per triangle, reversed".into()));

    // the buffers: owned, or windows into parents of different sizes
    let mut off = |rng: &mut Rng| (rng.below(4) as u32, rng.below(4) as u32);
    let target = match idx % 3 {
        0 => Target::Owned,
        1 => Target::Windows { col_off: off(rng), col_pad: off(rng), dep_off: off(rng), dep_pad: off(rng) },
        _ => Target::Mixed { dep_off: off(rng), dep_pad: off(rng) },
    };
    rep.count(match target {
        Target::Owned => "target.owned",
        Target::Windows { .. } => "target.windows_of_different_parents",
        Target::Mixed { .. } => "target.owned_colour_windowed_depth",
    });

    for (calls, desc) in &hist {
        rep.count("histories_rendered");
        let (col, z) = match render_history(&fl, calls, Some(Ordering::Less), cutout, &prior_z, target) {
            Ok(r) => r,
            Err(m) => {
                rep.violation("render.panic", format!("render() panicked (or wrote outside its window) in history [{desc}] although every triangle renders alone: {m}"), fl_json(&fl).set("target", format!("{target:?}")));
                return;
            }
        };
        for p in 0..npx {
            if tie[p] {
                continue;
            }
            if col[p] != exp_col[p] || z[p] != exp_z[p] {
                let (x, y) = (p as u32 % fl.w, p as u32 / fl.w);
                rep.violation(
                    "order.final_image_depends_on_history",
                    format!(
                        "history [{desc}] on {target:?}: pixel ({x},{y}) ends with colour {:#x} depth {} but the nearest covering fragment (or the prior frame, depth {}) has colour {:#x} depth {}",
                        col[p],
                        f32::from_bits(z[p]),
                        prior_z[p],
                        exp_col[p],
                        f32::from_bits(exp_z[p])
                    ),
                    fl_json(&fl).set("history", desc.clone()).set("cutout_shader", cutout).set("target", format!("{target:?}")),
                );
                return;
            }
        }
    }
    if idx < 2 {
        rep.sample(|| fl_json(&fl).set("histories", hist.len()));
    }
}

/// Second clause: disjoint depth ranges, depth test off, back-to-front sort.
fn painter_case(rng: &mut Rng, rep: &mut Report) {
    // mostly a handful of triangles; now and then enough of them to take the
    // sort off its small-slice path
    let many = rng.chance(1, 40);
    let n = if many { 21 + rng.usize(80) } else { 2 + rng.usize(5) };
    let (w, h) = (8 + rng.below(40) as u32, 8 + rng.below(40) as u32);
    let near = rng.pick(&[0.1f32, 1.0, 5.0]);
    let far = near * rng.pick(&[10.0f32, 100.0, 1000.0]);
    let focal = rng.pick(&[0.7f32, 1.0, 1.5]);
    let proj = perspective(focal, w as f32 / h as f32, near..far);
    // disjoint depth slabs in geometric progression starting right behind
    // the near plane (clip z is negative below ≈ 2·near, positive beyond),
    // shuffled so that submission order is unrelated to depth
    let mut slabs: Vec<usize> = (0..n).collect();
    rng.shuffle(&mut slabs);
    let g = if many { 1.04 } else { rng.pick(&[1.25f32, 1.6, 2.5]) };
    // the first slab may start before the near plane and the last end beyond
    // the far plane: their triangles are clipped by those planes
    let straddle = rng.chance(1, 4);
    let mut verts = vec![];
    let mut tris = vec![];
    for (k, &s) in slabs.iter().enumerate() {
        let z0 = near * 1.02 * g.powi(s as i32);
        let z1 = z0 * (1.0 + 0.6 * (g - 1.0));
        if z0 >= far || (z1 >= far && !straddle) {
            continue;
        }
        // slab 0 reaching in front of the near plane (still a disjoint range)
        let z0 = if straddle && s == 0 { near * 0.5 } else { z0 };
        if straddle && (s == 0 || z1 >= far) {
            rep.count("painter.slabs_crossing_near_or_far_plane");
        }
        let kk = tris.len();
        let _ = k;
        for _ in 0..3 {
            let z = rng.f32_in(z0, z1);
            // partly outside the side planes now and then (gets clipped)
            let r = if rng.chance(1, 4) { 1.5 } else { 0.95 };
            verts.push(([rng.f32_in(-r, r) * z / focal, rng.f32_in(-r, r) * z / (focal * w as f32 / h as f32), z], rng.f32_in(0.0, 1.0)));
        }
        tris.push([3 * kk, 3 * kk + 1, 3 * kk + 2]);
    }
    if tris.len() < 2 {
        return;
    }
    if verts.iter().any(|(p, _)| p[2] < 1.9 * near) {
        rep.count("painter.scenes_with_triangles_within_2x_near");
    }
    let mut hs = Hasher::new();
    for (p, _) in &verts {
        hs.f32s(p);
    }
    rep.case(hs.get(), true);
    rep.count("painter.scenes");
    let to_screen = viewport(pt2(0, 0)..pt2(w, h));
    let cj = || Json::obj().set("buffer", format!("{w}x{h}")).set("focal", focal).set("view_verts", Json::Arr(verts.iter().map(|(p, a)| Json::Str(format!("{} attr {a}", f32v(p)))).collect()));
    let mut run = |test: Option<Ordering>, sort: Option<DepthSort>| -> Result<(Vec<u32>, Vec<u32>), String> {
        let ctx = Context { face_cull: None, depth_sort: sort, depth_test: test, ..Context::default() };
        let mut cv = Canvas::new(w, h, (0, 0, w, h), |_, _| COL_SENT, |_, _| 0.0);
        render_view(&verts, &tris, &proj, shade_plain, &ctx, to_screen, &mut cv, Tk::FbOwned)?;
        Ok((cv.col.data().to_vec(), cv.dep.data().iter().map(|z| z.to_bits()).collect()))
    };
    let zbuf = run(Some(Ordering::Less), None);
    let paint = run(None, Some(DepthSort::BackToFront));
    // the same without sorting: where it differs from the depth-buffered
    // image, the sort is what makes the painter image right
    let unsorted = run(None, None);
    // and on a colour-only target (no depth buffer at all), where painter's
    // order is the only hidden-surface removal there is
    let paint_col_only = {
        let ctx = Context { face_cull: None, depth_sort: Some(DepthSort::BackToFront), depth_test: None, ..Context::default() };
        let win = (rng.below(3) as u32, rng.below(3) as u32);
        let (bw, bh) = (w + win.0 + rng.below(3) as u32, h + win.1 + rng.below(3) as u32);
        let tk = if rng.bool() { Tk::ColOwned } else { Tk::ColWindow };
        let (bw, bh, win) = if tk == Tk::ColOwned { (w, h, (0, 0)) } else { (bw, bh, win) };
        let mut cv = Canvas::new(bw, bh, (win.0, win.1, w, h), |_, _| COL_SENT, |_, _| 0.0);
        render_view(&verts, &tris, &proj, shade_plain, &ctx, to_screen, &mut cv, tk).map(|_| (0..h).flat_map(|y| (0..w).map(move |x| (x, y))).map(|(x, y)| cv.col[[win.0 + x, win.1 + y]]).collect::<Vec<u32>>())
    };
    // pixels that one triangle's own clip fan draws twice (internal fan
    // edge, inside C04's band): "last own fragment" (painter) and "nearest
    // own fragment" (depth buffer) may differ there by rounding — excluded
    let mut multi = vec![false; (w * h) as usize];
    for t in &tris {
        let counts = std::cell::RefCell::new(vec![0u8; (w * h) as usize]);
        let counting = |f: re::render::raster::Frag<f32>| {
            let i = f.pos.y() as usize * w as usize + f.pos.x() as usize;
            if let Some(c) = counts.borrow_mut().get_mut(i) {
                *c = c.saturating_add(1);
            }
            Some(super::scene::pack(0))
        };
        let ctx = Context { face_cull: None, depth_sort: None, depth_test: None, ..Context::default() };
        let mut cv = Canvas::new(w, h, (0, 0, w, h), |_, _| COL_SENT, |_, _| 0.0);
        if render_view(&verts, &[*t], &proj, counting, &ctx, to_screen, &mut cv, Tk::FbOwned).is_err() {
            rep.violation("render.panic", "render() panicked".into(), cj());
            return;
        }
        for (m, c) in multi.iter_mut().zip(counts.borrow().iter()) {
            *m |= *c > 1;
        }
    }
    rep.add("painter.pixels_excluded_drawn_twice_by_own_clip_fan", multi.iter().filter(|m| **m).count() as u64);
    // A fragment inside C04's band of a sliver thinner than the band can carry
    // an extrapolated depth outside its triangle's own range, and the
    // depth-buffered image may then legitimately prefer another slab: pixels
    // whose depth-buffered winner's depth lies outside every slab's range are
    // not compared
    let slab_ranges: Vec<(f32, f32)> = tris.iter().map(|t| t.iter().map(|&i| 1.0 / verts[i].0[2]).fold((f32::INFINITY, 0.0f32), |(lo, hi), z| (lo.min(z), hi.max(z)))).collect();
    if let Ok(a) = &zbuf {
        for (p, m) in multi.iter_mut().enumerate() {
            let z = f32::from_bits(a.1[p]);
            if z != 0.0 && !slab_ranges.iter().any(|(lo, hi)| z >= lo * 0.999 && z <= hi * 1.001) {
                *m = true;
                rep.count("painter.pixels_excluded_depth_outside_every_slab(band fragment of a sliver)");
            }
        }
    }
    if let (Ok(a), Ok(u)) = (&zbuf, &unsorted) {
        rep.add("painter.pixels_where_the_unsorted_image_differs", (0..a.0.len()).filter(|&p| !multi[p] && a.0[p] != u.0[p]).count() as u64);
    }
    match (&zbuf, &paint_col_only) {
        (Ok(a), Ok(c)) => {
            if let Some(p) = (0..a.0.len()).find(|&p| !multi[p] && a.0[p] != c[p]) {
                rep.violation(
                    "order.painter_differs_from_depth_buffer",
                    format!("disjoint depth ranges, colour-only target: BackToFront gives colour {:#x} at pixel ({},{}) but the depth-buffered image has {:#x}", c[p], p as u32 % w, p as u32 / w, a.0[p]),
                    cj(),
                );
                return;
            }
            rep.count("painter.colour_only_targets_compared");
        }
        (_, Err(m)) => {
            rep.violation("render.panic", format!("render() panicked on a colour-only target: {m}"), cj());
            return;
        }
        _ => {}
    }
    match (zbuf, paint) {
        (Ok(a), Ok(b)) => {
            let drawn = a.0.iter().filter(|c| **c != COL_SENT).count();
            rep.add("painter.pixels_compared", drawn as u64);
            if let Some(p) = (0..a.0.len()).find(|&p| !multi[p] && a.0[p] != b.0[p]) {
                rep.violation(
                    "order.painter_differs_from_depth_buffer",
                    format!("disjoint depth ranges: depth test off + BackToFront gives colour {:#x} at pixel ({},{}) but the depth-buffered image has {:#x}", b.0[p], p as u32 % w, p as u32 / w, a.0[p]),
                    cj(),
                );
            } else if (0..a.1.len()).any(|p| !multi[p] && a.1[p] != b.1[p]) {
                rep.count("painter.depth_buffers_differ(informational)");
            }
        }
        (Err(m), _) | (_, Err(m)) => rep.violation("render.panic", format!("render() panicked: {m}"), cj()),
    }
}

pub fn run(cfg: &Cfg, rep: &mut Report) {
    rep.rule = "case = one scene (every fourth with a discarding cut-out material) of 2..10 overlapping / interpenetrating / nested / coplanar-offset / clipped triangles in a buffer ≤ 48 px, rendered under ~20..40 histories (all permutations for n ≤ 4 else 24 random, 8 random ordered partitions into separate calls, all depth_sort settings, one call per triangle reversed); non-trivial = at least one pixel covered by two layers; distinct by hash of the scene; plus painter scenes with disjoint depth slabs".into();
    rep.assumptions.push("solo renders of the same rasteriser are the layers; their absolute correctness is C01/C04/C05's subject".into());
    rep.assumptions.push("pixels where two layers have exactly equal reciprocal depth are excluded, as the property states".into());
    rep.run_stream(cfg, 0, "order_histories", cfg.n(40_000, 5_000_000), |rng, i, rep| order_case(rng, rep, i));
    rep.run_stream(cfg, 1, "painter_disjoint_depths", cfg.n(60_000, 6_000_000), |rng, _, rep| painter_case(rng, rep));
    rep.floor("histories_rendered", 500_000);
    rep.floor("histories_of_several_calls", 100_000);
    rep.floor("histories_with_an_empty_call", 5_000);
    rep.floor("scenes_over_a_prior_frame_with_depths", 10_000);
    rep.floor("scenes_with_depths_over_many_magnitudes", 4_000);
    rep.floor("scenes_with_depths_a_few_ulps_apart", 2_000);
    rep.floor("pixels_with_winner_and_runner_up_within_4_ulp", 10_000);
    rep.floor("target.windows_of_different_parents", 5_000);
    rep.floor("target.owned_colour_windowed_depth", 5_000);
    rep.floor("scenes_with_discarding_shader", 1_000);
    rep.floor("pixels_with_overlapping_layers", 200_000);
    rep.floor("painter.pixels_compared", 500_000);
    rep.floor("painter.scenes_with_triangles_within_2x_near", 5_000);
    // (no floor on painter.pixels_where_the_unsorted_image_differs: that the
    // unsorted, untested image differs rests on submission-order drawing,
    // which no statement fixes)
    rep.floor("painter.colour_only_targets_compared", 20_000);
    rep.floor("painter.slabs_crossing_near_or_far_plane", 3_000);
    let _ = ClipScene::<f32> { verts: vec![], tris: vec![] };
}
