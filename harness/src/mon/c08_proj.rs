//! C08 — projection, viewport and camera map points where geometry says.
//!
//! Events: results of perspective/orthographic/viewport(..).apply*, of
//! Camera::{new,viewport,perspective,orthographic,world_to_project,render}
//! and of FirstPerson::{look_at,rotate,rotate_to,translate,world_to_view}.
//! Oracle: closed-form pinhole geometry in f64.

use super::scene::{pack, Canvas};
use crate::geo::{self, M4};
use crate::{catch, f32s, f32v, Cfg, Hasher, Json, Report, Rng};
use re::geom::{vertex, Tri, Vertex};
use re::math::angle::{degs, rads, turns};
use re::math::mat::{orthographic, perspective, viewport, Mat4x4};
use re::math::point::{pt2, pt3, Point3};
use re::math::vec::{vec2, vec3, Vec3};
use re::render::cam::{Camera, FirstPerson, Mode as _};
use re::render::ctx::Context;
use re::render::raster::Frag;
use re::render::shader::Shader;
use re::render::target::Framebuf;
use re::render::{ModelToProj, View, World};

fn m64<M>(m: &Mat4x4<M>) -> M4 {
    m.0.map(|r| r.map(|x| x as f64))
}

// ------------------------------------------------------------- projections

fn perspective_case(rng: &mut Rng, rep: &mut Report) {
    let f = rng.log_f32(0.05, 20.0);
    let aspect = rng.log_f32(0.1, 10.0);
    let near = rng.log_f32(0.01, 100.0);
    let far = near * rng.log_f32(1.001, 1e4);
    if !(far > near) {
        return;
    }
    let mut hs = Hasher::new();
    hs.f32(f).f32(aspect).f32(near).f32(far);
    let cj = || Json::obj().set("focal", f32s(f)).set("aspect", f32s(aspect)).set("near", f32s(near)).set("far", f32s(far));
    let m = match catch(|| perspective(f, aspect, near..far)) {
        Ok(m) => m,
        Err(e) => {
            rep.violation("proj.perspective_panicked", format!("perspective() panicked on valid parameters: {e}"), cj());
            return;
        }
    };
    rep.case(hs.get(), true);
    let (fd, ad, nd, fard) = (f as f64, aspect as f64, near as f64, far as f64);
    // near and far planes map to the two depth bounds
    for (z, want) in [(near, -1.0f64), (far, 1.0)] {
        let c = m.apply(&pt3::<f32, View>(0.3 * z, -0.2 * z, z)).0;
        let ndc = c[2] as f64 / c[3] as f64;
        // cancellation when far/near is huge: the tolerance follows e22, e23
        let tol = 4e-6 * (1.0 + (fard + nd) / (fard - nd));
        rep.worst("near_far_ndc_err/tol", (ndc - want).abs() / tol, 1.0, String::new);
        if !((ndc - want).abs() <= tol) {
            rep.violation("proj.near_far_not_on_depth_bounds", format!("z = {z} (the {} plane) maps to z/w = {ndc}, expected {want}", if want < 0.0 { "near" } else { "far" }), cj());
            return;
        }
    }
    let mut last: Option<(f64, f64)> = None;
    let mut zs: Vec<f32> = (0..6).map(|_| rng.f32_in(near, far)).collect();
    zs.sort_by(|a, b| a.partial_cmp(b).unwrap());
    for z in zs {
        let c = m.apply(&pt3::<f32, View>(0.0, 0.0, z)).0;
        let ndc = c[2] as f64 / c[3] as f64;
        if let Some((lz, lndc)) = last {
            // strictly increasing wherever f32 can resolve the difference
            let resolvable = (z as f64 - lz) / (z as f64) > 2e-4 && fard / nd < 1e3;
            if ndc < lndc - 1e-6 || (resolvable && !(ndc > lndc)) {
                rep.violation("proj.depth_order_not_preserved", format!("depths {lz} < {z} map to z/w {lndc} and {ndc}"), cj());
                return;
            }
        }
        last = Some((z as f64, ndc));
    }
    // volume membership
    for _ in 0..8 {
        let z = match rng.below(5) {
            0 => rng.f32_in(-far, near),
            1 => rng.f32_in(far, 2.0 * far),
            _ => rng.f32_in(near, far),
        };
        let zz = z.abs().max(near) as f64;
        let x = (rng.f64_in(-1.6, 1.6) * zz / fd) as f32;
        let y = (rng.f64_in(-1.6, 1.6) * zz / (fd * ad)) as f32;
        let (xd, yd, zd) = (x as f64, y as f64, z as f64);
        // signed margins of the six faces, relative
        // near/far margins are measured where the clip test happens, in
        // NDC z: for large far/near the mapping is so compressed near the
        // far plane that f32 cannot resolve a relative z margin there
        let ndc_z = (fard + nd) / (fard - nd) - 2.0 * fard * nd / ((fard - nd) * zd);
        let (m_near, m_far) = if zd > 0.0 { (ndc_z + 1.0, 1.0 - ndc_z) } else { (-1.0, 1.0) };
        let margins = [m_near.min((zd - nd) / nd), m_far.min((fard - zd) / fard), (zd / fd - xd.abs()) / (zz / fd), (zd / (fd * ad) - yd.abs()) / (zz / (fd * ad))];
        // the rounding of e22 = (f+n)/(f−n) and e23 moves NDC z by about
        // 1.2e-7·e22 (2e-4 when far/near = 1.001): the band follows e22, as
        // the tolerance of the near/far check above does
        let zband = 4e-5 + 8e-7 * (1.0 + (fard + nd) / (fard - nd));
        if margins[2..].iter().any(|m| m.abs() < 1e-4) || m_near.abs() < zband || m_far.abs() < zband {
            rep.skip("probe.within_1e-4_of_a_face");
            continue;
        }
        let inside = margins.iter().all(|m| *m > 0.0);
        let c = m.apply(&pt3::<f32, View>(x, y, z)).0.map(|v| v as f64);
        let in_clip = c[3] > 0.0 && c[0].abs() <= c[3] && c[1].abs() <= c[3] && c[2].abs() <= c[3];
        rep.count(if inside { "perspective.probes_inside" } else { "perspective.probes_outside" });
        if inside != in_clip {
            rep.violation(
                "proj.perspective_volume_mismatch",
                format!("view point ({x},{y},{z}) is {} the view volume but its clip coordinates {c:?} are {} the clip volume", if inside { "inside" } else { "outside" }, if in_clip { "inside" } else { "outside" }),
                cj(),
            );
            return;
        }
    }
}

fn ortho_case(rng: &mut Rng, rep: &mut Report) {
    let c0 = [rng.f32_in(-50.0, 50.0), rng.f32_in(-50.0, 50.0), rng.f32_in(-50.0, 50.0)];
    let d = [rng.log_f32(0.01, 100.0), rng.log_f32(0.01, 100.0), rng.log_f32(0.01, 100.0)];
    let (lo, hi) = (c0, [c0[0] + d[0], c0[1] + d[1], c0[2] + d[2]]);
    let mut hs = Hasher::new();
    hs.f32s(&lo).f32s(&hi);
    rep.case(hs.get(), true);
    let cj = || Json::obj().set("lbn", f32v(&lo)).set("rtf", f32v(&hi));
    let m = match catch(|| orthographic(pt3(lo[0], lo[1], lo[2]), pt3(hi[0], hi[1], hi[2]))) {
        Ok(m) => m,
        Err(e) => {
            rep.violation("proj.orthographic_panicked", format!("orthographic() panicked: {e}"), cj());
            return;
        }
    };
    // corners ↦ clip cube corners
    let tol = |k: usize| 4e-6 * (1.0 + (lo[k].abs().max(hi[k].abs()) / d[k]) as f64);
    for corner in 0..8 {
        let p: [f32; 3] = std::array::from_fn(|k| if corner >> k & 1 == 1 { hi[k] } else { lo[k] });
        let c = m.apply(&pt3::<f32, View>(p[0], p[1], p[2])).0;
        for k in 0..3 {
            let want = if corner >> k & 1 == 1 { 1.0 } else { -1.0 };
            if !((c[k] as f64 / c[3] as f64 - want).abs() <= tol(k)) || !(c[3] > 0.0) {
                rep.violation("proj.orthographic_box_mismatch", format!("box corner {p:?} maps to {c:?}; component {k} should be {want}, w should be 1"), cj());
                return;
            }
        }
    }
    for _ in 0..6 {
        let p: [f32; 3] = std::array::from_fn(|k| rng.f32_in(lo[k] - 0.5 * d[k], hi[k] + 0.5 * d[k]));
        let margins: Vec<f64> = (0..3).flat_map(|k| [(p[k] as f64 - lo[k] as f64) / d[k] as f64, (hi[k] as f64 - p[k] as f64) / d[k] as f64]).collect();
        if margins.iter().any(|m| m.abs() < 1e-3 * (1.0 + 0.0)) {
            continue;
        }
        let inside = margins.iter().all(|m| *m > 0.0);
        let c = m.apply(&pt3::<f32, View>(p[0], p[1], p[2])).0.map(|v| v as f64);
        // relative tolerance grows with |centre|/extent (cancellation)
        let slack = (0..3).map(tol).fold(0.0, f64::max);
        let in_clip = c[3] > 0.0 && (0..3).all(|k| c[k].abs() <= c[3] * (1.0 + if inside { slack } else { -slack }));
        rep.count(if inside { "orthographic.probes_inside" } else { "orthographic.probes_outside" });
        if inside != in_clip && margins.iter().all(|m| m.abs() > 10.0 * slack) {
            rep.violation("proj.orthographic_box_mismatch", format!("point {p:?}: inside the box = {inside}, clip coordinates {c:?}"), cj());
            return;
        }
    }
}

fn viewport_case(rng: &mut Rng, rep: &mut Report) {
    let (l, t) = (rng.below(2000) as u32, rng.below(2000) as u32);
    let (r, b) = (l + 1 + rng.below(2000) as u32, t + 1 + rng.below(2000) as u32);
    let mut hs = Hasher::new();
    hs.u64(l as u64).u64(t as u64).u64(r as u64).u64(b as u64);
    rep.case(hs.get(), true);
    let m = viewport(pt2(l, t)..pt2(r, b));
    let z = rng.f32_in(0.01, 10.0);
    let ok = |ndc: (f32, f32), want: (f64, f64)| -> bool {
        let p = m.apply(&vec3(ndc.0, ndc.1, z)).0;
        (p[0] as f64 - want.0).abs() <= 1e-4 * (1.0 + want.0.abs() * 1e-3) && (p[1] as f64 - want.1).abs() <= 1e-4 * (1.0 + want.1.abs() * 1e-3) 
    };
    let (ld, td, rd, bd) = (l as f64, t as f64, r as f64, b as f64);
    if !(ok((-1.0, -1.0), (ld, td)) && ok((1.0, 1.0), (rd, bd)) && ok((1.0, -1.0), (rd, td)) && ok((-1.0, 1.0), (ld, bd)) && ok((0.0, 0.0), ((ld + rd) / 2.0, (td + bd) / 2.0))) {
        let p = m.apply(&vec3(-1.0, -1.0, z)).0;
        let q = m.apply(&vec3(1.0, 1.0, z)).0;
        rep.violation("proj.viewport_mismatch", format!("viewport({l},{t})..({r},{b}) maps NDC (-1,-1) to {p:?} and (1,1) to {q:?}"), Json::obj().set("rect", format!("({l},{t})..({r},{b})")));
        return;
    }
    rep.count("viewport.rectangles");
}

// ---------------------------------------------------------------- cameras

/// Oracle first-person pose → world-to-view in f64.
fn fp_w2v(pos: [f64; 3], az: f64, alt: f64) -> M4 {
    let fwd = [az.cos() * alt.cos(), alt.sin(), az.sin() * alt.cos()];
    let fwd_h = [az.cos(), 0.0, az.sin()];
    let right = geo::cross3([0.0, 1.0, 0.0], fwd_h);
    let up = geo::cross3(fwd, right);
    let rows = [right, up, fwd];
    let mut m = geo::ident4();
    for i in 0..3 {
        for j in 0..3 {
            m[i][j] = rows[i][j];
        }
        m[i][3] = -geo::dot3(rows[i], pos);
    }
    m
}

fn first_person_case(rng: &mut Rng, rep: &mut Report) {
    let pos = [rng.f32_in(-20.0, 20.0), rng.f32_in(-20.0, 20.0), rng.f32_in(-20.0, 20.0)];
    let mode = rng.below(8);
    let mut fp = FirstPerson::new();
    fp.pos = vec3(pos[0], pos[1], pos[2]);
    let cj = |extra: String| Json::obj().set("pos", f32v(&pos)).set("setup", extra);
    let mut hs = Hasher::new();
    hs.f32s(&pos).u64(mode);
    // establish a heading
    let desc;
    let mut target: Option<[f32; 3]> = None;
    match mode {
        0 | 1 | 2 => {
            // look_at a target (incl. axis-aligned and straight up/down)
            let d = match rng.below(5) {
                0 => [0.0, rng.sign() * rng.f32_in(0.5, 30.0), 0.0], // pole
                1 => {
                    let k = rng.usize(3);
                    let mut v = [0.0f32; 3];
                    v[k] = rng.sign() * rng.f32_in(0.5, 30.0);
                    v
                }
                2 => [-rng.f32_in(0.5, 30.0), rng.f32_in(-1.0, 1.0), rng.ulp_nudge(0.0)], // azimuth ±180°
                _ => [rng.f32_in(-30.0, 30.0), rng.f32_in(-30.0, 30.0), rng.f32_in(-30.0, 30.0)],
            };
            if geo::len3(d.map(|x| x as f64)) < 0.3 {
                return;
            }
            let mut t = [pos[0] + d[0], pos[1] + d[1], pos[2] + d[2]];
            // exact axis alignment and ±1 ulp around it are made in the
            // target's own coordinates (pos + 1e-45 is just pos)
            if d[2] == 0.0 || d[2].abs() < 1e-30 {
                t[2] = rng.ulp_nudge(pos[2]);
            }
            if d[0] == 0.0 && rng.bool() {
                t[0] = rng.ulp_nudge(pos[0]);
            }
            hs.f32s(&t);
            target = Some(t);
            if let Err(e) = catch(|| fp.look_at(vec3(t[0], t[1], t[2]))) {
                rep.violation("cam.first_person_panicked", format!("look_at panicked: {e}"), cj(format!("look_at {t:?}")));
                return;
            }
            desc = format!("look_at {t:?}");
        }
        3 | 4 => {
            let (az, alt) = (rng.f32_in(-400.0, 400.0), rng.f32_in(-120.0, 120.0));
            hs.f32(az).f32(alt);
            fp.rotate_to(degs(az), degs(alt));
            desc = format!("rotate_to({az}°, {alt}°)");
        }
        _ => {
            let (az, alt) = (rng.f32_in(-180.0, 180.0), rng.f32_in(-89.0, 89.0));
            fp.rotate_to(degs(az), degs(alt));
            let (d1, d2) = (rng.f32_in(-300.0, 300.0), rng.f32_in(-100.0, 100.0));
            hs.f32(az).f32(alt).f32(d1).f32(d2);
            fp.rotate(degs(d1), degs(d2));
            desc = format!("rotate_to({az}°, {alt}°) then rotate({d1}°, {d2}°)");
        }
    }
    rep.case(hs.get(), true);
    // heading invariants: unit radius, azimuth within ±half turn, altitude within ±quarter turn
    let (hr, haz, halt) = (fp.heading.r(), fp.heading.az().to_turns(), fp.heading.alt().to_turns());
    // (how the heading is stored — unit radius, azimuth wrapped to ±half a
    // turn, altitude clamped to ±a quarter — is not part of the statement,
    // which speaks of the view transform and of translation: recorded only)
    if !((hr - 1.0).abs() <= 1e-6 && haz.abs() <= 0.5 + 1e-6 && halt.abs() <= 0.25 + 1e-6) {
        rep.count("first_person.stored_heading_outside_the_canonical_ranges(not a clause)");
    }
    let m = match catch(|| fp.world_to_view()) {
        Ok(m) => m,
        Err(e) => {
            rep.violation("cam.first_person_panicked", format!("world_to_view panicked: {e}"), cj(desc));
            return;
        }
    };
    let mm = m64(&m);
    // rigid: RᵀR = I, det +1
    let mut worst = 0.0f64;
    for i in 0..3 {
        for j in 0..3 {
            let d: f64 = (0..3).map(|k| mm[k][i] * mm[k][j]).sum::<f64>() - if i == j { 1.0 } else { 0.0 };
            worst = worst.max(d.abs());
        }
    }
    let lin: geo::M3 = std::array::from_fn(|i| std::array::from_fn(|j| mm[i][j]));
    let det = geo::det3(&lin);
    rep.worst("first_person_orthonormality_err", worst.max((det - 1.0).abs()), 1e-5, String::new);
    if !(worst <= 1e-5 && (det - 1.0).abs() <= 1e-5 && mm[3] == [0.0, 0.0, 0.0, 1.0]) {
        rep.violation("cam.world_to_view_not_rigid", format!("RᵀR differs from I by {worst:.2e}, det = {det}, last row {:?}", mm[3]), cj(desc));
        return;
    }
    // camera position ↦ origin
    let o = m.apply_pt(&pt3(pos[0], pos[1], pos[2])).0;
    if !(o.iter().all(|c| c.abs() <= 2e-4)) {
        rep.violation("cam.position_not_at_origin", format!("world_to_view(pos) = {o:?}"), cj(desc));
        return;
    }
    // look-at target ↦ positive depth axis
    if let Some(t) = target {
        let v = m.apply_pt(&pt3(t[0], t[1], t[2])).0;
        let d = geo::len3([(t[0] - pos[0]) as f64, (t[1] - pos[1]) as f64, (t[2] - pos[2]) as f64]);
        let tol = 3e-5 * (d + 60.0);
        if !((v[0] as f64).abs() <= tol && (v[1] as f64).abs() <= tol && (v[2] as f64 - d).abs() <= tol) {
            rep.violation("cam.look_at_target_off_axis", format!("target at distance {d} maps to {v:?}, expected (0,0,{d})"), cj(desc));
            return;
        }
        rep.count("first_person.look_at_checked");
    }
    // against the closed-form pose
    let (az, alt) = (fp.heading.az().to_rads() as f64, fp.heading.alt().to_rads() as f64);
    let want = fp_w2v(pos.map(|x| x as f64), az, alt);
    let mut e = 0.0f64;
    for i in 0..3 {
        for j in 0..4 {
            let scale = if j == 3 { 60.0 } else { 1.0 };
            e = e.max((mm[i][j] - want[i][j]).abs() / scale);
        }
    }
    rep.worst("first_person_matrix_err", e, 1e-5, String::new);
    if !(e <= 1e-5) {
        rep.violation("cam.world_to_view_wrong_axes", format!("world_to_view differs from the pose (right = up × horizontal heading, forward = heading) by {e:.2e}: got {:?}", m.0), cj(desc));
        return;
    }
    // translate: along horizontal heading, right and world up
    let delta = [rng.f32_in(-5.0, 5.0), rng.f32_in(-5.0, 5.0), rng.f32_in(-5.0, 5.0)];
    let before = fp.pos.0;
    if let Err(e) = catch(|| fp.translate(vec3(delta[0], delta[1], delta[2]))) {
        rep.violation("cam.first_person_panicked", format!("translate panicked: {e}"), cj(desc));
        return;
    }
    let fwd_h = [az.cos(), 0.0, az.sin()];
    let right = geo::cross3([0.0, 1.0, 0.0], fwd_h);
    let want: [f64; 3] = std::array::from_fn(|k| before[k] as f64 + delta[0] as f64 * right[k] + delta[1] as f64 * [0.0, 1.0, 0.0][k] + delta[2] as f64 * fwd_h[k]);
    let got = fp.pos.0;
    if !(0..3).all(|k| (got[k] as f64 - want[k]).abs() <= 1e-4) {
        rep.violation("cam.translate_wrong_axes", format!("translate({delta:?}) moved the camera from {before:?} to {got:?}; along (right, up, horizontal forward) it should reach {want:?}"), cj(desc));
        return;
    }
    rep.count("first_person.poses_checked");
}

/// Camera: matrix-level prediction and an end-to-end render of a tiny
/// triangle around a known world point.
fn camera_case(rng: &mut Rng, rep: &mut Report, idx: u64) {
    let (bw, bh) = (8 + rng.below(57) as u32, 8 + rng.below(57) as u32);
    // requested viewport, possibly sticking out of the frame
    let partly_outside = rng.chance(1, 3);
    let (l, t) = (rng.below(bw as u64 / 2) as u32, rng.below(bh as u64 / 2) as u32);
    let (r, b) = if partly_outside { (l + 4 + rng.below(2 * bw as u64) as u32, t + 4 + rng.below(2 * bh as u64) as u32) } else { (l + 4 + rng.below((bw - l - 4) as u64 + 1) as u32, t + 4 + rng.below((bh - t - 4) as u64 + 1) as u32) };
    let vp_form = rng.below(5);
    // open-ended spellings: (l.., t..) and (..r, ..b)
    let (l, t, r, b) = match vp_form {
        3 => (l, t, bw, bh),
        4 => (0, 0, r, b),
        _ => (l, t, r, b),
    };
    let (il, it, ir, ib) = (l.min(bw), t.min(bh), r.min(bw), b.min(bh));
    if ir <= il || ib <= it {
        return;
    }
    rep.count(&format!("camera.viewport_form_{vp_form}"));
    let ortho = rng.chance(1, 4);
    let f = rng.log_f32(0.3, 4.0);
    let near = rng.log_f32(0.1, 2.0);
    let far = near * rng.log_f32(10.0, 500.0);
    let pos = [rng.f32_in(-10.0, 10.0), rng.f32_in(-10.0, 10.0), rng.f32_in(-10.0, 10.0)];
    let (azd, altd) = (rng.f32_in(-180.0, 180.0), rng.f32_in(-80.0, 80.0));
    let mut hs = Hasher::new();
    hs.u64(bw as u64).u64(bh as u64).u64(l as u64).u64(t as u64).u64(r as u64).u64(b as u64).f32(f).f32(near).f32(far).f32s(&pos).f32(azd).f32(altd);
    rep.case(hs.get(), true);
    let cj = || {
        Json::obj()
            .set("frame", format!("{bw}x{bh}"))
            .set("requested_viewport", format!("({l},{t})..({r},{b})"))
            .set("projection", if ortho { "orthographic".to_string() } else { format!("perspective focal {f} near {near} far {far}") })
            .set("camera", format!("pos {pos:?} az {azd}° alt {altd}°"))
    };
    if idx < 2 {
        rep.sample(cj);
    }
    let mut fp = FirstPerson::new();
    fp.pos = vec3(pos[0], pos[1], pos[2]);
    fp.rotate_to(degs(azd), degs(altd));
    let half = [rng.f32_in(2.0, 20.0), rng.f32_in(2.0, 20.0)];
    let built = catch(|| {
        let cam = Camera::new((bw, bh));
        let cam = match vp_form {
            0 => cam.viewport((l..r, t..b)),
            1 => cam.viewport((l..=r - 1, t..=b - 1)),
            2 => cam.viewport(vec2(l, t)..vec2(r, b)),
            // open-ended forms reach to the frame's edge
            3 => cam.viewport((l.., t..)),
            _ => cam.viewport((..r, ..b)),
        };
        let cam = if ortho { cam.orthographic(pt3(-half[0], -half[1], near)..pt3(half[0], half[1], far)) } else { cam.perspective(f, near..far) };
        cam.mode(fp)
    });
    let cam = match built {
        Ok(c) => c,
        Err(e) => {
            rep.violation("cam.builder_panicked", format!("Camera builder panicked (viewport partly outside = {partly_outside}): {e}"), cj());
            return;
        }
    };
    if r > bw || b > bh {
        rep.count("camera.viewport_partly_outside_frame");
    }
    // dims = the intersection
    // (the `dims` accessor is not in the statement; confinement is decided by
    // the matrices below and by the flood test on real drawing)
    if cam.dims != (ir - il, ib - it) {
        rep.count("camera.dims_accessor_differs_from_the_intersection(not a clause)");
    }
    // oracle matrices
    let (wv, hv) = ((ir - il) as f64, (ib - it) as f64);
    let (az, alt) = (fp.heading.az().to_rads() as f64, fp.heading.alt().to_rads() as f64);
    let w2v = fp_w2v(pos.map(|x| x as f64), az, alt);
    let proj: M4 = if ortho {
        let (hx, hy, n, fa) = (half[0] as f64, half[1] as f64, near as f64, far as f64);
        [[1.0 / hx, 0.0, 0.0, 0.0], [0.0, 1.0 / hy, 0.0, 0.0], [0.0, 0.0, 2.0 / (fa - n), -(fa + n) / (fa - n)], [0.0, 0.0, 0.0, 1.0]]
    } else {
        let (fd, n, fa) = (f as f64, near as f64, far as f64);
        let a = wv / hv;
        [[fd, 0.0, 0.0, 0.0], [0.0, fd * a, 0.0, 0.0], [0.0, 0.0, (fa + n) / (fa - n), 2.0 * fa * n / (n - fa)], [0.0, 0.0, 1.0, 0.0]]
    };
    let w2p = geo::mul4(&proj, &w2v);
    // a world point in front of the camera, inside the volume
    let depth = rng.f64_in(near as f64 * 1.5, (far as f64 * 0.8).min(near as f64 * 60.0));
    let (nx, ny) = (rng.f64_in(-0.85, 0.85), rng.f64_in(-0.85, 0.85));
    // invert: choose view coords then map to world with the oracle pose
    let view = if ortho { [nx * half[0] as f64, ny * half[1] as f64, depth] } else { [nx * depth / f as f64, ny * depth / (f as f64 * wv / hv), depth] };
    let v2w = geo::inverse_n(&w2v).unwrap();
    let world = geo::apply4(&v2w, [view[0], view[1], view[2], 1.0]);
    let wp = [world[0] as f32, world[1] as f32, world[2] as f32];
    let clip_exp = geo::apply4(&w2p, [wp[0] as f64, wp[1] as f64, wp[2] as f64, 1.0]);
    let clip_got = cam.world_to_project().apply(&pt3::<f32, World>(wp[0], wp[1], wp[2])).0.map(|x| x as f64);
    let cscale = clip_exp.iter().fold(1.0f64, |a, x| a.max(x.abs()));
    let e = (0..4).map(|k| (clip_exp[k] - clip_got[k]).abs()).fold(0.0, f64::max) / cscale;
    rep.worst("camera_clip_coordinate_rel_err", e, 3e-4, String::new);
    if !(e <= 3e-4) {
        rep.violation("cam.world_to_project_wrong", format!("world point {wp:?}: world_to_project gives clip {clip_got:?}, pinhole geometry gives {clip_exp:?}"), cj());
        return;
    }
    rep.count("camera.matrix_probes");
    // expected pixel and reciprocal depth
    let (sx, sy) = (il as f64 + wv / 2.0 * (1.0 + clip_exp[0] / clip_exp[3]), it as f64 + hv / 2.0 * (1.0 + clip_exp[1] / clip_exp[3]));
    let rz = 1.0 / clip_exp[3];
    // end to end: a tiny triangle (±0.35 px) around the point, rendered through Camera::render
    let px_world = |dx: f64, dy: f64| -> [f32; 3] {
        // move in view space so that the screen offset is (dx,dy) px
        let (vx, vy) = if ortho { (dx * 2.0 / wv * half[0] as f64, dy * 2.0 / hv * half[1] as f64) } else { (dx * 2.0 / wv * depth / f as f64, dy * 2.0 / hv * depth / (f as f64 * wv / hv)) };
        let w = geo::apply4(&v2w, [view[0] + vx, view[1] + vy, view[2], 1.0]);
        [w[0] as f32, w[1] as f32, w[2] as f32]
    };
    // skip points whose pixel is ambiguous (close to a pixel border)
    let (fx, fy) = (sx - sx.floor(), sy - sy.floor());
    if fx < 0.2 || fx > 0.8 || fy < 0.2 || fy > 0.8 {
        rep.skip("end_to_end.point_near_pixel_border");
        return;
    }
    let tri_pts = [px_world(-0.9, -0.7), px_world(0.9, -0.7), px_world(0.0, 1.1)];
    let verts: Vec<Vertex<Point3<re::render::Model>, f32>> = tri_pts.iter().map(|p| vertex(pt3(p[0], p[1], p[2]), 1.0)).collect();
    let tris = [Tri([0usize, 1, 2])];
    let shader = Shader::new(|v: Vertex<Point3<re::render::Model>, f32>, (m, _): (&Mat4x4<ModelToProj>, ())| vertex(m.apply(&v.pos), v.attrib), |_f: Frag<f32>| Some(pack(0x00AB_CDEF)));
    let mut cv = Canvas::new(bw, bh, (0, 0, bw, bh), |_, _| 0x1111_1111, |_, _| 0.0);
    // (no depth test: where the camera puts a point must not depend on the
    // depth convention or on Context's defaults)
    let ctx = Context { face_cull: None, depth_test: None, ..Context::default() };
    let to_world = Mat4x4::identity();
    let res = catch(|| {
        let mut fb = Framebuf { color_buf: &mut cv.col, depth_buf: &mut cv.dep };
        cam.render(&tris, &verts, &to_world, &shader, (), &mut fb, &ctx);
    });
    if let Err(e) = res {
        rep.violation("cam.render_panicked", format!("Camera::render panicked: {e}"), cj());
        return;
    }
    let (ex, ey) = (sx.floor() as u32, sy.floor() as u32);
    let mut lit = vec![];
    for y in 0..bh {
        for x in 0..bw {
            if cv.col[[x, y]] != 0x1111_1111 {
                lit.push((x, y));
                if !(x >= il && x < ir && y >= it && y < ib) {
                    rep.violation("cam.drew_outside_viewport_intersection", format!("pixel ({x},{y}) lit outside the intersection ({il},{it})..({ir},{ib})"), cj());
                    return;
                }
            }
        }
    }
    if !lit.contains(&(ex, ey)) {
        rep.violation("cam.point_rendered_at_wrong_pixel", format!("a small triangle around world point {wp:?} should light pixel ({ex},{ey}) (screen {sx:.2},{sy:.2}); lit pixels: {:?}", &lit[..lit.len().min(6)]), cj());
        return;
    }
    if lit.iter().any(|&(x, y)| (x as i64 - ex as i64).abs() > 2 || (y as i64 - ey as i64).abs() > 2) {
        rep.violation("cam.point_rendered_at_wrong_pixel", format!("pixels far from ({ex},{ey}) lit: {:?}", &lit[..lit.len().min(8)]), cj());
        return;
    }
    let gz = cv.dep[[ex, ey]] as f64;
    if !((gz - rz).abs() <= 0.01 * rz) {
        rep.violation("cam.point_rendered_at_wrong_depth", format!("depth buffer at ({ex},{ey}) holds {gz}, the point's reciprocal depth is {rz}"), cj());
        return;
    }
    rep.count("camera.end_to_end_renders");

    // Confinement: a quad covering far more than the view volume's cross
    // section at this depth must light exactly the intersection rectangle.
    let big = |sx: f64, sy: f64| -> [f32; 3] {
        let (vx, vy) = if ortho { (sx * 3.0 * half[0] as f64, sy * 3.0 * half[1] as f64) } else { (sx * 3.0 * depth / f as f64, sy * 3.0 * depth / (f as f64 * wv / hv)) };
        let w = geo::apply4(&v2w, [vx, vy, depth, 1.0]);
        [w[0] as f32, w[1] as f32, w[2] as f32]
    };
    let quad = [big(-1.0, -1.0), big(1.0, -1.0), big(1.0, 1.0), big(-1.0, 1.0)];
    let verts: Vec<Vertex<Point3<re::render::Model>, f32>> = quad.iter().map(|p| vertex(pt3(p[0], p[1], p[2]), 1.0)).collect();
    let tris = [Tri([0usize, 1, 2]), Tri([0usize, 2, 3])];
    let mut cv = Canvas::new(bw, bh, (0, 0, bw, bh), |_, _| 0x1111_1111, |_, _| 0.0);
    let res = catch(|| {
        let mut fb = Framebuf { color_buf: &mut cv.col, depth_buf: &mut cv.dep };
        cam.render(&tris, &verts, &to_world, &shader, (), &mut fb, &ctx);
    });
    if let Err(e) = res {
        rep.violation("cam.render_panicked", format!("Camera::render panicked on a quad covering the whole view: {e}"), cj());
        return;
    }
    // The two triangles of the quad share the diagonal NDC y = x, and each is
    // clipped to the viewport rectangle and re-triangulated as a fan: every
    // vertex of the pieces is a corner of the rectangle, so every internal
    // edge lies on one of its two diagonals. Pixel centres on those (exactly
    // on them when the rectangle's sides are commensurable) are inside C04's
    // tolerance band and may be left out; nothing else may.
    let (fl, ft, fr, fb) = (il as f64, it as f64, ir as f64, ib as f64);
    let mut on_diagonal = 0u64;
    for y in 0..bh {
        for x in 0..bw {
            let lit = cv.col[[x, y]] != 0x1111_1111;
            let inside = x >= il && x < ir && y >= it && y < ib;
            if lit && !inside {
                rep.violation("cam.drew_outside_viewport_intersection", format!("a quad covering the whole view lit pixel ({x},{y}) outside the intersection ({il},{it})..({ir},{ib})"), cj());
                return;
            }
            if !lit && inside {
                let c = (x as f64 + 0.5, y as f64 + 0.5);
                let d = geo::seg_dist(c, (fl, ft), (fr, fb)).min(geo::seg_dist(c, (fr, ft), (fl, fb)));
                if d < 0.02 {
                    on_diagonal += 1;
                } else {
                    rep.violation("cam.viewport_not_filled", format!("a quad covering the whole view left pixel ({x},{y}) of the intersection ({il},{it})..({ir},{ib}) undrawn ({d:.3} px from the nearest diagonal)"), cj());
                    return;
                }
            }
        }
    }
    if on_diagonal > 0 {
        rep.add("camera.flood_pixels_left_out_on_a_fan_diagonal(allowed band)", on_diagonal);
    }
    rep.count("camera.confinement_floods");
}

pub fn run(cfg: &Cfg, rep: &mut Report) {
    rep.rule = "perspective: focal 0.05..20, aspect 0.1..10, near 0.01..100, far/near up to 1e4, probes inside/outside each face; orthographic boxes of extent 0.01..100 anywhere in ±50; viewport rectangles up to 4000 px; first-person poses from look_at (incl. straight up/down, axis-aligned, azimuth ±180°), rotate_to and rotate with wrap/clamp; cameras with viewports inside and partly outside frames ≤ 64², perspective and orthographic, matrix-level and end-to-end (a sub-pixel triangle rendered through Camera::render); non-trivial = all; distinct by hash of the parameters".into();
    rep.assumptions.push("probes within 1e-4 (relative) of a volume face are skipped; the near/far tolerance follows the cancellation in e22/e23 for large far/near".into());
    rep.assumptions.push("a requested viewport lying wholly outside the frame is outside the property's quantifier ('partly outside') and is not generated".into());
    rep.run_stream(cfg, 0, "perspective", cfg.n(400_000, 40_000_000), |rng, i, rep| {
        perspective_case(rng, rep);
        if i < 1 {
            rep.sample(|| Json::obj().set("kind", "perspective(focal, aspect, near..far) with 8 probes"));
        }
    });
    rep.run_stream(cfg, 1, "orthographic", cfg.n(300_000, 30_000_000), |rng, _, rep| ortho_case(rng, rep));
    rep.run_stream(cfg, 2, "viewport", cfg.n(300_000, 30_000_000), |rng, _, rep| viewport_case(rng, rep));
    rep.run_stream(cfg, 3, "first_person", cfg.n(400_000, 40_000_000), |rng, _, rep| first_person_case(rng, rep));
    rep.run_stream(cfg, 4, "camera", cfg.n(60_000, 6_000_000), |rng, i, rep| camera_case(rng, rep, i));
    rep.floor("perspective.probes_inside", 200_000);
    rep.floor("perspective.probes_outside", 200_000);
    rep.floor("orthographic.probes_inside", 100_000);
    rep.floor("viewport.rectangles", 100_000);
    rep.floor("first_person.poses_checked", 200_000);
    rep.floor("first_person.look_at_checked", 50_000);
    rep.floor("camera.matrix_probes", 20_000);
    rep.floor("camera.end_to_end_renders", 5_000);
    rep.floor("camera.viewport_partly_outside_frame", 5_000);
    rep.floor("camera.confinement_floods", 5_000);
    for k in 0..5 {
        rep.floor(&format!("camera.viewport_form_{k}"), 2_000);
    }
    let _ = (rads(0.0), turns(0.0));
    let _: Option<Vec3> = None;
}
