//! Byte-level mutation engine for the codec monitors (C13, C14).

use crate::Rng;

pub fn mutate(rng: &mut Rng, seed: &[u8], dict: &[&[u8]]) -> Vec<u8> {
    let mut v = seed.to_vec();
    let n = 1 + rng.below(4);
    for _ in 0..n {
        match rng.below(10) {
            0 => {
                if !v.is_empty() {
                    let i = rng.usize(v.len());
                    v[i] ^= 1 << rng.below(8);
                }
            }
            1 => {
                let i = rng.usize(v.len() + 1);
                v.truncate(i);
            }
            2 | 3 => {
                let i = rng.usize(v.len() + 1);
                let t = dict[rng.usize(dict.len())];
                v.splice(i..i, t.iter().cloned());
            }
            4 => {
                if !v.is_empty() {
                    let i = rng.usize(v.len());
                    v.remove(i);
                }
            }
            5 => {
                if !v.is_empty() {
                    let i = rng.usize(v.len());
                    v[i] = rng.u64() as u8;
                }
            }
            6 | 7 => {
                // replace a whitespace-delimited token by a dictionary entry
                let toks: Vec<(usize, usize)> = {
                    let mut out = vec![];
                    let mut start = None;
                    for (i, b) in v.iter().enumerate() {
                        let ws = b.is_ascii_whitespace();
                        match (start, ws) {
                            (None, false) => start = Some(i),
                            (Some(s), true) => {
                                out.push((s, i));
                                start = None;
                            }
                            _ => {}
                        }
                    }
                    if let Some(s) = start {
                        out.push((s, v.len()));
                    }
                    out
                };
                if !toks.is_empty() {
                    let (a, b) = toks[rng.usize(toks.len().min(8))];
                    let t = dict[rng.usize(dict.len())];
                    v.splice(a..b, t.iter().cloned());
                }
            }
            8 => {
                let (i, j) = (rng.usize(v.len() + 1), rng.usize(v.len() + 1));
                let (a, b) = (i.min(j), i.max(j));
                let chunk = v[a..b.min(a + 64)].to_vec();
                v.splice(a..a, chunk);
            }
            _ => {
                let (i, j) = (rng.usize(v.len() + 1), rng.usize(v.len() + 1));
                let (a, b) = (i.min(j), i.max(j));
                v.drain(a..b.min(a + 16));
            }
        }
    }
    v
}

pub fn show(bytes: &[u8]) -> String {
    let mut s = String::new();
    for &b in bytes.iter().take(400) {
        match b {
            b'\n' => s.push_str("\\n"),
            b'\r' => s.push_str("\\r"),
            b'\t' => s.push_str("\\t"),
            b'\\' => s.push_str("\\\\"),
            0x20..=0x7e => s.push(b as char),
            _ => s.push_str(&format!("\\x{b:02x}")),
        }
    }
    if bytes.len() > 400 {
        s.push_str(&format!("…(+{} bytes)", bytes.len() - 400));
    }
    s
}
