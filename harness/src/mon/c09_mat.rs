//! C09 — transform algebra: compose, apply, invert, determinant.
//!
//! Event: matrix elements and transformed probes returned by the library.
//! Oracle: the same algebra in f64 on the exact f32 inputs, plus algebraic
//! relations between library results (then ≡ compose swapped, bit-exact).

use crate::geo::{self, M3, M4};
use crate::{catch, f32v, Cfg, Hasher, Json, Report, Rng};
use re::math::angle::rads;
use re::math::mat::{orient_y, orient_z, rotate_x, rotate_y, rotate_z, scale, translate, Mat3x3, Mat4x4, RealToReal};
use re::math::point::{pt2, pt3};
use re::math::vec::{vec2, vec3, Vec3};

type T4 = Mat4x4<RealToReal<3>>;
type T3 = Mat3x3<RealToReal<2>>;

fn to64(m: &T4) -> M4 {
    m.0.map(|r| r.map(|x| x as f64))
}

#[derive(Clone, Debug)]
enum Factor {
    Translate([f32; 3]),
    Scale([f32; 3]),
    RotX(f32),
    RotY(f32),
    RotZ(f32),
    Shear(usize, usize, f32),
    Basis([[f32; 3]; 3]),
    Perm([usize; 4], [f32; 4]),
}

fn angle(rng: &mut Rng) -> f32 {
    match rng.below(4) {
        0 => (rng.int(-8, 8) as f64 * std::f64::consts::FRAC_PI_2) as f32, // multiples of 90°: zero diagonals
        1 => {
            let k = (rng.int(-4, 4) as f64 * std::f64::consts::FRAC_PI_2) as f32;
            rng.ulp_nudge(k)
        }
        2 if rng.chance(1, 4) => rng.sign() * rng.log_f32(1e-6, 1e4), // tiny and many revolutions
        _ => rng.f32_in(-7.0, 7.0),
    }
}

fn gen_factor(rng: &mut Rng) -> Factor {
    match rng.below(9) {
        0 => Factor::Translate([rng.f32_in(-5.0, 5.0), rng.f32_in(-5.0, 5.0), rng.f32_in(-5.0, 5.0)]),
        1 => {
            if rng.chance(1, 3) {
                // a uniform scale of any magnitude is perfectly conditioned
                // (κ = max(s, 1)/min(s, 1) through the affine row); small
                // determinants come from here: scale(0.03) has det 2.7e-5
                let k = rng.sign() * rng.log_f32(0.03, 30.0);
                Factor::Scale([k, k * if rng.bool() { 1.0 } else { -1.0 }, k])
            } else {
                let mut s = || rng.sign() * rng.log_f32(0.25, 4.0);
                Factor::Scale([s(), s(), s()])
            }
        }
        2 => Factor::RotX(angle(rng)),
        3 => Factor::RotY(angle(rng)),
        4 => Factor::RotZ(angle(rng)),
        5 => {
            let i = rng.usize(3);
            let j = (i + 1 + rng.usize(2)) % 3;
            Factor::Shear(i, j, rng.f32_in(-1.5, 1.5))
        }
        6 => Factor::Basis(std::array::from_fn(|_| [rng.f32_in(-2.0, 2.0), rng.f32_in(-2.0, 2.0), rng.f32_in(-2.0, 2.0)])),
        _ => {
            // permutation-like: forces row exchanges in elimination
            let mut p = [0usize, 1, 2, 3];
            // keep the affine last row in place (it is an affine transform)
            let mut q = [0usize, 1, 2];
            rng.shuffle(&mut q);
            p[..3].copy_from_slice(&q);
            Factor::Perm(p, [rng.sign() * rng.log_f32(0.3, 3.0), rng.sign() * rng.log_f32(0.3, 3.0), rng.sign() * rng.log_f32(0.3, 3.0), 1.0])
        }
    }
}

fn build(f: &Factor) -> T4 {
    match f {
        Factor::Translate(t) => translate(vec3(t[0], t[1], t[2])),
        Factor::Scale(s) => scale(vec3(s[0], s[1], s[2])),
        Factor::RotX(a) => rotate_x(rads(*a)),
        Factor::RotY(a) => rotate_y(rads(*a)),
        Factor::RotZ(a) => rotate_z(rads(*a)),
        Factor::Shear(i, j, k) => {
            let mut m = [[0.0f32; 4]; 4];
            for d in 0..4 {
                m[d][d] = 1.0;
            }
            m[*i][*j] = *k;
            Mat4x4::new(m)
        }
        Factor::Basis(b) => Mat4x4::from_basis(vec3(b[0][0], b[0][1], b[0][2]), vec3(b[1][0], b[1][1], b[1][2]), vec3(b[2][0], b[2][1], b[2][2])),
        Factor::Perm(p, d) => {
            let mut m = [[0.0f32; 4]; 4];
            for r in 0..4 {
                m[r][p[r]] = d[r];
            }
            Mat4x4::new(m)
        }
    }
}

fn max_abs_diff(a: &M4, b: &M4) -> f64 {
    let mut d = 0.0f64;
    for i in 0..4 {
        for j in 0..4 {
            let e = (a[i][j] - b[i][j]).abs();
            d = if e.is_nan() { f64::INFINITY } else { d.max(e) };
        }
    }
    d
}

fn product_case(rng: &mut Rng, rep: &mut Report, idx: u64) {
    let n = 1 + rng.usize(6);
    let factors: Vec<Factor> = (0..n).map(|_| gen_factor(rng)).collect();
    let mats: Vec<T4> = factors.iter().map(build).collect();
    let mut hs = Hasher::new();
    for m in &mats {
        for r in &m.0 {
            hs.f32s(r);
        }
    }
    rep.case(hs.get(), n > 1);
    let cj = || Json::obj().set("factors", Json::Arr(factors.iter().map(|f| Json::Str(format!("{f:?}"))).collect()));
    if idx < 2 {
        rep.sample(cj);
    }
    // left-to-right: m = f0.then(f1).then(f2)...  ==  fn ∘ … ∘ f1 ∘ f0
    let mut m = mats[0].clone();
    let mut m64 = to64(&mats[0]);
    for k in 1..n {
        let by_then = m.then(&mats[k]);
        let by_compose = mats[k].compose(&m);
        // "then() is compose() with the operands swapped": the same product;
        // identical bits as the library has it today are counted, a separate
        // loop may sum in another order (a few ulps of the largest term)
        let same_bits = by_then.0.map(|r| r.map(f32::to_bits)) == by_compose.0.map(|r| r.map(f32::to_bits));
        if same_bits {
            rep.count("then_bit_identical_to_swapped_compose");
        }
        let big = by_then.0.iter().flatten().chain(by_compose.0.iter().flatten()).fold(0.0f32, |a, x| a.max(x.abs())).max(1.0);
        let max_d = by_then.0.iter().flatten().zip(by_compose.0.iter().flatten()).fold(0.0f32, |a, (x, y)| a.max((x - y).abs()));
        if !same_bits && !(max_d <= 16.0 * f32::EPSILON * big * big) {
            rep.violation("mat.then_ne_compose_swapped", "a.then(b) differs from b.compose(a)".into(), cj());
            return;
        }
        m = by_then;
        m64 = geo::mul4(&to64(&mats[k]), &m64);
        rep.count("compositions");
    }
    let norm = geo::norm_n(&m64).max(1.0);
    let e = max_abs_diff(&to64(&m), &m64);
    rep.worst("compose_elements_err/norm", e / norm, 1e-5, String::new);
    if !(e <= 1e-5 * norm) {
        rep.violation("mat.compose_wrong", format!("composed matrix differs from the f64 product by {e:.3e} (norm {norm:.3})"), cj().set("got", format!("{:?}", m.0)));
        return;
    }
    // applying the composite equals applying the parts in order
    for _ in 0..3 {
        let p = [rng.f32_in(-10.0, 10.0), rng.f32_in(-10.0, 10.0), rng.f32_in(-10.0, 10.0)];
        let whole = m.apply_pt(&pt3(p[0], p[1], p[2])).0;
        let mut q = pt3(p[0], p[1], p[2]);
        let mut q64 = [p[0] as f64, p[1] as f64, p[2] as f64, 1.0];
        let mut mag = 10.0f64;
        for mk in &mats {
            q = mk.apply_pt(&q);
            q64 = geo::apply4(&to64(mk), q64);
            mag = mag.max(q64.iter().fold(0.0f64, |a, x| a.max(x.abs())));
        }
        let tol = 2e-5 * mag * n as f64;
        let (e1, e2) = ((0..3).map(|c| (whole[c] as f64 - q64[c]).abs()).fold(0.0, f64::max), (0..3).map(|c| (q.0[c] as f64 - q64[c]).abs()).fold(0.0, f64::max));
        rep.worst("apply_composite_err/tol", e1.max(e2) / tol, 1.0, String::new);
        if !(e1 <= tol && e2 <= tol) {
            rep.violation("mat.apply_composite_ne_sequence", format!("point {p:?}: composite gives {whole:?}, parts in order give {:?}, f64 gives {:?}", q.0, &q64[..3]), cj());
            return;
        }
        // vectors: documented "implicit 1" semantics — apply(v) == apply_pt(v as point)
        // (the statement's "linear part on vectors" is also accepted: the
        // library marks its implicit 1 for vectors as a TODO)
        let v = m.apply(&vec3(p[0], p[1], p[2])).0;
        let lin64: [f64; 3] = std::array::from_fn(|i| (0..3).map(|j| to64(&m)[i][j] * p[j] as f64).sum());
        let linear_only = (0..3).all(|c| (v[c] as f64 - lin64[c]).abs() <= tol);
        if v.map(f32::to_bits) != whole.map(f32::to_bits) && !linear_only {
            rep.violation("mat.apply_vec_ne_documented", format!("apply(&vec) = {v:?} differs from apply_pt of the same coordinates {whole:?} (documented implicit homogeneous 1)"), cj());
            return;
        }
        rep.count("probe_points");
    }
    // determinant: vs f64 and multiplicative
    let det = m.determinant() as f64;
    let det64 = geo::det4(&m64);
    let dets: f64 = mats.iter().map(|x| x.determinant() as f64).product();
    // cofactor expansion in f32 cancels: the error is relative to the
    // Hadamard bound (product of the row norms), not to |det|
    let hadamard = |m: &M4| -> f64 { m.iter().map(|r| r.iter().map(|x| x * x).sum::<f64>().sqrt()).product() };
    let h_all: f64 = mats.iter().map(|x| hadamard(&to64(x))).product();
    let dscale = hadamard(&m64).max(h_all).max(1e-6);
    rep.worst("determinant_err/hadamard_bound", (det - det64).abs() / dscale, 1e-5, String::new);
    if !((det - det64).abs() <= 1e-5 * dscale) || !((det - dets).abs() <= 2e-5 * dscale) {
        rep.violation("mat.determinant_wrong", format!("determinant() = {det}, f64 gives {det64}, product of the factors' determinants {dets}"), cj());
        return;
    }
    // inverse
    // (the matrix actually inverted is the library's f32 product, not the
    // f64 one: the compose error is not charged to inverse())
    let m64 = to64(&m);
    let Some(inv64) = geo::inverse_n(&m64) else {
        rep.skip("inverse.singular_in_f64");
        return;
    };
    let cond = geo::norm_n(&m64) * geo::norm_n(&inv64);
    if !(cond <= 1e3) {
        rep.skip("inverse.condition_number_above_1e3");
        return;
    }
    rep.count(if cond > 100.0 { "inverse.cond_1e2_1e3" } else if cond > 10.0 { "inverse.cond_1e1_1e2" } else { "inverse.cond_below_10" });
    // the library documents a debug-mode panic for |det| <= f32::EPSILON
    // ("near-singular"), whatever the conditioning: gated on the library's
    // own f32 determinant, with a factor 4 for its rounding
    if !(m.determinant().abs() > 4.0 * f32::EPSILON) {
        rep.skip("inverse.small_determinant(documented debug panic zone)");
        return;
    }
    if det64.abs() < 1e-4 {
        rep.count("inverse.well_conditioned_with_small_determinant");
    }
    let inv = match catch(|| m.inverse()) {
        Ok(i) => i,
        Err(e) => {
            rep.violation("mat.inverse_panicked", format!("inverse() panicked on a matrix with condition number {cond:.1}, det {det64:.3e}: {e}"), cj());
            return;
        }
    };
    rep.count("inverses");
    let pivots_needed = (0..3).any(|i| m.0[i][i] == 0.0 || m.0[i][i].abs() < 0.3 * m.0.iter().map(|r| r[i].abs()).fold(0.0, f32::max));
    if pivots_needed {
        rep.count("inverses_needing_row_exchange");
    }
    let i64m = to64(&inv);
    let (p1, p2) = (geo::mul4(&m64, &i64m), geo::mul4(&i64m, &m64));
    let id = geo::ident4();
    let e = max_abs_diff(&p1, &id).max(max_abs_diff(&p2, &id));
    let tol = 3e-5 * cond + 1e-5;
    rep.worst("inverse_residual/tol", e / tol, 1.0, || format!("cond {cond:.1}"));
    if !(e <= tol) {
        rep.violation("mat.inverse_wrong", format!("M·M⁻¹ and M⁻¹·M differ from I by {e:.3e} (cond {cond:.1}, tol {tol:.2e})"), cj().set("inverse", format!("{:?}", inv.0)));
        return;
    }
    // and through the library's own compose
    let li = m.compose(&inv);
    let e2 = max_abs_diff(&to64(&li), &id);
    if !(e2 <= 2.0 * tol) {
        rep.violation("mat.inverse_wrong", format!("m.compose(&m.inverse()) differs from I by {e2:.3e}"), cj());
    }
}

/// Defining effects of the constructors.
fn constructor_case(rng: &mut Rng, rep: &mut Report) {
    let p = [rng.f32_in(-10.0, 10.0), rng.f32_in(-10.0, 10.0), rng.f32_in(-10.0, 10.0)];
    let t = [rng.f32_in(-10.0, 10.0), rng.f32_in(-10.0, 10.0), rng.f32_in(-10.0, 10.0)];
    let a = angle(rng);
    let mut hs = Hasher::new();
    hs.f32s(&p).f32s(&t).f32(a);
    rep.case(hs.get(), true);
    let cj = || Json::obj().set("p", f32v(&p)).set("t", f32v(&t)).set("angle_rad", a);
    let pp = pt3(p[0], p[1], p[2]);
    let close = |got: [f32; 3], exp: [f64; 3], tol: f64| (0..3).all(|i| (got[i] as f64 - exp[i]).abs() <= tol);
    let p64 = p.map(|x| x as f64);
    let (s, c) = ((a as f64).sin(), (a as f64).cos());
    let mut bad: Option<String> = None;
    let mut chk = |name: &str, got: [f32; 3], exp: [f64; 3]| {
        // (an angle of 1e4 rad is known to 6e-4 rad at best: a representation
        // in another unit or an f32 range reduction costs one rounding of it)
        if bad.is_none() && !close(got, exp, 2e-5 * 20.0 + 2.0 * 1.2e-7 * (a.abs() as f64) * 17.5) {
            bad = Some(format!("{name}: got {got:?}, expected {exp:?}"));
        }
    };
    chk("translate(t).apply_pt(p)", translate(vec3(t[0], t[1], t[2])).apply_pt(&pp).0, [p64[0] + t[0] as f64, p64[1] + t[1] as f64, p64[2] + t[2] as f64]);
    chk("scale(t).apply_pt(p)", scale(vec3(t[0], t[1], t[2])).apply_pt(&pp).0, [p64[0] * t[0] as f64, p64[1] * t[1] as f64, p64[2] * t[2] as f64]);
    // rotation sense as documented by the library's own examples:
    // rotate_x(90°): z→y, y→−z; rotate_y(90°): x→z, z→−x; rotate_z(90°): y→x, x→−y
    chk("rotate_x(a).apply_pt(p)", rotate_x(rads(a)).apply_pt(&pp).0, [p64[0], c * p64[1] + s * p64[2], -s * p64[1] + c * p64[2]]);
    chk("rotate_y(a).apply_pt(p)", rotate_y(rads(a)).apply_pt(&pp).0, [c * p64[0] - s * p64[2], p64[1], s * p64[0] + c * p64[2]]);
    chk("rotate_z(a).apply_pt(p)", rotate_z(rads(a)).apply_pt(&pp).0, [c * p64[0] + s * p64[1], -s * p64[0] + c * p64[1], p64[2]]);
    chk("scale(t).apply(v) (linear part)", scale(vec3(t[0], t[1], t[2])).apply(&vec3(p[0], p[1], p[2])).0, [p64[0] * t[0] as f64, p64[1] * t[1] as f64, p64[2] * t[2] as f64]);
    chk("rotate_z(a).apply(v) (linear part)", rotate_z(rads(a)).apply(&vec3(p[0], p[1], p[2])).0, [c * p64[0] + s * p64[1], -s * p64[0] + c * p64[1], p64[2]]);
    // from_basis
    let b: [[f32; 3]; 3] = std::array::from_fn(|_| [rng.f32_in(-2.0, 2.0), rng.f32_in(-2.0, 2.0), rng.f32_in(-2.0, 2.0)]);
    let fb: T4 = Mat4x4::from_basis(vec3(b[0][0], b[0][1], b[0][2]), vec3(b[1][0], b[1][1], b[1][2]), vec3(b[2][0], b[2][1], b[2][2]));
    chk("from_basis(i,j,k).apply_pt(p)", fb.apply_pt(&pp).0, std::array::from_fn(|r| (0..3).map(|k| p64[k] * b[k][r] as f64).sum()));
    if let Some(b) = bad {
        rep.violation("mat.constructor_effect", b, cj());
        return;
    }
    rep.count("constructor_effects");
    // rotations: length preserving, det = 1, transpose = inverse
    for (name, r) in [("rotate_x", rotate_x(rads(a))), ("rotate_y", rotate_y(rads(a))), ("rotate_z", rotate_z(rads(a))), ("rotate_x∘rotate_y∘rotate_z", rotate_x(rads(a)).then(&rotate_y(rads(t[0]))).then(&rotate_z(rads(t[1]))))] {
        let q = r.apply_pt(&pp).0;
        let (l0, l1) = (p64.iter().map(|x| x * x).sum::<f64>().sqrt(), q.iter().map(|x| (*x as f64).powi(2)).sum::<f64>().sqrt());
        let det = r.determinant() as f64;
        let tr = r.clone().transpose();
        let inv = catch(|| r.inverse());
        let ok_inv = match &inv {
            Ok(i) => max_abs_diff(&to64(i), &to64(&tr)) <= 1e-5,
            Err(_) => false,
        };
        if !((l0 - l1).abs() <= 1e-5 * l0.max(1.0)) || !((det - 1.0).abs() <= 1e-5) || !ok_inv {
            rep.violation("mat.rotation_not_rigid", format!("{name}: |p| {l0} -> {l1}, det {det}, transpose == inverse: {ok_inv}"), cj());
            return;
        }
        rep.count("rotations_checked");
    }
    // orient_y / orient_z
    let mut ny = [rng.f32_in(-1.0, 1.0), rng.f32_in(-1.0, 1.0), rng.f32_in(-1.0, 1.0)];
    let mut x = [rng.f32_in(-1.0, 1.0), rng.f32_in(-1.0, 1.0), rng.f32_in(-1.0, 1.0)];
    // every other case with unit inputs (oblique to each other as a rule):
    // there the docs promise an orthonormal result, i.e. a rotation, and
    // lengths are judged; for other lengths only directions are
    let unit_inputs = rng.bool();
    if unit_inputs {
        let nrm = |v: [f32; 3]| {
            let l = v.iter().map(|c| (*c as f64).powi(2)).sum::<f64>().sqrt().max(1e-12);
            v.map(|c| (c as f64 / l) as f32)
        };
        ny = nrm(ny);
        x = nrm(x);
    }
    let n64 = ny.map(|v| v as f64);
    let x64 = x.map(|v| v as f64);
    let cr = geo::cross3(x64, n64);
    if geo::len3(n64) > 0.2 && geo::len3(x64) > 0.2 && geo::len3(cr) > 0.2 {
        let (vy, vx) = (vec3::<f32, ()>(ny[0], ny[1], ny[2]), vec3::<f32, ()>(x[0], x[1], x[2]));
        for which in 0..2 {
            let m = catch(|| if which == 0 { orient_y(vy, vx) } else { orient_z(vy, vx) });
            let m = match m {
                Ok(m) => m,
                Err(e) => {
                    rep.violation("mat.orient_panicked", format!("orient panicked: {e}"), cj());
                    return;
                }
            };
            let (ax, ay, az) = (m.apply(&vec3(1.0, 0.0, 0.0)).0.map(|v| v as f64), m.apply(&vec3(0.0, 1.0, 0.0)).0.map(|v| v as f64), m.apply(&vec3(0.0, 0.0, 1.0)).0.map(|v| v as f64));
            let (main, other, name) = if which == 0 { (ay, az, "orient_y") } else { (az, ay, "orient_z") };
            let e_main = (0..3).map(|i| (main[i] - n64[i]).abs()).fold(0.0, f64::max);
            let ortho = geo::dot3(other, n64).abs().max(geo::dot3(other, x64).abs());
            let unit = (geo::len3(other) - 1.0).abs();
            let m64 = to64(&m);
            let lin: M3 = std::array::from_fn(|i| std::array::from_fn(|j| m64[i][j]));
            let det = geo::det3(&lin);
            let ortho_x = geo::dot3(ax, main).abs().max(geo::dot3(ax, other).abs());
            // all three images against the construction the docs describe:
            // the second axis is the normalised cross product that keeps the
            // image of X on the side of the hint `x`, the third completes a
            // right-handed basis (new × other resp. other × new)
            let (want_other, want_x) = if which == 0 {
                let z = geo::cross3(x64, n64);
                let z = z.map(|c| c / geo::len3(z));
                (z, geo::cross3(n64, z))
            } else {
                let y = geo::cross3(n64, x64);
                let y = y.map(|c| c / geo::len3(y));
                (y, geo::cross3(y, n64))
            };
            // conditioning: the cross product of nearly parallel inputs
            let cond = geo::len3(n64) * geo::len3(x64) / geo::len3(cr);
            let e_other = (0..3).map(|i| (other[i] - want_other[i]).abs()).fold(0.0, f64::max);
            let e_x = (0..3).map(|i| (ax[i] - want_x[i]).abs()).fold(0.0, f64::max);
            rep.worst("orient_axis_err/tol", (e_other / (4e-6 * cond)).max(e_x / (4e-6 * cond * geo::len3(n64).max(1.0))), 1.0, String::new);
            let axes_ok = e_other <= 4e-6 * cond && e_x <= 4e-6 * cond * geo::len3(n64).max(1.0);
            // Judged by directions: the docs promise "parallel with the new
            // axis" and an orthogonal, right-handed basis (orthonormal for unit
            // input); what lengths the images get for non-unit input —
            // |new|, 1 and |new| today — is recorded, not demanded.
            let dirn = |v: [f64; 3]| {
                let l = geo::len3(v).max(1e-300);
                v.map(|c| c / l)
            };
            let dmax = |a: [f64; 3], b: [f64; 3]| (0..3).map(|i| (a[i] - b[i]).abs()).fold(0.0, f64::max);
            let dir_ok = dmax(dirn(main), dirn(n64)) <= 2e-6 && dmax(dirn(other), dirn(want_other)) <= 4e-6 * cond && dmax(dirn(ax), dirn(want_x)) <= 4e-6 * cond;
            let ortho_n = geo::dot3(dirn(other), dirn(n64)).abs().max(geo::dot3(dirn(ax), dirn(main)).abs()).max(geo::dot3(dirn(ax), dirn(other)).abs());
            if e_main <= 1e-6 && unit <= 1e-5 && axes_ok && ortho <= 1e-5 && ortho_x <= 1e-5 * geo::len3(n64).max(1.0) {
                rep.count("orient.lengths_as_today(|new|, 1, |new|)");
            }
            // unit inputs: an orthonormal basis — all three images of unit length
            let lens_ok = !unit_inputs || [main, other, ax].iter().all(|v| (geo::len3(*v) - 1.0).abs() <= 2e-5 * cond);
            if unit_inputs {
                rep.count("orient.unit_inputs(lengths judged)");
            }
            if !(dir_ok && ortho_n <= 1e-5 && det > 0.0 && lens_ok) {
                rep.violation("mat.orient_effect", format!("{name}(new={ny:?}, x={x:?}): image of the oriented axis {main:?}, other axis {other:?} (·new={:.2e}, ·x={:.2e}, |.|−1={unit:.2e}), det {det:.3}", geo::dot3(other, n64), geo::dot3(other, x64)), cj());
                return;
            }
            rep.count("orient_checked");
        }
    }
}

/// 3×3 (2-D affine) matrices: compose/then/apply/transpose.
fn mat3_case(rng: &mut Rng, rep: &mut Report) {
    let mut gen = |rng: &mut Rng| -> [[f32; 3]; 3] {
        let a = rng.f32_in(-3.2, 3.2);
        let (s, c) = (a.sin(), a.cos());
        let k = rng.log_f32(0.3, 3.0);
        match rng.below(3) {
            0 => [[c * k, -s * k, rng.f32_in(-5.0, 5.0)], [s * k, c * k, rng.f32_in(-5.0, 5.0)], [0.0, 0.0, 1.0]],
            1 => [[k, rng.f32_in(-1.0, 1.0), 0.0], [0.0, 1.0 / k, 0.0], [0.0, 0.0, 1.0]],
            _ => [[0.0, k, rng.f32_in(-5.0, 5.0)], [-k, 0.0, rng.f32_in(-5.0, 5.0)], [0.0, 0.0, 1.0]],
        }
    };
    let (a, b) = (gen(rng), gen(rng));
    let mut hs = Hasher::new();
    for r in a.iter().chain(b.iter()) {
        hs.f32s(r);
    }
    rep.case(hs.get(), true);
    let (ma, mb): (T3, T3) = (Mat3x3::new(a), Mat3x3::new(b));
    let cj = || Json::obj().set("a", format!("{a:?}")).set("b", format!("{b:?}"));
    let ab = ma.compose(&mb);
    let ba = ma.then(&mb);
    let ba2 = mb.compose(&ma);
    if ba.0.map(|r| r.map(f32::to_bits)) != ba2.0.map(|r| r.map(f32::to_bits)) {
        rep.violation("mat.then_ne_compose_swapped", "3x3: a.then(b) differs from b.compose(a)".into(), cj());
        return;
    }
    let (a64, b64): (M3, M3) = (a.map(|r| r.map(|x| x as f64)), b.map(|r| r.map(|x| x as f64)));
    let exp = geo::mul3(&a64, &b64);
    for i in 0..3 {
        for j in 0..3 {
            if !((ab.0[i][j] as f64 - exp[i][j]).abs() <= 1e-5 * 30.0) {
                rep.violation("mat.compose_wrong", format!("3x3 compose element ({i},{j}) = {} expected {}", ab.0[i][j], exp[i][j]), cj());
                return;
            }
        }
    }
    let p = [rng.f32_in(-10.0, 10.0), rng.f32_in(-10.0, 10.0)];
    let whole = ab.apply_pt(&pt2(p[0], p[1])).0;
    let seq = ma.apply_pt(&mb.apply_pt(&pt2(p[0], p[1]))).0;
    let e64 = geo::apply3(&exp, [p[0] as f64, p[1] as f64, 1.0]);
    let v = ab.apply(&vec2(p[0], p[1])).0;
    // vectors: the documented implicit-1 semantics or the statement's "linear
    // part on vectors" (as for 4×4)
    let lin64 = geo::apply3(&exp, [p[0] as f64, p[1] as f64, 0.0]);
    let vec_ok = (0..2).all(|c| (v[c] as f64 - e64[c]).abs() <= 1e-3) || (0..2).all(|c| (v[c] as f64 - lin64[c]).abs() <= 1e-3);
    if !(0..2).all(|c| (whole[c] as f64 - e64[c]).abs() <= 1e-3 && (seq[c] as f64 - e64[c]).abs() <= 1e-3) || !vec_ok {
        rep.violation("mat.apply_composite_ne_sequence", format!("3x3: composite {whole:?}, sequence {seq:?}, f64 {:?}, apply(vec) {v:?}", &e64[..2]), cj());
        return;
    }
    let tr = ma.clone().transpose();
    if (0..3).any(|i| (0..3).any(|j| tr.0[i][j].to_bits() != a[j][i].to_bits())) {
        rep.violation("mat.transpose_wrong", "3x3 transpose is not the mirror image".into(), cj());
        return;
    }
    rep.count("mat3_checks");
}

/// All 24 row orders of a scaled permutation (plus noise): every pivot
/// pattern of the elimination.
fn pivot_case(rep: &mut Report, rng: &mut Rng, k: u64) {
    // The statement's inverse clause is about *affine* transforms: the last
    // row stays (0,0,0,1) (an inverse specialised for affine matrices, or a
    // debug assertion on that row, is legitimate). All six orders of the three
    // linear rows, with and without noise, plus a translation column; zeros on
    // the diagonal are exact, so every order needs its row exchanges.
    let mut perm = [0usize, 1, 2, 3];
    let mut pool = vec![0usize, 1, 2];
    let mut kk = k % 6;
    for i in 0..3 {
        let f = [2, 1, 1][i];
        perm[i] = pool.remove((kk / f) as usize);
        kk %= f;
    }
    let noisy = (k / 6) % 2 == 1;
    let mut m = [[0.0f32; 4]; 4];
    for r in 0..3 {
        for c in 0..3 {
            m[r][c] = if perm[r] == c { rng.sign() * rng.log_f32(0.5, 2.0) } else if noisy && rng.chance(1, 3) { rng.f32_in(-0.05, 0.05) } else { 0.0 };
        }
        m[r][3] = if rng.chance(1, 2) { rng.f32_in(-5.0, 5.0) } else { 0.0 };
    }
    m[3][3] = 1.0;
    let mut hs = Hasher::new();
    for r in &m {
        hs.f32s(r);
    }
    rep.case(hs.get(), true);
    let mm: T4 = Mat4x4::new(m);
    let m64 = to64(&mm);
    let Some(inv64) = geo::inverse_n(&m64) else { return };
    let cond = geo::norm_n(&m64) * geo::norm_n(&inv64);
    let cj = || Json::obj().set("matrix", format!("{m:?}")).set("row_order", format!("{perm:?}"));
    match catch(|| mm.inverse()) {
        Err(e) => rep.violation("mat.inverse_panicked", format!("inverse() panicked on a scaled permutation (cond {cond:.1}): {e}"), cj()),
        Ok(inv) => {
            let e = max_abs_diff(&geo::mul4(&m64, &to64(&inv)), &geo::ident4()).max(max_abs_diff(&geo::mul4(&to64(&inv), &m64), &geo::ident4()));
            let tol = 3e-5 * cond + 1e-5;
            if !(e <= tol) {
                rep.violation("mat.inverse_wrong", format!("row order {perm:?}: M·M⁻¹ differs from I by {e:.3e}"), cj());
            }
            rep.count(&format!("pivot_pattern.{}{}{}{}", perm[0], perm[1], perm[2], perm[3]));
            rep.count("pivot_inverses");
        }
    }
    // Dense 4×4 matrices whose last row is not (0,0,0,1): every cofactor of
    // determinant() and every row of compose() takes part (in the affine
    // products above a whole row of terms is multiplied by exact zeros).
    let mut d = [[0.0f32; 4]; 4];
    let mut e = [[0.0f32; 4]; 4];
    for r in 0..4 {
        for c in 0..4 {
            d[r][c] = rng.f32_in(-2.0, 2.0);
            e[r][c] = if rng.chance(1, 5) { 0.0 } else { rng.f32_in(-2.0, 2.0) };
        }
    }
    let (dm, em): (T4, T4) = (Mat4x4::new(d), Mat4x4::new(e));
    let (d64, e64) = (to64(&dm), to64(&em));
    let hadamard = |m: &M4| -> f64 { m.iter().map(|r| r.iter().map(|x| x * x).sum::<f64>().sqrt()).product() };
    let cj2 = || Json::obj().set("a", format!("{d:?}")).set("b", format!("{e:?}"));
    for (mat, m64, name) in [(&dm, &d64, "a"), (&em, &e64, "b")] {
        let (det, det64) = (mat.determinant() as f64, geo::det4(m64));
        rep.worst("dense_determinant_err/hadamard_bound", (det - det64).abs() / hadamard(m64).max(1e-6), 4e-6, String::new);
        if !((det - det64).abs() <= 4e-6 * hadamard(m64).max(1e-6)) {
            rep.violation("mat.determinant_wrong", format!("dense 4×4 matrix {name}: determinant() = {det}, f64 gives {det64}"), cj2());
            return;
        }
    }
    let prod = dm.compose(&em);
    let p64 = geo::mul4(&d64, &e64);
    let scale = geo::norm_n(&d64) * geo::norm_n(&e64);
    let err = max_abs_diff(&to64(&prod), &p64);
    rep.worst("dense_compose_err/(norms)", err / scale.max(1e-6), 2e-6, String::new);
    if !(err <= 2e-6 * scale.max(1e-6)) {
        rep.violation("mat.compose_wrong", format!("dense 4×4: a.compose(&b) differs from the f64 product a·b by {err:.3e}"), cj2());
        return;
    }
    let detp = prod.determinant() as f64;
    let want = geo::det4(&d64) * geo::det4(&e64);
    // error of an f32 cofactor expansion of the product: relative to the
    // Hadamard bound of the product's rows, ‖row_i(a)‖·‖b‖
    if !((detp - want).abs() <= 2e-5 * hadamard(&d64) * geo::norm_n(&e64).powi(4)) {
        rep.violation("mat.determinant_wrong", format!("dense 4×4: det(a·b) = {detp}, det(a)·det(b) = {want}"), cj2());
        return;
    }
    rep.count("dense_4x4_checks");
}

pub fn run(cfg: &Cfg, rep: &mut Report) {
    rep.rule = "case = a product of 1..6 random factors from {translate, non-uniform ± scale, rotate_x/y/z by arbitrary and k·90° (±1 ulp) angles, shear, from_basis, scaled permutation}; composite vs f64 product, then ≡ compose swapped (bit-exact), probes through composite vs parts in order, determinant vs f64 and multiplicativity, inverse residual in both orders for condition number ≤ 1e3 (measured in f64); constructor effects on points; rotations rigid; orient_y/z; 3×3 compose/then/apply/transpose; all 24 pivot patterns; non-trivial = at least two factors; distinct by hash of all matrix elements".into();
    rep.assumptions.push("Mat4x4::apply(&Vec3) is judged against its documented 'implicit homogeneous 1' semantics (translation applies), the pure linear action only for translation-free transforms (DESIGN §10-3)".into());
    rep.assumptions.push("rotation sense as documented by the library's own examples (rotate_z(90°): y→x)".into());
    rep.assumptions.push("inverse() documents a debug-mode panic for |det| ≤ f32::EPSILON; products with |det| ≤ 1e-4 are skipped and counted".into());
    rep.run_stream(cfg, 0, "products", cfg.n(600_000, 60_000_000), |rng, i, rep| product_case(rng, rep, i));
    rep.run_stream(cfg, 1, "constructors_rotations_orient", cfg.n(300_000, 30_000_000), |rng, _, rep| constructor_case(rng, rep));
    rep.run_stream(cfg, 2, "mat3x3", cfg.n(300_000, 30_000_000), |rng, _, rep| mat3_case(rng, rep));
    rep.run_stream(cfg, 3, "pivot_patterns", cfg.n(24 * 2_000, 24 * 200_000), |rng, i, rep| pivot_case(rep, rng, i));
    rep.exhaustive.push("all 24 row orders of a scaled 4×4 permutation (every pivot pattern of the elimination)".into());
    rep.floor("compositions", 500_000);
    rep.floor("inverse.cond_1e2_1e3", 2_000);
    rep.floor("inverse.well_conditioned_with_small_determinant", 2_000);
    rep.floor("inverses", 200_000);
    rep.floor("inverses_needing_row_exchange", 20_000);
    rep.floor("constructor_effects", 100_000);
    rep.floor("rotations_checked", 400_000);
    rep.floor("orient_checked", 50_000);
    rep.floor("mat3_checks", 100_000);
    rep.floor("pivot_inverses", 24 * 1_000);
    rep.floor("orient.unit_inputs(lengths judged)", 20_000);
    rep.floor("dense_4x4_checks", 20_000);
    let _: Option<Vec3> = None;
}
