//! C04 — scan conversion covers exactly the pixels whose centres are inside.
//!
//! Event: the Scanline{y, xs, vs} sequence handed to the tri_fill callback.
//! Oracle: f64 edge functions on the exact f32 vertices; f64 distance from a
//! pixel centre to the nearest edge segment decides the 0.001 px band.

use super::rast::{fill_unit, gen_coords, Span};
use crate::geo::{self, P2};
use crate::{f32v, Cfg, Hasher, Json, Report, Rng};

const BAND: f64 = 0.001;

fn cj(t: &[[f32; 2]; 3]) -> Json {
    Json::obj().set("v0", f32v(&t[0])).set("v1", f32v(&t[1])).set("v2", f32v(&t[2]))
}

/// Drift model of known finding F9 (f32 accumulation of the stepped edges):
/// a mis-covered centre closer to an edge than this is attributed to drift.
/// Worst case of one half-ulp rounding per scanline step, all in the same
/// direction (a constant increment added to a slowly changing x rounds the
/// same way for many steps): rows · ½ulp(x) ≤ extent · extent · 2^-24.
fn drift_allowance(extent: f64) -> f64 {
    6e-8 * extent * extent
}

/// The same bound for one triangle: rows actually stepped (its height) instead
/// of the extent, plus two ulps of the coordinates themselves (pixel centres
/// k + ½ stop being exactly representable relative to the band long before
/// 2^23). A triangle a few rows high at large coordinates has hardly any
/// room to drift and is held to (almost) the strict band.
fn drift_allowance_tri(extent: f64, height: f64) -> f64 {
    (6e-8 * extent * (height + 2.0) + 2.4e-7 * extent).min(drift_allowance(extent))
}

pub struct Coverage {
    pub x0: i64,
    pub y0: i64,
    pub w: usize,
    pub h: usize,
    pub cnt: Vec<u8>,
}

/// Judges one triangle's spans. Returns the coverage grid (for mesh checks).
pub fn judge(rep: &mut Report, t: &[[f32; 2]; 3], spans: &[Span], strict_sig: bool) -> Option<Coverage> {
    let v: [P2; 3] = [
        (t[0][0] as f64, t[0][1] as f64),
        (t[1][0] as f64, t[1][1] as f64),
        (t[2][0] as f64, t[2][1] as f64),
    ];
    let extent = v.iter().fold(0.0f64, |m, p| m.max(p.0).max(p.1));
    let (minx, maxx) = (v.iter().map(|p| p.0).fold(f64::INFINITY, f64::min), v.iter().map(|p| p.0).fold(f64::NEG_INFINITY, f64::max));
    let (miny, maxy) = (v.iter().map(|p| p.1).fold(f64::INFINITY, f64::min), v.iter().map(|p| p.1).fold(f64::NEG_INFINITY, f64::max));
    let (gx0, gy0) = (minx.floor() as i64 - 1, miny.floor() as i64 - 1);
    let (gx1, gy1) = (maxx.ceil() as i64 + 1, maxy.ceil() as i64 + 1);
    let (w, h) = ((gx1 - gx0 + 1) as usize, (gy1 - gy0 + 1) as usize);
    let mut cnt = vec![0u8; w * h];

    // structural clauses
    let mut last_y: Option<usize> = None;
    for s in spans {
        if let Some(ly) = last_y {
            if s.y <= ly {
                rep.violation(
                    "raster.scanline_order",
                    format!("scanline y={} arrived after y={ly} (must be strictly increasing; no row twice)", s.y),
                    cj(t),
                );
                return None;
            }
        }
        last_y = Some(s.y);
        let len = s.x1.saturating_sub(s.x0);
        if len != s.n_frags {
            rep.violation(
                "raster.xs_len_ne_fragments",
                format!("scanline y={}: xs={}..{} has length {len} but fragments() yielded {}", s.y, s.x0, s.x1, s.n_frags),
                cj(t),
            );
            return None;
        }
        for x in s.x0..s.x1.max(s.x0) {
            let (gx, gy) = (x as i64 - gx0, s.y as i64 - gy0);
            if gx < 0 || gy < 0 || gx >= w as i64 || gy >= h as i64 {
                rep.violation(
                    "raster.pixel_far_outside",
                    format!("pixel ({x},{}) reported, more than a pixel outside the triangle's bounding box", s.y),
                    cj(t),
                );
                return None;
            }
            let c = &mut cnt[gy as usize * w + gx as usize];
            *c = c.saturating_add(1);
        }
    }
    // coverage
    let a2 = geo::tri_area2(&v);
    let mut n_in = 0u64;
    let mut drift_hits = 0u64;
    for gy in 0..h {
        for gx in 0..w {
            let p = ((gx as i64 + gx0) as f64 + 0.5, (gy as i64 + gy0) as f64 + 0.5);
            let got = cnt[gy * w + gx];
            let inside = a2 != 0.0 && geo::tri_inside(p, &v);
            n_in += inside as u64;
            if got > 1 {
                rep.violation(
                    "raster.pixel_twice",
                    format!("pixel centre ({},{}) produced {got} times by one triangle", p.0, p.1),
                    cj(t),
                );
                return None;
            }
            if inside != (got == 1) {
                let d = geo::tri_edge_dist(p, &v);
                rep.worst("miscovered_centre_edge_distance_px(strict domain)", if extent <= 64.0 { d } else { 0.0 }, BAND, || format!("{t:?} centre {p:?}"));
                if d >= BAND {
                    let sig = if !strict_sig && extent > 64.0 && d <= drift_allowance_tri(extent, maxy - miny) {
                        "raster.edge_drift_large_extent"
                    } else if inside {
                        "raster.inside_centre_missed"
                    } else {
                        "raster.outside_centre_filled"
                    };
                    rep.violation(
                        sig,
                        format!(
                            "pixel centre ({},{}) is {} the triangle by {d:.6} px (> {BAND}) but was {}",
                            p.0,
                            p.1,
                            if inside { "inside" } else { "outside" },
                            if got == 1 { "filled" } else { "not filled" }
                        ),
                        cj(t),
                    );
                    if sig == "raster.edge_drift_large_extent" {
                        // a drift-class miss must not hide a gross one
                        // elsewhere in the same triangle: keep judging
                        drift_hits += 1;
                        continue;
                    }
                    return None;
                } else {
                    rep.count("centres_in_band_decided_either_way");
                }
            }
        }
    }
    rep.add("pixel_centres_judged", (w * h) as u64);
    rep.add("pixel_centres_inside", n_in);
    if drift_hits > 0 {
        return None;
    }
    Some(Coverage { x0: gx0, y0: gy0, w, h, cnt })
}

fn classify(rep: &mut Report, t: &[[f32; 2]; 3]) {
    let ys = [t[0][1], t[1][1], t[2][1]];
    let mut s = ys;
    s.sort_by(|a, b| a.partial_cmp(b).unwrap());
    if s[0] == s[1] || s[1] == s[2] {
        rep.count("shape.flat_top_or_bottom");
    }
    if (s[1] - s[0]).abs() <= 1.0 && s[1] != s[0] || (s[2] - s[1]).abs() <= 1.0 && s[2] != s[1] {
        rep.count("shape.half_at_most_one_row_high");
    }
    let v: [P2; 3] = std::array::from_fn(|i| (t[i][0] as f64, t[i][1] as f64));
    let a = geo::tri_area2(&v).abs() * 0.5;
    if a == 0.0 {
        rep.count("shape.zero_area");
    } else if a < 0.5 {
        rep.count("shape.sub_pixel_area");
    }
    if t.iter().any(|p| p[0].fract() == 0.5 && p[1].fract() == 0.5) {
        rep.count("shape.vertex_on_pixel_centre");
    }
}

fn one(rep: &mut Report, t: &[[f32; 2]; 3], all_orders: bool, strict_sig: bool) {
    const PERMS: [[usize; 3]; 6] = [[0, 1, 2], [0, 2, 1], [1, 0, 2], [1, 2, 0], [2, 0, 1], [2, 1, 0]];
    let mut first: Option<Vec<(usize, usize, usize)>> = None;
    for q in PERMS.iter().take(if all_orders { 6 } else { 1 }) {
        let tt = [t[q[0]], t[q[1]], t[q[2]]];
        match fill_unit(&tt) {
            Err(m) => {
                rep.violation("raster.panic", format!("tri_fill panicked: {m}"), cj(&tt));
                return;
            }
            Ok(spans) => {
                rep.add("scanlines_observed", spans.len() as u64);
                if judge(rep, &tt, &spans, strict_sig).is_none() {
                    return;
                }
                let sig: Vec<(usize, usize, usize)> = spans.iter().filter(|s| s.x1 > s.x0).map(|s| (s.y, s.x0, s.x1)).collect();
                match &first {
                    None => first = Some(sig),
                    Some(f) => {
                        if *f != sig {
                            // allowed only inside the band; both orders were
                            // judged individually, so this is informational
                            rep.count("vertex_order_changes_in_band_pixels");
                        }
                    }
                }
            }
        }
    }
}

/// Two triangles sharing an edge / fans: union coverage. Outside the band
/// exactly-once follows from the per-triangle verdicts; *inside* the band
/// gaps and overdraw are counted (informational: the property exempts them).
/// Jittered grid of quads, each split along either diagonal: a mesh in
/// which every interior edge and vertex is shared.
fn grid_case(rng: &mut Rng, rep: &mut Report) {
    let (nx, ny) = (2 + rng.usize(5), 2 + rng.usize(5));
    let cell = rng.pick(&[1.5f32, 3.0, 5.0, 9.0]);
    let snap = rng.below(3); // 0: floats, 1: half-pixel lattice, 2: integers
    let mut pts = vec![[0.0f32; 2]; (nx + 1) * (ny + 1)];
    for j in 0..=ny {
        for i in 0..=nx {
            let mut p = [1.0 + (i as f32 + rng.f32_in(-0.3, 0.3)) * cell, 1.0 + (j as f32 + rng.f32_in(-0.3, 0.3)) * cell];
            match snap {
                1 => p = [(p[0] * 2.0).round() / 2.0, (p[1] * 2.0).round() / 2.0],
                2 => p = [p[0].round(), p[1].round()],
                _ => {}
            }
            pts[j * (nx + 1) + i] = [p[0].max(0.0), p[1].max(0.0)];
        }
    }
    let mut hs = Hasher::new();
    for p in &pts {
        hs.f32s(p);
    }
    rep.case(hs.get(), true);
    rep.count("mesh.grids");
    let mut tris = vec![];
    for j in 0..ny {
        for i in 0..nx {
            let (a, b, c, d) = (pts[j * (nx + 1) + i], pts[j * (nx + 1) + i + 1], pts[(j + 1) * (nx + 1) + i + 1], pts[(j + 1) * (nx + 1) + i]);
            if rng.bool() {
                tris.push([a, b, c]);
                tris.push([a, c, d]);
            } else {
                tris.push([a, b, d]);
                tris.push([b, c, d]);
            }
        }
    }
    union_check(rep, &tris, ((nx as f32 + 1.5) * cell) as usize + 4, ((ny as f32 + 1.5) * cell) as usize + 4, "grid");
}

/// Union coverage of a set of triangles: a centre that lies in k triangles,
/// beyond the band of every edge, must be drawn exactly k times (k = 1
/// inside a non-overlapping mesh, 0 outside).
fn union_check(rep: &mut Report, tris: &[[[f32; 2]; 3]], w: usize, h: usize, what: &str) {
    let mut cnt = vec![0u8; w * h];
    for t in tris {
        match fill_unit(t) {
            Err(m) => {
                rep.violation("raster.panic", format!("tri_fill panicked: {m}"), cj(t));
                return;
            }
            Ok(spans) => {
                if judge(rep, t, &spans, true).is_none() {
                    return;
                }
                for s in &spans {
                    for x in s.x0..s.x1.max(s.x0) {
                        if x < w && s.y < h {
                            cnt[s.y * w + x] = cnt[s.y * w + x].saturating_add(1);
                        }
                    }
                }
            }
        }
    }
    for y in 0..h {
        for x in 0..w {
            let p = (x as f64 + 0.5, y as f64 + 0.5);
            let mut ins = 0;
            let mut near = false;
            for t in tris {
                let v: [P2; 3] = std::array::from_fn(|i| (t[i][0] as f64, t[i][1] as f64));
                if geo::tri_area2(&v) != 0.0 && geo::tri_inside(p, &v) {
                    ins += 1;
                }
                if geo::tri_edge_dist(p, &v) < BAND {
                    near = true;
                }
            }
            let got = cnt[y * w + x];
            if near {
                if got == 0 && ins > 0 {
                    rep.count("mesh.in_band_gap_pixels(informational)");
                }
                if got > 1 {
                    rep.count("mesh.in_band_overdraw_pixels(informational)");
                }
                rep.count("mesh.in_band_centres");
                continue;
            }
            if got as i32 != ins {
                rep.violation(
                    "raster.mesh_gap_or_overdraw",
                    format!("{what} of {} triangles: centre ({},{}) lies in {ins} triangles (beyond the band) but was drawn {got} times", tris.len(), p.0, p.1),
                    Json::Arr(tris.iter().take(12).map(cj).collect()),
                );
                return;
            }
            rep.count("mesh.centres_judged");
        }
    }
}

fn mesh_case(rng: &mut Rng, rep: &mut Report) {
    if rng.chance(1, 2) {
        return grid_case(rng, rep);
    }
    let ext = rng.pick(&[8.0f32, 16.0, 32.0, 64.0]);
    let n = rng.int(3, 7) as usize;
    // fan around a centre vertex
    let c = [rng.f32_in(0.25 * ext, 0.75 * ext), rng.f32_in(0.25 * ext, 0.75 * ext)];
    let mut ring: Vec<[f32; 2]> = vec![];
    let rot = rng.f64_in(0.0, std::f64::consts::TAU);
    for i in 0..n {
        let ang = rot + std::f64::consts::TAU * (i as f64 + rng.f64_in(-0.3, 0.3)) / n as f64;
        let r = rng.f64_in(0.15, 0.45) * ext as f64;
        let mut p = [(c[0] as f64 + r * ang.cos()) as f32, (c[1] as f64 + r * ang.sin()) as f32];
        if rng.chance(1, 3) {
            p = [p[0].round(), p[1].round()];
        }
        ring.push([p[0].clamp(0.0, ext), p[1].clamp(0.0, ext)]);
    }
    let mut h = Hasher::new();
    h.f32s(&c);
    for p in &ring {
        h.f32s(p);
    }
    rep.case(h.get(), true);
    rep.count("mesh.fans");
    let size = ext as usize + 3;
    let mut cnt = vec![0u8; size * size];
    let mut tris = vec![];
    for i in 0..n {
        let t = [c, ring[i], ring[(i + 1) % n]];
        tris.push(t);
        match fill_unit(&t) {
            Err(m) => {
                rep.violation("raster.panic", format!("tri_fill panicked: {m}"), cj(&t));
                return;
            }
            Ok(spans) => {
                if judge(rep, &t, &spans, true).is_none() {
                    return;
                }
                for s in &spans {
                    for x in s.x0..s.x1.max(s.x0) {
                        if x < size && s.y < size {
                            cnt[s.y * size + x] += 1;
                        }
                    }
                }
            }
        }
    }
    // union: a centre strictly inside exactly one triangle (beyond the band
    // of *every* edge) must have count 1; inside none → 0.
    for y in 0..size {
        for x in 0..size {
            let p = (x as f64 + 0.5, y as f64 + 0.5);
            let mut ins = 0;
            let mut near = false;
            for t in &tris {
                let v: [P2; 3] = std::array::from_fn(|i| (t[i][0] as f64, t[i][1] as f64));
                if geo::tri_area2(&v) != 0.0 && geo::tri_inside(p, &v) {
                    ins += 1;
                }
                if geo::tri_edge_dist(p, &v) < BAND {
                    near = true;
                }
            }
            let got = cnt[y * size + x];
            if near {
                if got == 0 && ins > 0 {
                    rep.count("mesh.in_band_gap_pixels(informational)");
                }
                if got > 1 {
                    rep.count("mesh.in_band_overdraw_pixels(informational)");
                }
                rep.count("mesh.in_band_centres");
                continue;
            }
            // star-shaped fans may overlap themselves if the ring is not
            // convex; expected count = number of triangles containing p
            if got as i32 != ins {
                rep.violation(
                    "raster.mesh_gap_or_overdraw",
                    format!("fan of {n}: centre ({},{}) lies in {ins} triangles (beyond the band) but was drawn {got} times", p.0, p.1),
                    Json::Arr(tris.iter().map(cj).collect()),
                );
                return;
            }
        }
    }
}

pub fn run(cfg: &Cfg, rep: &mut Report) {
    rep.rule = "case = one screen-space triangle (6 f32 words), judged against every pixel centre of its bounding box +1 px; \
generators: exhaustive half-pixel lattice (all ordered vertex triples), integer / half-integer / 1/16 / arbitrary floats, \
vertices on pixel centres ±1ulp, flat, one-row halves, slivers, sub-pixel, zero-area; extents 4..64 (strict) and 128..2048 (large class); \
non-trivial = non-zero area; distinct by hash of the vertex bits"
        .into();
    rep.assumptions.push("the main streams use non-negative coordinates; triangles reaching into negative coordinates have their own stream, judged on the pixels unsigned coordinates can address (x, y ≥ 0)".into());
    rep.assumptions.push("the drift signature of known finding F9 is granted per triangle: coordinates above 128 px and a mis-covered centre within 6e-8·extent·(height+2) + 2 ulp(extent) of an edge; f64 edge functions on exact f32 vertices are treated as exact (rounding ≤ 1e-12 px at these magnitudes, 9 orders below the 0.001 px band)".into());

    // pins
    {
        // F9 witness (large-extent edge drift)
        let t = [[935.0f32, 79.0], [703.0, 960.0], [343.0, 1012.0]];
        let r = match fill_unit(&t) {
            Err(m) => Err(format!("panic: {m}")),
            Ok(spans) => {
                let covered = spans.iter().any(|s| s.y == 836 && s.x0 <= 735 && 735 < s.x1);
                if covered {
                    Ok(())
                } else {
                    Err("centre (735.5,836.5) is inside (935,79),(703,960),(343,1012) by 0.021 px but is not filled".to_string())
                }
            }
        };
        rep.pin("F9.edge_drift_1024", r);
    }

    {
        // F25: rows at negative y were all reported as row 0
        let t = [[-3.0f32, -4.0], [5.0, -4.0], [1.0, 8.0]];
        let r = match fill_unit(&t) {
            Err(m) => Err(format!("panic: {m}")),
            Ok(spans) => {
                let ys: Vec<usize> = spans.iter().map(|s| s.y).collect();
                let bad_len = spans.iter().find(|s| s.x1.saturating_sub(s.x0) != s.n_frags);
                if ys.windows(2).any(|w| w[1] <= w[0]) {
                    Err(format!("tri_fill((-3,-4),(5,-4),(1,8)) reports rows {ys:?}: not strictly increasing"))
                } else if let Some(s) = bad_len {
                    Err(format!("tri_fill((-3,-4),(5,-4),(1,8)): row {} has xs {}..{} but {} fragments", s.y, s.x0, s.x1, s.n_frags))
                } else {
                    Ok(())
                }
            }
        };
        rep.pin("F25.negative_rows_reported_as_row_0", r);
    }

    // Stream 0: exhaustive half-pixel lattice
    let side: u64 = if cfg.quick() { 9 } else { 13 }; // {0,.5,..,4} / {0,..,6}
    let npts = side * side;
    let n0 = npts * npts * npts;
    rep.run_stream(cfg, 0, "half_pixel_lattice", n0, |_rng, i, rep| {
        let pt = |k: u64| [(k % side) as f32 * 0.5, (k / side) as f32 * 0.5];
        let t = [pt(i % npts), pt((i / npts) % npts), pt(i / (npts * npts))];
        let mut h = Hasher::new();
        for p in &t {
            h.f32s(p);
        }
        let v: [P2; 3] = std::array::from_fn(|i| (t[i][0] as f64, t[i][1] as f64));
        rep.case(h.get(), geo::tri_area2(&v) != 0.0);
        classify(rep, &t);
        one(rep, &t, false, true); // all orders are enumerated by the lattice itself
        if i == 12345 {
            rep.sample(|| cj(&t));
        }
    });
    rep.exhaustive.push(format!("every ordered vertex triple on the half-pixel lattice {{0,0.5,…,{}}}² ({n0} triangles) × every pixel centre of its bounding box", (side - 1) as f32 * 0.5));

    // Stream 1: random families, strict domain
    rep.run_stream(cfg, 1, "random_strict", cfg.n(150_000, 12_000_000), |rng, i, rep| {
        let ext = rng.pick(&[4.0f32, 8.0, 16.0, 32.0, 64.0, 64.0]);
        let t = gen_coords(rng, ext);
        let mut h = Hasher::new();
        for p in &t {
            h.f32s(p);
        }
        let v: [P2; 3] = std::array::from_fn(|i| (t[i][0] as f64, t[i][1] as f64));
        rep.case(h.get(), geo::tri_area2(&v) != 0.0);
        classify(rep, &t);
        one(rep, &t, true, true);
        if i < 2 {
            rep.sample(|| cj(&t));
        }
    });

    // Stream 2: partially off any realistic buffer on the right/bottom, still ≤ 64 in extent of the part near the origin
    rep.run_stream(cfg, 2, "mesh_fans_and_grids", cfg.n(20_000, 1_000_000), |rng, _, rep| mesh_case(rng, rep));

    // Stream 3: large-coordinate class (known finding F9 lives here)
    rep.run_stream(cfg, 3, "large_extent", cfg.n(3_000, 150_000), |rng, _, rep| {
        let ext = rng.pick(&[128.0f32, 256.0, 512.0, 1024.0, 2048.0]);
        let t = gen_coords(rng, ext);
        let mut h = Hasher::new();
        for p in &t {
            h.f32s(p);
        }
        rep.case(h.get(), true);
        rep.count(&format!("large_extent.{ext}"));
        // all six vertex orders: where they disagree outside the band (and
        // outside the drift allowance) one of them is reported by judge()
        one(rep, &t, true, false);
    });
    // Stream 5: small triangles far from the origin (a 4K frame, a tile of a
    // huge canvas): a few rows to step, so hardly any drift is allowed
    rep.run_stream(cfg, 5, "small_triangles_at_large_offsets", cfg.n(40_000, 2_000_000), |rng, _, rep| {
        let off = rng.pick(&[2048.0f32, 3840.0, 4096.0, 16384.0, 65536.0]);
        let small = gen_coords(rng, 8.0);
        let (ox, oy) = (off * rng.pick(&[1.0f32, 1.0, 0.0, 0.37]), off * rng.pick(&[1.0f32, 0.0, 1.0, 0.61]));
        let t: [[f32; 2]; 3] = std::array::from_fn(|i| [small[i][0] + ox.floor(), small[i][1] + oy.floor()]);
        let mut h = Hasher::new();
        for p in &t {
            h.f32s(p);
        }
        rep.case(h.get(), true);
        rep.count("large_offset.cases");
        one(rep, &t, false, false);
    });
    rep.floor("large_offset.cases", 20_000);

    // Stream 4: triangles reaching into negative coordinates ("partially
    // off-grid"). Scanline.y and xs are unsigned, so pixels at negative
    // coordinates cannot be reported; the pixels at x, y ≥ 0 must still be the
    // right ones, each row once.
    rep.run_stream(cfg, 4, "negative_offgrid", cfg.n(60_000, 3_000_000), |rng, _, rep| {
        let mut t = gen_coords(rng, 24.0);
        let (dx, dy) = (rng.pick(&[0.0f32, 8.0, 8.5, 30.0]), rng.pick(&[0.0f32, 8.0, 8.25, 30.0]));
        for p in t.iter_mut() {
            p[0] -= dx;
            p[1] -= dy;
        }
        if !t.iter().any(|p| p[0] < 0.0 || p[1] < 0.0) {
            return;
        }
        let mut h = Hasher::new();
        for p in &t {
            h.f32s(p);
        }
        rep.case(h.get(), true);
        rep.count("negative_offgrid.cases");
        let spans = match fill_unit(&t) {
            Ok(s) => s,
            Err(m) => {
                rep.violation("raster.negative_coordinates_mishandled", format!("tri_fill panicked on a triangle reaching into negative coordinates: {m}"), cj(&t));
                return;
            }
        };
        let v: [P2; 3] = std::array::from_fn(|i| (t[i][0] as f64, t[i][1] as f64));
        let mut last: Option<usize> = None;
        let mut cover: std::collections::HashMap<(usize, usize), u32> = std::collections::HashMap::new();
        for sp in &spans {
            if last.is_some_and(|l| sp.y <= l) {
                rep.violation("raster.negative_coordinates_mishandled", format!("scanline y={} arrived after y={} (rows at negative y are reported as row 0, again and again)", sp.y, last.unwrap()), cj(&t));
                return;
            }
            last = Some(sp.y);
            if sp.x1.saturating_sub(sp.x0) != sp.n_frags {
                rep.violation("raster.negative_coordinates_mishandled", format!("scanline y={}: xs={}..{} but fragments() yielded {}", sp.y, sp.x0, sp.x1, sp.n_frags), cj(&t));
                return;
            }
            for x in sp.x0..sp.x1.max(sp.x0) {
                *cover.entry((x, sp.y)).or_default() += 1;
            }
        }
        let a2 = geo::tri_area2(&v);
        for y in 0..26usize {
            for x in 0..26usize {
                let c = (x as f64 + 0.5, y as f64 + 0.5);
                let inside = a2 != 0.0 && geo::tri_inside(c, &v);
                let got = cover.get(&(x, y)).copied().unwrap_or(0);
                if (inside != (got == 1) || got > 1) && geo::tri_edge_dist(c, &v) >= BAND {
                    rep.violation("raster.negative_coordinates_mishandled", format!("pixel ({x},{y}) (both coordinates ≥ 0) is {} the triangle but was reported {got} time(s)", if inside { "inside" } else { "outside" }), cj(&t));
                    return;
                }
            }
        }
        rep.count("negative_offgrid.handled_correctly");
    });

    rep.floor("negative_offgrid.cases", 20_000);
    rep.floor("negative_offgrid.handled_correctly", 20_000);
    rep.floor("pixel_centres_inside", 1_000_000);
    rep.floor("shape.flat_top_or_bottom", 10_000);
    rep.floor("shape.half_at_most_one_row_high", 10_000);
    rep.floor("shape.sub_pixel_area", 5_000);
    rep.floor("shape.vertex_on_pixel_centre", 10_000);
    rep.floor("mesh.fans", 1_000);
    rep.floor("mesh.grids", 1_000);
    rep.floor("scanlines_observed", 1_000_000);
}
