//! C07 — culling, write masks and statistics behave as configured.
//!
//! Events: buffers and ctx.stats after render(); invocation counters inside
//! the harness shaders.
//! Oracles: (a) culling — an orientation oracle that never looks at screen
//! coordinates (sign of det[x;y;w]); (b) masks — a sequential per-pixel
//! model of the documented fragment pipeline folded over solo layers in
//! submission order, compared bit-for-bit; (c) statistics — counts derived
//! from the public clip API, the orientation oracle and the model.

use super::c01_image::{build_oracle, Scene};
use super::layers::{gen_flat, orientation, solo_layers, Flat, Layer, COL_SENT, Z_MARK};
use super::scene::{pack, render_clip, Canvas, ClipScene, Tk};
use crate::{catch, f32v, Cfg, Hasher, Json, Report, Rng};
use re::geom::{vertex, Tri};
use re::math::mat::viewport;
use re::math::point::pt2;
use re::render::clip::{view_frustum, ClipVec, ClipVert};
use re::render::ctx::{Context, FaceCull};
use re::render::raster::Frag;
use std::cell::Cell;
use std::cmp::Ordering;

fn fl_json(fl: &Flat) -> Json {
    Json::obj()
        .set("buffer", format!("{}x{}", fl.w, fl.h))
        .set("tris", format!("{:?}", fl.sc.tris))
        .set("clip_verts", Json::Arr(fl.sc.verts.iter().map(|(p, a)| Json::Str(format!("{} attr {:?}", f32v(p), a))).collect()))
}

fn discard_at(x: usize, y: usize, m: usize) -> bool {
    (x + y) % m == 0
}

/// Selects render_clip's entry point for the lifetime of the guard.
struct DoorGuard(bool);
impl DoorGuard {
    fn set(on: bool) -> Self {
        DoorGuard(super::scene::set_batch_door(on))
    }
}
impl Drop for DoorGuard {
    fn drop(&mut self) {
        super::scene::set_batch_door(self.0);
    }
}

struct Outcome {
    col: Vec<u32>,
    z: Vec<u32>,
    invocations: usize,
    stats: (f32, usize, usize, usize, usize, usize, usize), // calls, prims i/o, verts i/o, frags i/o
}

#[allow(clippy::too_many_arguments)]
fn render_cfg(fl: &Flat, calls: &[Vec<[usize; 3]>], ctx: &Context, discard: Option<usize>, prior_z: &[f32], tk: Tk) -> Result<Outcome, String> {
    render_cfg_flip(fl, calls, ctx, discard, prior_z, tk, (false, false))
}

#[allow(clippy::too_many_arguments)]
fn render_cfg_flip(fl: &Flat, calls: &[Vec<[usize; 3]>], ctx: &Context, discard: Option<usize>, prior_z: &[f32], tk: Tk, flip: (bool, bool)) -> Result<Outcome, String> {
    let to_screen = super::c01_image::screen_matrix((0, 0, fl.w, fl.h), flip);
    let w = fl.w;
    let mut cv = Canvas::new(fl.w, fl.h, (0, 0, fl.w, fl.h), |_, _| COL_SENT, |x, y| prior_z[(y * w + x) as usize]);
    let inv = Cell::new(0usize);
    for call in calls {
        let fs = |f: Frag<f32>| {
            inv.set(inv.get() + 1);
            if let Some(m) = discard {
                if discard_at(f.pos.x() as usize, f.pos.y() as usize, m) {
                    return None;
                }
            }
            Some(pack(f.var.to_bits()))
        };
        render_clip(&fl.sc, call, fs, ctx, to_screen, &mut cv, tk)?;
    }
    let st = ctx.stats.borrow();
    Ok(Outcome {
        col: cv.col.data().to_vec(),
        z: cv.dep.data().iter().map(|z| z.to_bits()).collect(),
        invocations: inv.get(),
        stats: (st.calls, st.prims.i, st.prims.o, st.verts.i, st.verts.o, st.frags.i, st.frags.o),
    })
}

/// Number of triangles the public clipper yields for triangle t, and whether
/// any piece is (nearly) degenerate on screen.
fn clip_pieces(fl: &Flat, t: &[usize; 3]) -> (usize, bool, usize) {
    let tri = Tri(std::array::from_fn(|i| ClipVert::new(vertex(ClipVec::from(fl.sc.verts[t[i]].0), fl.sc.verts[t[i]].1))));
    let out = catch(|| {
        let mut out = vec![];
        view_frustum::clip(&[tri][..], &mut out);
        out
    })
    .unwrap_or_default();
    let mut degenerate = false;
    let mut n_deg = 0usize;
    for Tri(vs) in &out {
        let before = degenerate;
        degenerate = false;
        let s: Vec<(f64, f64)> = vs
            .iter()
            .map(|v| {
                let p = v.pos.0.map(|x| x as f64);
                (fl.w as f64 * 0.5 * (1.0 + p[0] / p[3]), fl.h as f64 * 0.5 * (1.0 + p[1] / p[3]))
            })
            .collect();
        let a = crate::geo::tri_area2(&[s[0], s[1], s[2]]).abs();
        // the library's own f32 cross product on coordinates up to 40 px has
        // an error of a few 1e-4 px²: below 2e-3 px² the on-screen winding of
        // a piece is not well defined
        if !(a > 2e-3) {
            degenerate = true;
        }
        // … and a piece thinner than 0.02 px — C01's band: it has no pixel
        // "unambiguously inside", and a rasteriser that snaps vertices to a
        // sub-pixel grid (1/256 px) sees a different, equally defensible
        // winding — is not judged either (a = twice the area, so a/base is
        // the altitude over the longest edge)
        let base = (0..3).map(|i| ((s[i].0 - s[(i + 1) % 3].0).powi(2) + (s[i].1 - s[(i + 1) % 3].1).powi(2)).sqrt()).fold(0.0f64, f64::max);
        if !(a > 0.02 * base) {
            degenerate = true;
        }
        if degenerate {
            n_deg += 1;
        }
        degenerate |= before;
    }
    (out.len(), degenerate, n_deg)
}

// ------------------------------------------------------------------ masks

fn masks_case(rng: &mut Rng, rep: &mut Report, idx: u64) {
    let n = 1 + rng.usize(5);
    let fl = gen_flat(rng, n, 40, true);
    let mut h = Hasher::new();
    h.u64(fl.w as u64).u64(fl.h as u64);
    for (p, _) in &fl.sc.verts {
        h.f32s(p);
    }
    let layers: Vec<Layer> = match solo_layers(&fl, false) {
        Ok(l) => l,
        Err(m) => {
            rep.violation("render.panic", format!("render() panicked: {m}"), fl_json(&fl));
            return;
        }
    };
    let npx = (fl.w * fl.h) as usize;
    let any_multi = layers.iter().any(|l| l.multi.iter().any(|m| *m));
    let total_cov: usize = layers.iter().map(|l| l.covered).sum();
    rep.case(h.get(), total_cov > 0);
    // prior depth: mostly a constant, sometimes exactly a layer's value so
    // that the Equal predicate has something to pass
    // incl. the library's own depth_clear default (+inf), −inf, −0.0 and a
    // huge negative value: rewrites of the predicate differ only there
    let pz0 = rng.pick(&[0.0f32, 0.3, 0.8, 2.0, 0.0, 0.3, 0.8, 2.0, f32::INFINITY, f32::NEG_INFINITY, -0.0, -1e30]);
    rep.count(if pz0.is_infinite() || pz0 < 0.0 || (pz0 == 0.0 && pz0.is_sign_negative()) { "prior_depth.special(±inf, -0.0, -1e30)" } else { "prior_depth.ordinary" });
    let prior_z: Vec<f32> = (0..npx)
        .map(|p| {
            if rng.chance(1, 4) {
                let l = &layers[rng.usize(n)];
                if l.z[p].to_bits() != Z_MARK.to_bits() && !l.z[p].is_nan() {
                    return l.z[p];
                }
            }
            pz0
        })
        .collect();
    // m = 1: the shader returns no colour for every fragment
    let discard_m = 1 + rng.usize(5);
    // split into one or two render() calls sharing one Context (stats add up)
    let split = if n > 1 && rng.chance(1, 2) { Some(1 + rng.usize(n - 1)) } else { None };
    let mut calls: Vec<Vec<[usize; 3]>> = match split {
        None => vec![fl.sc.tris.clone()],
        Some(s) => vec![fl.sc.tris[..s].to_vec(), fl.sc.tris[s..].to_vec()],
    };
    // a call with an empty triangle list still is a call
    if rng.chance(1, 4) {
        let at = rng.usize(calls.len() + 1);
        calls.insert(at, vec![]);
        rep.count("calls.with_an_empty_triangle_list");
    }
    // every third scene goes through Batch::render instead of render():
    // a Batch is "a call" like any other, an empty one included
    let batch = rng.chance(1, 3);
    let _door = DoorGuard::set(batch);
    if batch {
        rep.count("calls.through_batch");
        if calls.iter().any(|c| c.is_empty()) {
            rep.count("calls.through_batch_with_an_empty_face_list");
        }
    }
    let pieces: Vec<(usize, bool, usize)> = fl.sc.tris.iter().map(|t| clip_pieces(&fl, t)).collect();
    // Face culling crossed with the masks: one cull mode per scene. A culled
    // triangle contributes nothing at all (no fragments, no writes, not
    // counted in prims.o); needs a well-defined winding for every triangle.
    let facing: Vec<Option<bool>> = fl.sc.tris.iter().map(|t| orientation(&fl, t)).collect();
    let cull = match rng.below(4) {
        0 if facing.iter().all(|f| f.is_some()) && pieces.iter().all(|p| !p.1) => Some(FaceCull::Back),
        1 if facing.iter().all(|f| f.is_some()) && pieces.iter().all(|p| !p.1) => Some(FaceCull::Front),
        _ => None,
    };
    let culled: Vec<bool> = facing
        .iter()
        .map(|f| match (cull, f) {
            (Some(FaceCull::Back), Some(back)) => *back,
            (Some(FaceCull::Front), Some(back)) => !*back,
            _ => false,
        })
        .collect();
    rep.count(match cull {
        None => "masks.face_cull_none",
        Some(FaceCull::Back) => "masks.face_cull_back",
        Some(FaceCull::Front) => "masks.face_cull_front",
    });
    if culled.iter().any(|c| *c) && culled.iter().any(|c| !*c) {
        rep.count("masks.scenes_with_some_triangles_culled_and_some_drawn");
    }
    // layers covering each pixel, in submission order (flat list + offsets),
    // and whether one of them draws the pixel twice through its own clip fan
    let mut cov_at = Vec::with_capacity(npx + 1);
    let mut cov_flat: Vec<usize> = vec![];
    let mut cov_excl = vec![false; npx];
    for p in 0..npx {
        cov_at.push(cov_flat.len());
        for (li, l) in layers.iter().enumerate() {
            if culled[li] || l.z[p].to_bits() == Z_MARK.to_bits() {
                continue;
            }
            if l.multi[p] {
                cov_excl[p] = true;
            }
            cov_flat.push(li);
        }
    }
    cov_at.push(cov_flat.len());
    let cover = |p: usize| -> (&[usize], bool) { (&cov_flat[cov_at[p]..cov_at[p + 1]], cov_excl[p]) };
    let tests = [None, Some(Ordering::Less), Some(Ordering::Equal), Some(Ordering::Greater)];
    for tk in [Tk::FbOwned, Tk::ColOwned] {
        for &dt in &tests {
            if tk == Tk::ColOwned && dt.is_some() && !rng.chance(1, 4) {
                continue; // depth test is irrelevant there; sample it
            }
            for cw in [true, false] {
                for dw in [true, false] {
                    for discard in [None, Some(discard_m)] {
                        rep.count("configurations_rendered");
                        let ctx = Context { face_cull: cull, depth_sort: None, depth_test: dt, color_write: cw, depth_write: dw, ..Context::default() };
                        let out = match render_cfg(&fl, &calls, &ctx, discard, &prior_z, tk) {
                            Ok(o) => o,
                            Err(m) => {
                                rep.violation("render.panic", format!("render() panicked: {m}"), fl_json(&fl));
                                return;
                            }
                        };
                        // the model: the fragment pipeline applied, per pixel, to the
                        // solo layers covering it, in a given draw order
                        let cfgs = format!("door={} target={} face_cull={cull:?} depth_test={dt:?} color_write={cw} depth_write={dw} discard={discard:?} calls={}", if batch { "Batch::render" } else { "render()" }, tk.name(), calls.len());
                        // (colour, depth, fragments written, a Less/Greater test met exactly equal depths)
                        let sim = |p: usize, order: &[usize], inclusive: bool| -> (u32, f32, usize, bool, usize) {
                            let (x, y) = (p % fl.w as usize, p / fl.w as usize);
                            let (mut c, mut z, mut fo, mut tie, mut fo_any) = (COL_SENT, prior_z[p], 0usize, false, 0usize);
                            for &li in order {
                                let l = &layers[li];
                                let lz = l.z[p];
                                let pass = if tk.has_depth() {
                                    match dt {
                                        None => true,
                                        Some(o) => {
                                            let cmp = z.partial_cmp(&lz);
                                            if o != Ordering::Equal && cmp == Some(Ordering::Equal) {
                                                tie = true;
                                                inclusive
                                            } else {
                                                cmp == Some(o)
                                            }
                                        }
                                    }
                                } else {
                                    true
                                };
                                if pass && !discard.map_or(false, |dm| discard_at(x, y, dm)) {
                                    if cw {
                                        c = l.col[p];
                                        fo += 1;
                                    }
                                    if dw && tk.has_depth() {
                                        z = lz;
                                    }
                                    if cw || (dw && tk.has_depth()) {
                                        fo_any += 1;
                                    }
                                }
                            }
                            (c, z, fo, tie, fo_any)
                        };
                        // which call a layer (= triangle index) belongs to
                        let call_of: Vec<usize> = {
                            let mut v = vec![];
                            for (ci, c) in calls.iter().enumerate() {
                                v.extend(std::iter::repeat(ci).take(c.len()));
                            }
                            v
                        };
                        // first: submission order, the documented strict comparison
                        let (mut exp_fi, mut exp_fo, mut exp_fo_any) = (0usize, 0usize, 0usize);
                        let mut first_bad: Option<(usize, u32, f32)> = None;
                        for p in 0..npx {
                            let (cov, excluded) = cover(p);
                            exp_fi += cov.len();
                            let (c, z, fo, _, fo_any) = sim(p, cov, false);
                            exp_fo += fo;
                            exp_fo_any += fo_any;
                            if !excluded && (out.col[p] != c || out.z[p] != z.to_bits()) && first_bad.is_none() {
                                first_bad = Some((p, c, z));
                            }
                        }
                        // "fragments written": to the colour buffer (as the library counts
                        // today) or to either buffer — both are fair readings
                        let counts_bad = !any_multi && out.stats.6 != exp_fo && out.stats.6 != exp_fo_any;
                        if !any_multi && out.stats.6 != exp_fo && out.stats.6 == exp_fo_any {
                            exp_fo = exp_fo_any;
                            rep.count("stats.frags_o_counts_writes_to_either_buffer");
                        }
                        let mut fo_explained = false;
                        if first_bad.is_some() || counts_bad {
                            // The statement fixes neither the order in which the triangles
                            // of one call reach a pixel nor which way Less/Greater go on
                            // exactly equal depths (C06 excludes ties). Before blaming the
                            // masks or the statistics: is there, for every pixel, a draw
                            // order within each call — and one tie rule for the whole
                            // scene — under which the pipeline yields what the buffers
                            // hold, with the written-fragment total inside what those
                            // orders allow?
                            let mut explained = None;
                            'sem: for inclusive in [false, true] {
                                let (mut lo, mut hi) = (0usize, 0usize);
                                for p in 0..npx {
                                    let (cov, excluded) = cover(p);
                                    // permutations of the covering layers, call by call
                                    let mut orders: Vec<Vec<usize>> = vec![vec![]];
                                    let mut k = 0;
                                    while k < cov.len() {
                                        let mut e = k;
                                        while e < cov.len() && call_of[cov[e]] == call_of[cov[k]] {
                                            e += 1;
                                        }
                                        let perms = super::c06_order::permutations(e - k);
                                        let mut next = Vec::with_capacity(orders.len() * perms.len());
                                        for o in &orders {
                                            for pm in &perms {
                                                let mut v = o.clone();
                                                v.extend(pm.iter().map(|q| cov[k + q]));
                                                next.push(v);
                                            }
                                        }
                                        orders = next;
                                        k = e;
                                    }
                                    let (mut plo, mut phi) = (usize::MAX, 0usize);
                                    for o in &orders {
                                        let (c, z, fo, _, _) = sim(p, o, inclusive);
                                        if excluded || (out.col[p] == c && out.z[p] == z.to_bits()) {
                                            plo = plo.min(fo);
                                            phi = phi.max(fo);
                                        }
                                    }
                                    if plo == usize::MAX {
                                        continue 'sem; // no order explains this pixel
                                    }
                                    lo += plo;
                                    hi += phi;
                                }
                                if any_multi || (lo <= out.stats.6 && out.stats.6 <= hi) {
                                    explained = Some(inclusive);
                                    break;
                                }
                            }
                            match explained {
                                Some(inclusive) => {
                                    rep.count(if inclusive { "masks.explained_by_draw_order_and_inclusive_ties(not property clauses)" } else { "masks.explained_by_another_draw_order_within_a_call(not a property clause)" });
                                    first_bad = None;
                                    fo_explained = true;
                                }
                                None => {}
                            }
                        }
                        if let Some((p, c, z)) = first_bad {
                            let (x, y) = (p % fl.w as usize, p / fl.w as usize);
                            let what = if !cw && out.col[p] != COL_SENT {
                                "flags.color_written_although_masked"
                            } else if (!dw || !tk.has_depth()) && out.z[p] != prior_z[p].to_bits() {
                                "flags.depth_written_although_masked"
                            } else {
                                "flags.pipeline_model_mismatch"
                            };
                            rep.violation(
                                what,
                                format!("[{cfgs}] pixel ({x},{y}): buffers hold colour {:#x} depth {}; the fragment-pipeline model predicts colour {c:#x} depth {z} in submission order, and no order of the covering triangles within their calls, with either tie rule, explains the scene", out.col[p], f32::from_bits(out.z[p])),
                                fl_json(&fl).set("config", cfgs.clone()),
                            );
                            return;
                        }
                        if fo_explained {
                            exp_fo = out.stats.6;
                        }
                        let ties = false;
                        let exp_inv = out.invocations;
                        rep.add("pixels_compared_with_model", npx as u64);
                        // statistics
                        let exp_calls = calls.len() as f32;
                        let exp_pi: usize = calls.iter().map(|c| c.len()).sum();
                        let exp_vi = fl.sc.verts.len() * calls.len();
                        let exp_po: usize = pieces.iter().zip(&culled).filter(|(_, c)| !**c).map(|(p, _)| p.0).sum();
                        let (calls_s, pi, po, vi, vo, fi, fo) = out.stats;
                        let mut bad = vec![];
                        if calls_s != exp_calls {
                            bad.push(format!("calls={calls_s} expected {exp_calls}"));
                        }
                        if pi != exp_pi {
                            bad.push(format!("prims.i={pi} expected {exp_pi}"));
                        }
                        // "vertices submitted": every vertex handed to each call (today's
                        // count), or only those the call's triangles refer to
                        let exp_vi_referenced: usize = calls.iter().map(|c| 3 * c.len()).sum();
                        if vi != exp_vi && vi != exp_vi_referenced {
                            bad.push(format!("verts.i={vi} expected {exp_vi} (or {exp_vi_referenced} referenced)"));
                        }
                        // a clip piece that is (nearly) degenerate on screen may or may
                        // not count as surviving: a renderer may drop zero-area pieces
                        let deg_po: usize = pieces.iter().zip(&culled).filter(|(_, c)| !**c).map(|(p, _)| p.2).sum();
                        if po > exp_po || po + deg_po < exp_po {
                            bad.push(format!("prims.o={po} expected {exp_po} (triangles surviving clipping{})", if deg_po > 0 { format!(", of which {deg_po} (nearly) degenerate on screen may be dropped") } else { String::new() }));
                        } else if po != exp_po {
                            rep.count("stats.prims_o_short_by_degenerate_pieces(accepted)");
                        }
                        if vo != 3 * po {
                            bad.push(format!("verts.o={vo} expected 3*prims.o={}", 3 * po));
                        }
                        if !any_multi && !ties {
                            if fi != exp_fi {
                                bad.push(format!("frags.i={fi} expected {exp_fi} (fragments generated)"));
                            }
                            if fo != exp_fo {
                                bad.push(format!("frags.o={fo} expected {exp_fo} (fragments written)"));
                            }
                            if out.invocations != exp_inv {
                                // when the shader runs relative to the depth test is
                                // not something the property fixes: recorded, not judged
                                rep.count("stats.shader_invocations_differ_from_model(not a property clause)");
                            }
                            rep.count("stats.fragment_counts_checked");
                        } else {
                            rep.count("stats.fragment_counts_skipped(own-fan overdraw in band)");
                        }
                        rep.count("stats.checked");
                        if !bad.is_empty() {
                            rep.violation("flags.stats_wrong", format!("[{cfgs}] ctx.stats disagree with what happened: {}", bad.join("; ")), fl_json(&fl).set("config", cfgs.clone()));
                            return;
                        }
                    }
                }
            }
        }
    }
    if idx < 2 {
        rep.sample(|| fl_json(&fl));
    }
}

// ---------------------------------------------------------------- culling

fn hs_flip(h: &mut Hasher, f: (bool, bool)) {
    h.u64(f.0 as u64 * 2 + f.1 as u64);
}

fn cull_case(rng: &mut Rng, rep: &mut Report) {
    let fl = gen_flat(rng, 1, 40, true);
    let t = fl.sc.tris[0];
    let rev = [t[0], t[2], t[1]];
    let mut h = Hasher::new();
    for (p, _) in &fl.sc.verts {
        h.f32s(p);
    }
    // a mirrored viewport (one axis) reverses the on-screen winding
    let flip = if rng.chance(1, 3) { (rng.bool(), rng.bool()) } else { (false, false) };
    hs_flip(&mut h, flip);
    let Some(back_ndc) = orientation(&fl, &t) else {
        rep.skip("culling.near_edge_on");
        return;
    };
    let back = back_ndc != (flip.0 != flip.1);
    if flip.0 != flip.1 {
        rep.count("culling.mirrored_viewport(winding reversed on screen)");
    }
    let npx = (fl.w * fl.h) as usize;
    let prior = vec![0.0f32; npx];
    let run = |tri: [usize; 3], cull: Option<FaceCull>| -> Result<Outcome, String> {
        let ctx = Context { face_cull: cull, ..Context::default() };
        render_cfg_flip(&fl, &[vec![tri]], &ctx, None, &prior, Tk::FbOwned, flip)
    };
    let cj = || fl_json(&fl).set("viewport_mirrored_xy", format!("{flip:?}"));
    let mut res = vec![];
    for tri in [t, rev] {
        for cull in [None, Some(FaceCull::Back), Some(FaceCull::Front)] {
            match run(tri, cull) {
                Ok(o) => res.push(o),
                Err(m) => {
                    rep.violation("render.panic", format!("render() panicked: {m}"), cj());
                    return;
                }
            }
        }
    }
    let drawn = |o: &Outcome| o.col.iter().any(|c| *c != COL_SENT);
    let visible = drawn(&res[0]);
    rep.case(h.get(), visible);
    rep.count(if back { "culling.backfacing_input" } else { "culling.frontfacing_input" });
    if visible {
        rep.count("culling.visible_triangles");
    }
    // ambiguity mask: pixels within 0.02 px of any projected or internal fan
    // edge, for *both* vertex orders (the clip fan differs between them)
    let mk = |tri: [usize; 3]| {
        let sc = Scene::<f32> { cs: ClipScene { verts: fl.sc.verts.clone(), tris: vec![tri] }, bw: fl.w, bh: fl.h, win: (0, 0, fl.w, fl.h), vp: (0, 0, fl.w, fl.h), flip, tk: Tk::FbOwned, prior_random: false, prior_seed: 0, gen_mode: 0, depth_scale: 1.0 };
        build_oracle(&sc).mask
    };
    let (m1, m2) = (mk(t), mk(rev));
    let mask: Vec<bool> = m1.iter().zip(&m2).map(|(a, b)| *a || *b).collect();
    // clip pieces that are (nearly) degenerate on screen have no defined
    // on-screen winding: they may survive culling without drawing anything
    let (_, degenerate_piece, _) = clip_pieces(&fl, &t);
    let same_outside_band = |a: &Outcome, b: &Outcome| (0..npx).all(|p| mask[p] || (a.col[p] == b.col[p] && a.z[p] == b.z[p]));
    // order t: back-facing iff `back`; reversed order: the opposite
    for (o, is_back, name) in [(0usize, back, "given order"), (3, !back, "reversed order")] {
        let none = &res[o];
        for (k, cull, culls_back) in [(1usize, "Back", true), (2, "Front", false)] {
            let r = &res[o + k];
            let expect_drawn = is_back != culls_back;
            if expect_drawn {
                if !same_outside_band(r, none) {
                    rep.violation(
                        "flags.cull_removed_wrong_face",
                        format!("{name}: triangle is {}-facing (det[x;y;w] sign); with face_cull={cull} it must be drawn exactly as with culling off, but the image differs away from edge pixels", if is_back { "back" } else { "front" }),
                        cj(),
                    );
                    return;
                }
            } else {
                let changed_outside_band = (0..npx).any(|p| !mask[p] && (r.col[p] != COL_SENT || r.z[p] != 0.0f32.to_bits()));
                if changed_outside_band || (!degenerate_piece && r.stats.2 != 0) {
                    rep.violation(
                        "flags.cull_kept_wrong_face",
                        format!("{name}: triangle is {}-facing; with face_cull={cull} nothing may be drawn, but pixels away from all edges changed ({changed_outside_band}) or prims.o={} without any degenerate clip piece", if is_back { "back" } else { "front" }, r.stats.2),
                        cj(),
                    );
                    return;
                }
            }
        }
    }
    // culling off: both orders draw the same image away from edge pixels
    let (a, b) = (&res[0], &res[3]);
    for p in 0..npx {
        if mask[p] {
            continue;
        }
        let (da, db) = (a.col[p] != COL_SENT, b.col[p] != COL_SENT);
        if da != db {
            rep.violation(
                "flags.vertex_order_changes_image",
                format!("culling off: pixel ({},{}) (not near any edge) is drawn for one vertex order and not for the other", p as u32 % fl.w, p as u32 / fl.w),
                cj(),
            );
            return;
        }
        if da {
            let (va, vb) = (f32::from_bits(a.col[p]) as f64, f32::from_bits(b.col[p]) as f64);
            rep.worst("attr_difference_between_vertex_orders", (va - vb).abs(), 5e-3, String::new);
            if !((va - vb).abs() <= 5e-3) {
                rep.violation("flags.vertex_order_changes_image", format!("culling off: pixel ({},{}) holds {va} for one vertex order and {vb} for the other", p as u32 % fl.w, p as u32 / fl.w), cj());
                return;
            }
            rep.count("culling.pixels_compared_between_orders");
        }
    }
    // statistics with culling on, multi-triangle scene
}

/// Statistics under culling: prims.o counts triangles surviving clipping
/// *and* culling.
fn cull_stats_case(rng: &mut Rng, rep: &mut Report) {
    let n = 2 + rng.usize(5);
    let fl = gen_flat(rng, n, 32, false);
    let mut h = Hasher::new();
    for (p, _) in &fl.sc.verts {
        h.f32s(p);
    }
    rep.case(h.get() ^ 0xc511, true);
    let pieces: Vec<(usize, bool, usize)> = fl.sc.tris.iter().map(|t| clip_pieces(&fl, t)).collect();
    let orient: Vec<Option<bool>> = fl.sc.tris.iter().map(|t| orientation(&fl, t)).collect();
    if pieces.iter().any(|p| p.1) || orient.iter().any(|o| o.is_none()) {
        rep.skip("cull_stats.degenerate_piece_or_edge_on");
        return;
    }
    let layers = match solo_layers(&fl, false) {
        Ok(l) => l,
        Err(m) => {
            rep.violation("render.panic", format!("render() panicked: {m}"), fl_json(&fl));
            return;
        }
    };
    let prior = vec![0.0f32; (fl.w * fl.h) as usize];
    for (cull, culls_back) in [(FaceCull::Back, true), (FaceCull::Front, false)] {
        let ctx = Context { face_cull: Some(cull), depth_test: None, ..Context::default() };
        let out = match render_cfg(&fl, &[fl.sc.tris.clone()], &ctx, None, &prior, Tk::FbOwned) {
            Ok(o) => o,
            Err(m) => {
                rep.violation("render.panic", format!("render() panicked: {m}"), fl_json(&fl));
                return;
            }
        };
        let keep: Vec<bool> = orient.iter().map(|o| o.unwrap() != culls_back).collect();
        let exp_po: usize = pieces.iter().zip(&keep).filter(|(_, k)| **k).map(|(p, _)| p.0).sum();
        let exp_fi: usize = layers.iter().zip(&keep).filter(|(_, k)| **k).map(|(l, _)| l.frags_i).sum();
        let (_, pi, po, _, vo, fi, _) = out.stats;
        rep.count("cull_stats.checked");
        if pi != n || po != exp_po || vo != 3 * exp_po || fi != exp_fi {
            rep.violation(
                "flags.stats_wrong",
                format!("face_cull={cull:?}: stats prims.i={pi} prims.o={po} verts.o={vo} frags.i={fi}; expected prims.i={n} prims.o={exp_po} (clipped pieces of the non-culled triangles) verts.o={} frags.i={exp_fi}", 3 * exp_po),
                fl_json(&fl),
            );
            return;
        }
    }
}

pub fn run(cfg: &Cfg, rep: &mut Report) {
    rep.rule = "masks: case = one scene of 1..5 triangles × {Framebuf, colour-only} × depth_test {None,Less,Equal,Greater} × color_write × depth_write × {discarding, non-discarding shader} × {one, two calls on one Context, a third of the scenes through Batch::render}; culling: case = one triangle in both vertex orders × face_cull {None,Back,Front}; cull-stats: 2..6 triangles × {Back,Front}; non-trivial = produces fragments; distinct by scene hash".into();
    rep.assumptions.push("layers are solo renders of the same rasteriser (their correctness is C01/C04/C05's subject); pixels a triangle's own clip fan draws twice are excluded from the pixel model and fragment counts of such scenes are not compared".into());
    rep.assumptions.push("orientation oracle: back-facing on screen ⇔ det[x;y;w] > 0 (counter-clockwise in NDC) for an unmirrored viewport, reversed when exactly one viewport axis is mirrored; |det| < 1e-4·scale³ is skipped".into());
    rep.run_stream(cfg, 0, "masks_and_stats", cfg.n(8_000, 600_000), |rng, i, rep| masks_case(rng, rep, i));
    rep.run_stream(cfg, 1, "culling", cfg.n(100_000, 8_000_000), |rng, _, rep| cull_case(rng, rep));
    rep.run_stream(cfg, 2, "culling_stats", cfg.n(40_000, 3_000_000), |rng, _, rep| cull_stats_case(rng, rep));
    rep.floor("configurations_rendered", 50_000);
    rep.floor("masks.face_cull_back", 800);
    rep.floor("masks.face_cull_front", 800);
    rep.floor("masks.scenes_with_some_triangles_culled_and_some_drawn", 500);
    rep.floor("calls.with_an_empty_triangle_list", 800);
    rep.floor("calls.through_batch", 1000);
    rep.floor("calls.through_batch_with_an_empty_face_list", 200);
    rep.floor("prior_depth.special(±inf, -0.0, -1e30)", 800);
    rep.floor("stats.fragment_counts_checked", 40_000);
    rep.floor("culling.visible_triangles", 10_000);
    rep.floor("culling.mirrored_viewport(winding reversed on screen)", 2_000);
    rep.floor("culling.backfacing_input", 5_000);
    rep.floor("culling.frontfacing_input", 5_000);
    rep.floor("cull_stats.checked", 10_000);
}
