//! C18 — angles convert, wrap and change coordinates consistently.
//!
//! Event: returned Angle / PolarVec / SphericalVec / Vec values.
//! Oracle: f64 trigonometry and exact f32 relations.

use crate::{catch, f32s, f32v, Cfg, Hasher, Json, Report, Rng};
use re::math::angle::{degs, polar, rads, spherical, turns, Angle};
use re::math::vec::{vec2, vec3, Vec2, Vec3};
use std::f64::consts::{PI, TAU};

const EPS: f64 = 1.1920929e-7;

fn angle_value(rng: &mut Rng) -> f32 {
    match rng.below(10) {
        0 => {
            // multiples of quarter turns ± ulp
            let k = rng.int(-6400, 6400);
            let x = (k as f64 * PI / 2.0) as f32;
            rng.ulp_nudge(x)
        }
        1 => rng.f32_in(-7.0, 7.0),
        2 => rng.f32_in(-1e4, 1e4),
        3 => rng.pick(&[0.0f32, -0.0, 1e-30, -1e-30, std::f32::consts::PI, -std::f32::consts::PI, std::f32::consts::TAU]),
        4 => rng.sign() * rng.log_f32(1e-6, 1e4),
        _ => rng.f32_in(-100.0, 100.0),
    }
}

fn unit_case(rng: &mut Rng, rep: &mut Report) {
    let x = angle_value(rng);
    let mut hs = Hasher::new();
    hs.f32(x).u64(1);
    rep.case(hs.get(), x != 0.0);
    let cj = || Json::obj().set("value", f32s(x));
    let a = rads(x);
    // the three unit systems describe the same angle
    let rel = |got: f64, exp: f64| (got - exp).abs() / exp.abs().max(1e-30);
    let checks: [(&str, f64, f64); 8] = [
        ("rads(x).to_degs()", a.to_degs() as f64, x as f64 * 180.0 / PI),
        ("rads(x).to_turns()", a.to_turns() as f64, x as f64 / TAU),
        ("degs(x).to_rads()", degs(x).to_rads() as f64, x as f64 * PI / 180.0),
        ("degs(x).to_turns()", degs(x).to_turns() as f64, x as f64 / 360.0),
        ("turns(x).to_rads()", turns(x).to_rads() as f64, x as f64 * TAU),
        ("turns(x).to_degs()", turns(x).to_degs() as f64, x as f64 * 360.0),
        ("degs(rads(x).to_degs()).to_rads()", degs(a.to_degs()).to_rads() as f64, x as f64),
        ("turns(rads(x).to_turns()).to_rads()", turns(a.to_turns()).to_rads() as f64, x as f64),
    ];
    for (name, got, exp) in checks {
        let e = if exp == 0.0 { got.abs() } else { rel(got, exp) };
        rep.worst("unit_conversion_rel_err", e, 1e-6, String::new);
        if !(e <= 1e-6) {
            rep.violation("angle.unit_conversion", format!("{name} = {got}, expected {exp} (x = {x})"), cj());
            return;
        }
    }
    rep.count("unit_conversions");
    // operators, min/max/clamp act on the magnitude
    let y = angle_value(rng);
    let b = rads(y);
    let k = rng.f32_in(-4.0, 4.0);
    // "act on the underlying magnitude": the same value as the f32 operation
    // on the radian magnitudes — bit for bit as the library stands, but a
    // representation in another unit or width would differ by a rounding of
    // the operands and the result, so up to 8 ulps of the largest magnitude
    // involved are allowed (and counted when used). The sign of a zero from
    // min/max of zeros of mixed sign is unspecified.
    let mut inexact = false;
    let mut near = |got: f32, exp: f32, scale: f32| -> bool {
        if got.to_bits() == exp.to_bits() || (got == 0.0 && exp == 0.0) {
            return true;
        }
        let ok = (got as f64 - exp as f64).abs() <= 8.0 * EPS * (scale.abs() as f64).max(exp.abs() as f64) + 1e-37;
        inexact |= ok;
        ok
    };
    let m = x.abs().max(y.abs());
    let ok = near((a + b).to_rads(), x + y, m)
        && near((a - b).to_rads(), x - y, m)
        && near((-a).to_rads(), -x, x)
        && near((a * k).to_rads(), x * k, x * k)
        && (k == 0.0 || near((a / k).to_rads(), x / k, x / k))
        && near(a.min(b).to_rads(), x.min(y), m)
        && near(a.max(b).to_rads(), x.max(y), m)
        // the remainder is discontinuous: compare modulo |y|
        && (y == 0.0 || {
            let (g, e) = ((a % b).to_rads(), x % y);
            near(g, e, m) || near(g.abs() + e.abs(), y.abs(), m)
        });
    if !ok {
        rep.violation("angle.operators", format!("an operator on Angle does not act on the underlying magnitude: a={x} b={y} k={k}"), cj().set("other", f32s(y)));
        return;
    }
    let (lo, hi) = (x.min(y), x.max(y));
    let z = angle_value(rng);
    let c = rads(z).clamp(rads(lo), rads(hi)).to_rads();
    if !near(c, z.clamp(lo, hi), z.abs().max(m)) {
        rep.violation("angle.clamp", format!("rads({z}).clamp({lo},{hi}) = {c}"), cj());
        return;
    }
    if inexact {
        rep.count("operators.equal_within_8_ulps_but_not_bit_for_bit");
    }
    // trig
    let r = catch(|| (a.sin(), a.cos(), a.sin_cos()));
    // tan is not in the statement: recorded only, and in its own catch
    let tan = catch(|| a.tan());
    match r {
        Err(m) => rep.violation("angle.trig_panicked", format!("sin/cos panicked: {m}"), cj()),
        Ok((s, c, (s2, c2))) => {
            // "agrees": to within 2e-6 absolute (sine and cosine are bounded by
            // one; a fused or half-angle sin_cos differs from the separate calls
            // by rounding of that size also where one of the two is tiny)
            let ulps = |p: f32, q: f32| (p as f64 - q as f64).abs() <= 2e-6;
            if !(ulps(s, s2) && ulps(c, c2)) {
                rep.violation("angle.sin_cos_inconsistent", format!("sin_cos = ({s2},{c2}) but sin = {s}, cos = {c}"), cj());
                return;
            }
            let (es, ec) = ((s as f64 - (x as f64).sin()).abs(), (c as f64 - (x as f64).cos()).abs());
            let pyth = ((s as f64).powi(2) + (c as f64).powi(2) - 1.0).abs();
            // accuracy against f64 is not a clause either, but a sine that is
            // not the sine breaks every consumer: judged up to the argument's
            // own half-ulp (an f32 range reduction loses that much) + 1e-6
            let atol = 1e-6 + EPS * (x.abs() as f64);
            rep.worst("sin_cos_abs_err/(1e-6+eps|x|)", es.max(ec) / atol, 1.0, String::new);
            rep.worst("sin2+cos2-1", pyth, 2e-6, String::new);
            if !(es <= atol && ec <= atol && pyth <= 2e-6) {
                rep.violation("angle.sin_cos_wrong", format!("sin({x}) = {s}, cos = {c}; f64 gives {}, {}; sin²+cos²−1 = {pyth:.2e}", (x as f64).sin(), (x as f64).cos()), cj());
                return;
            }
            let tt = (x as f64).tan();
            match tan {
                Ok(t) if tt.abs() < 1e3 && !((t as f64 - tt).abs() <= 1e-5 * (1.0 + tt * tt)) => rep.count("tan.differs_from_f64_by_more_than_1e-5(not a clause)"),
                Err(_) => rep.count("tan.panicked(not a clause)"),
                _ => {}
            }
            rep.count("trig_evaluations");
        }
    }
}

fn wrap_case(rng: &mut Rng, rep: &mut Report) {
    let x = angle_value(rng);
    let min = match rng.below(6) {
        0 => 0.0,
        1 => -std::f32::consts::PI,
        2 => rng.sign() * rng.log_f32(50.0, 1e4),
        // ends as users write them
        3 => degs(rng.pick(&[-180.0f32, 0.0, -90.0, 90.0, -360.0])).to_rads(),
        _ => rng.f32_in(-50.0, 50.0),
    };
    let width = match rng.below(6) {
        0 => std::f32::consts::TAU,
        1 => std::f32::consts::PI,
        2 => rng.log_f32(1e-3, 1.0),
        3 => turns(rng.pick(&[1.0f32, 0.5, 0.25, 2.0])).to_rads(),
        _ => rng.f32_in(0.01, 100.0),
    };
    let max = min + width;
    if !(max > min) {
        rep.skip("wrap.interval_empty_after_rounding");
        return;
    }
    // angles exactly at the ends of the interval and whole interval lengths
    // away from them (bit-exact in f32): the upper end is *excluded*
    let x = match rng.below(16) {
        0 => max,
        1 => min,
        2 => max + (max - min),
        3 => min - (max - min),
        4 => crate::next_down(max),
        5 => crate::next_up(max),
        6 => crate::next_down(min),
        7 => crate::next_up(min),
        // many whole interval lengths away from either end
        8 => min - rng.int(2, 10_000) as f32 * (max - min),
        9 => min + rng.int(2, 10_000) as f32 * (max - min),
        10 => max - rng.int(2, 10_000) as f32 * (max - min),
        _ => x,
    };
    let mut hs = Hasher::new();
    hs.f32(x).f32(min).f32(max);
    rep.case(hs.get(), !(x >= min && x < max));
    let cj = || Json::obj().set("angle", f32s(x)).set("min", f32s(min)).set("max", f32s(max));
    let w = match catch(|| rads(x).wrap(rads(min), rads(max)).to_rads()) {
        Ok(w) => w,
        Err(m) => {
            rep.violation("angle.wrap_panicked", format!("wrap panicked: {m}"), cj());
            return;
        }
    };
    rep.count("wraps");
    // "closed at the upper end only by rounding": returning max itself is
    // legitimate only if a wrapped value within rounding of max exists —
    // either in exact arithmetic on the inputs, or on the two f32
    // intermediates every implementation forms first (x − min and max − min,
    // each rounded once; their remainder is exact). Far from x, the rounding
    // of x − min can move the remainder across a multiple of the length, and
    // then max is what rounding produced; with x = max itself nothing rounds.
    let len64 = max as f64 - min as f64;
    let exact = min as f64 + (x as f64 - min as f64).rem_euclid(len64);
    if w == max {
        let (d32, l32) = ((x - min) as f64, (max - min) as f64);
        let rho32 = d32.rem_euclid(l32);
        let rho = (x as f64 - min as f64).rem_euclid(len64);
        let tau = 2.0 * EPS * (l32 + (max as f64).abs());
        // (third model: the exact difference reduced by the f32 interval
        // length, the modulus the congruence check below uses as well)
        let rho3 = (x as f64 - min as f64).rem_euclid(l32);
        let by_rounding = l32 - rho32 <= tau || len64 - rho <= tau || l32 - rho3 <= tau;
        rep.count(if by_rounding { "wraps_returning_the_upper_end_by_rounding" } else { "wraps_returning_the_upper_end_without_rounding" });
        if !by_rounding {
            rep.violation(
                "angle.wrap_returns_excluded_upper_end",
                format!("rads({x}).wrap({min}, {max}) = {w}, the excluded upper end, although the wrapped value is {exact} in exact arithmetic and min + {rho32} on the rounded intermediates (no rounding leads to max)"),
                cj(),
            );
            return;
        }
    }
    if x == max || x == min {
        rep.count("wraps_of_an_interval_end");
    }
    if !(w >= min && w <= max) {
        rep.violation("angle.wrap_outside_interval", format!("rads({x}).wrap({min}, {max}) = {w} lies outside the interval"), cj());
        return;
    }
    // congruent to the input modulo the (f32) interval length
    let len = (max - min) as f64;
    let k = ((x as f64 - w as f64) / len).round();
    let resid = (x as f64 - w as f64 - k * len).abs();
    let tol = 4.0 * EPS * ((x as f64).abs() + (min as f64).abs() + len) + 1e-30;
    rep.worst("wrap_congruence_residual/tol", resid / tol, 1.0, || format!("x={x} min={min} max={max} w={w} k={k}"));
    if !(resid <= tol) {
        rep.violation("angle.wrap_not_congruent", format!("rads({x}).wrap({min}, {max}) = {w}: differs from the input by {} interval lengths (residual {resid:.3e}, tol {tol:.1e})", (x as f64 - w as f64) / len), cj());
        return;
    }
    if k.abs() >= 1.0 {
        rep.count("wraps_over_at_least_one_revolution");
    }
}

fn gen_vec(rng: &mut Rng, n: usize) -> [f32; 3] {
    let mag = rng.pick(&[1e-6f32, 1e-3, 1.0, 1.0, 100.0, 1e6]);
    let mut v = [0.0f32; 3];
    match rng.below(6) {
        0 => v[rng.usize(n)] = rng.sign() * mag, // axis aligned
        1 => {
            // near-axis
            for c in v.iter_mut().take(n) {
                *c = rng.f32_in(-1e-4, 1e-4) * mag;
            }
            v[rng.usize(n)] = rng.sign() * mag;
        }
        _ => {
            for c in v.iter_mut().take(n) {
                *c = rng.f32_in(-1.0, 1.0) * mag;
            }
        }
    }
    // zeros of either sign (atan2 distinguishes them: az = ±180°)
    for c in v.iter_mut().take(n) {
        if *c == 0.0 && rng.bool() {
            *c = -0.0;
        }
    }
    v
}

fn polar_case(rng: &mut Rng, rep: &mut Report) {
    let v = gen_vec(rng, 2);
    let len = ((v[0] as f64).powi(2) + (v[1] as f64).powi(2)).sqrt();
    let mut hs = Hasher::new();
    hs.f32s(&v[..2]).u64(2);
    rep.case(hs.get(), len > 0.0);
    if len == 0.0 {
        return;
    }
    let cj = || Json::obj().set("vec2", f32v(&v[..2]));
    let r = catch(|| {
        let p = vec2::<f32, ()>(v[0], v[1]).to_polar();
        (p.r(), p.az().to_rads(), p.to_cart().0)
    });
    let (pr, az, back) = match r {
        Ok(x) => x,
        Err(m) => {
            rep.violation("angle.polar_panicked", format!("to_polar/to_cart panicked: {m}"), cj());
            return;
        }
    };
    rep.count("polar_roundtrips");
    let azd = az as f64 * 180.0 / PI;
    if !((pr as f64 - len).abs() <= 2e-6 * len) || !(-180.0 - 1e-4..=180.0 + 1e-4).contains(&azd) {
        rep.violation("angle.polar_radius_or_range", format!("to_polar = (r={pr}, az={azd}°); length is {len}, azimuth must lie in [-180°,180°]"), cj());
        return;
    }
    let e_az = {
        let d = (az as f64 - (v[1] as f64).atan2(v[0] as f64)).abs();
        d.min(TAU - d)
    };
    let e_back = ((back[0] as f64 - v[0] as f64).powi(2) + (back[1] as f64 - v[1] as f64).powi(2)).sqrt() / len;
    rep.worst("polar_azimuth_err_rad", e_az, 1e-5, String::new);
    rep.worst("polar_roundtrip_rel_err", e_back, 1e-5, String::new);
    if !(e_az <= 1e-5 && e_back <= 1e-5) {
        rep.violation("angle.polar_not_inverse", format!("{:?} -> polar(r={pr}, az={az}) -> {:?}", &v[..2], back), cj());
        return;
    }
    // the other composition: polar(r, az) -> cart -> polar
    let (r0, a0) = (rng.log_f32(1e-6, 1e6), angle_value(rng));
    let other = catch(|| {
        let p = polar(r0, rads(a0)).to_cart().to_polar();
        (p.r(), p.az().to_rads())
    });
    if let Err(m) = &other {
        rep.violation("angle.polar_panicked", format!("polar(r={r0}, az={a0}).to_cart().to_polar() panicked: {m}"), Json::obj().set("r", f32s(r0)).set("az", f32s(a0)));
    }
    if let Ok((r1, a1)) = other {
        rep.count("polar_compositions_from_polar");
        let d = (a1 as f64 - a0 as f64).rem_euclid(TAU);
        let d = d.min(TAU - d);
        // a0 is an exact f32; what is allowed is the rounding of sin/cos of it
        // and of atan2 back: a few ulps of a result in [−π, π], plus the
        // argument reduction's own ulp of a0
        let tol = 4e-6 + 1.0 * EPS * (a0 as f64).abs();
        if !((r1 as f64 - r0 as f64).abs() <= 3e-6 * r0 as f64) || !(d <= tol) {
            rep.violation("angle.polar_not_inverse", format!("polar(r={r0}, az={a0} rad) -> cart -> polar(r={r1}, az={a1}): azimuth differs by {d:.3e} rad modulo a turn (tol {tol:.1e})"), Json::obj().set("r", f32s(r0)).set("az", f32s(a0)));
        }
    }
}

fn spherical_case(rng: &mut Rng, rep: &mut Report) {
    let v = gen_vec(rng, 3);
    let len = v.iter().map(|x| (*x as f64).powi(2)).sum::<f64>().sqrt();
    let mut hs = Hasher::new();
    hs.f32s(&v).u64(3);
    rep.case(hs.get(), len > 0.0);
    if len == 0.0 {
        return;
    }
    let cj = || Json::obj().set("vec3", f32v(&v));
    let r = catch(|| {
        let s = vec3::<f32, ()>(v[0], v[1], v[2]).to_spherical();
        (s.r(), s.az().to_rads(), s.alt().to_rads(), s.to_cart().0)
    });
    let (sr, az, alt, back) = match r {
        Ok(x) => x,
        Err(m) => {
            rep.violation("angle.spherical_panicked", format!("to_spherical/to_cart panicked: {m}"), cj());
            return;
        }
    };
    rep.count("spherical_roundtrips");
    let (azd, altd) = (az as f64 * 180.0 / PI, alt as f64 * 180.0 / PI);
    if !((sr as f64 - len).abs() <= 2e-6 * len) || !(-180.0 - 1e-4..=180.0 + 1e-4).contains(&azd) || !(-90.0 - 1e-4..=90.0 + 1e-4).contains(&altd) {
        rep.violation("angle.spherical_radius_or_range", format!("to_spherical = (r={sr}, az={azd}°, alt={altd}°); length is {len}"), cj());
        return;
    }
    let e_back = (0..3).map(|i| (back[i] as f64 - v[i] as f64).powi(2)).sum::<f64>().sqrt() / len;
    rep.worst("spherical_roundtrip_rel_err", e_back, 1e-5, String::new);
    if !(e_back <= 1e-5) {
        rep.violation("angle.spherical_not_inverse", format!("{:?} -> spherical(r={sr}, az={az}, alt={alt}) -> {:?}", v, back), cj());
        return;
    }
    // geometry of the convention: altitude is the elevation above the xz plane, azimuth is measured from +x towards +z
    let e_alt = (alt as f64 - (v[1] as f64 / len).clamp(-1.0, 1.0).asin()).abs();
    let rho = ((v[0] as f64).powi(2) + (v[2] as f64).powi(2)).sqrt();
    // atan2(z, x) is well conditioned in x and z themselves, whatever y is
    let e_az = if rho > 0.0 {
        let d = (az as f64 - (v[2] as f64).atan2(v[0] as f64)).abs();
        d.min(TAU - d)
    } else {
        0.0
    };
    // asin is ill-conditioned at ±1: near the poles the altitude is judged
    // through its cosine as well (cos alt = rho/len)
    let alt_ok = e_alt <= 1e-5 || ((alt as f64).cos() - rho / len).abs() <= 2e-6 && (alt as f64).signum() == (v[1] as f64).signum();
    if !alt_ok || !(e_az <= 1e-5) {
        rep.violation("angle.spherical_angles_wrong", format!("{:?}: az={az} alt={alt}; expected az={} alt={}", v, (v[2] as f64).atan2(v[0] as f64), (v[1] as f64 / len).asin()), cj());
        return;
    }
    // the other composition
    let hp = std::f32::consts::FRAC_PI_2;
    let (r0, a0, l0) = (
        rng.log_f32(1e-6, 1e6),
        match rng.below(4) {
            0 => rng.pick(&[0.0f32, hp, -hp, 3.0, -3.0, 1.0, -1.0]),
            _ => rng.f32_in(-3.1, 3.1),
        },
        match rng.below(4) {
            // up to a hundredth of a degree from the poles, and exact values
            0 => rng.sign() * (hp - rng.log_f32(2e-4, 0.1)),
            1 => rng.pick(&[0.0f32, 0.5, -0.5, 1.0, -1.0]),
            _ => rng.f32_in(-1.5, 1.5),
        },
    );
    let other = catch(|| {
        let s = spherical(r0, rads(a0), rads(l0)).to_cart().to_spherical();
        (s.r(), s.az().to_rads(), s.alt().to_rads())
    });
    if let Err(m) = &other {
        rep.violation("angle.spherical_panicked", format!("spherical(r={r0}, az={a0}, alt={l0}).to_cart().to_spherical() panicked: {m}"), Json::obj().set("r", f32s(r0)).set("az", f32s(a0)).set("alt", f32s(l0)));
    }
    if let Ok((r1, a1, l1)) = other {
        rep.count("spherical_compositions_from_spherical");
        let d = (a1 as f64 - a0 as f64).abs();
        let d = d.min(TAU - d);
        // azimuth is ill-conditioned near the poles
        let tol_az = 2e-6 / (l0 as f64).cos().abs().max(1e-3) + 1e-6;
        if !((r1 as f64 - r0 as f64).abs() <= 3e-6 * r0 as f64) || !(d <= tol_az) || !((l1 as f64 - l0 as f64).abs() <= 1e-5) {
            rep.violation("angle.spherical_not_inverse", format!("spherical(r={r0}, az={a0}, alt={l0}) -> cart -> spherical(r={r1}, az={a1}, alt={l1})"), Json::obj().set("r", f32s(r0)).set("az", f32s(a0)).set("alt", f32s(l0)));
        }
    }
}

pub fn run(cfg: &Cfg, rep: &mut Report) {
    rep.rule = "angles over ±1e4 rad incl. multiples of quarter turns ±1 ulp, zeros and tiny values; wrap intervals with min in ±50 rad and width 1e-3..100 rad (max > min); 2D/3D vectors over 1e-6..1e6 incl. axis-aligned and near-axis ones, every quadrant/octant; both compositions of each coordinate change; non-trivial = non-zero angle / angle outside the interval / non-zero vector; distinct by hash of the inputs".into();
    rep.assumptions.push("wrap is judged for intervals of positive length; congruence is modulo the f32 interval length max−min with a tolerance of 4 eps·(|x|+|min|+len)".into());
    rep.assumptions.push("azimuth tolerances are scaled where the azimuth is ill-conditioned (near the poles)".into());
    rep.run_stream(cfg, 0, "units_operators_trig", cfg.n(1_000_000, 100_000_000), |rng, i, rep| {
        unit_case(rng, rep);
        if i < 2 {
            rep.sample(|| Json::obj().set("kind", "unit/operator/trig case"));
        }
    });
    rep.run_stream(cfg, 1, "wrap", cfg.n(2_000_000, 200_000_000), |rng, _, rep| wrap_case(rng, rep));
    rep.run_stream(cfg, 2, "polar", cfg.n(1_000_000, 100_000_000), |rng, _, rep| polar_case(rng, rep));
    rep.run_stream(cfg, 3, "spherical", cfg.n(1_000_000, 100_000_000), |rng, _, rep| spherical_case(rng, rep));
    rep.floor("unit_conversions", 500_000);
    rep.floor("trig_evaluations", 500_000);
    rep.floor("wraps", 1_000_000);
    rep.floor("wraps_of_an_interval_end", 100_000);
    rep.floor("wraps_over_at_least_one_revolution", 200_000);
    rep.floor("polar_compositions_from_polar", 100_000);
    rep.floor("spherical_compositions_from_spherical", 100_000);
    rep.floor("polar_roundtrips", 500_000);
    rep.floor("spherical_roundtrips", 500_000);
    let _: Option<(Vec2, Vec3, Angle)> = None;
}
