//! C13 — PNM codec: lossless round trip and total decoding.
//!
//! Events: bytes written by write_ppm; Result or panic of parse_pnm/read_pnm.
//! Oracles: (1) read(write(img)) == img; (2) the harness's own tiny encoder
//! emits the same pixel data as P5/P2 and P6/P3 with arbitrary whitespace and
//! whitespace-preceded comments: all must decode to the model image;
//! (3) totality on arbitrary/mutated bytes: no panic; Ok(img) ⇒ pixel count =
//! w·h and dims = the header's (independent header reader).

use super::iofault::{scratch_path, Chunky, ChunkyWriter};
use super::mutate::{mutate, show};
use crate::{catch, Cfg, Hasher, Json, Report, Rng};
use re::math::color::{rgb, Color3};
use re::util::buf::{Buf2, MutSlice2, Slice2};
use re::util::pnm::{load_pnm, parse_pnm, read_pnm, save_ppm, write_ppm};

type Img = (u32, u32, Vec<[u8; 3]>);

fn decode_both(rep: &mut Report, bytes: &[u8], what: &str) -> Option<Result<Img, String>> {
    let b1 = bytes.to_vec();
    let r1 = catch(move || parse_pnm(b1).map(|b| (b.width(), b.height(), b.data().iter().map(|c| c.0).collect::<Vec<_>>())).map_err(|e| format!("{e:?}")));
    let r2 = catch(|| read_pnm(bytes).map(|b| (b.width(), b.height(), b.data().iter().map(|c| c.0).collect::<Vec<_>>())).map_err(|e| format!("{e:?}")));
    let cj = || Json::obj().set("what", what).set("input", show(bytes)).set("input_len", bytes.len());
    // Fault injection at the reader: the same bytes in random 1..7-byte
    // chunks with injected EINTR (every Read consumer must retry those) must
    // decode to the same result; a reader that fails for good at offset k must
    // not make the decoder panic, and an Ok image must still be w·h pixels.
    let mut hs = Hasher::new();
    hs.bytes(bytes);
    let seed = hs.get();
    let mut chunky = Chunky::new(bytes, seed, None);
    let r3 = catch(|| read_pnm(&mut chunky).map(|b| (b.width(), b.height(), b.data().iter().map(|c| c.0).collect::<Vec<_>>())).map_err(|e| format!("{e:?}")));
    rep.add("reader_faults.short_reads", chunky.reads - chunky.interrupts);
    rep.add("reader_faults.injected_eintr", chunky.interrupts);
    if !bytes.is_empty() {
        let k = (seed >> 20) as usize % bytes.len();
        let mut failing = Chunky::new(bytes, seed ^ 0x5555, Some(k));
        let r4 = catch(|| read_pnm(&mut failing).map(|b| (b.width() as u64 * b.height() as u64, b.data().len() as u64)));
        rep.count("reader_faults.hard_failure_midstream");
        match r4 {
            Err(m) => {
                rep.violation("pnm.decode_panicked", format!("read_pnm panicked when the reader failed at offset {k}: {m}"), cj().set("reader_fails_at", k));
                return None;
            }
            Ok(Ok((wh, n))) if wh != n => {
                rep.violation("pnm.pixel_count_ne_w_times_h", format!("reader failing at offset {k}: Ok(image) with w*h = {wh} but {n} pixels"), cj().set("reader_fails_at", k));
                return None;
            }
            _ => {}
        }
    }
    match (r1, r2, r3) {
        (Err(m), _, _) | (_, Err(m), _) | (_, _, Err(m)) => {
            rep.violation("pnm.decode_panicked", format!("decoding panicked: {m}"), cj());
            None
        }
        (Ok(a), Ok(b), Ok(c)) => {
            // which error is reported may legitimately differ between the
            // iterator and the reader entry points: only Ok payloads and the
            // fact of an error are compared
            let same = |x: &Result<Img, String>, y: &Result<Img, String>| match (x, y) {
                (Ok(p), Ok(q)) => p == q,
                (Err(_), Err(_)) => true,
                _ => false,
            };
            let (b, c) = (if same(&a, &b) { a.clone() } else { b }, if same(&a, &c) { a.clone() } else { c });
            // On arbitrary bytes each entry point is judged on its own (the
            // statement asks each for "an image matching its header, or an
            // error"; whether a reader retries EINTR or stops at trailing
            // garbage is not part of it): the caller judges `a`, and the two
            // reader results get the same dims·pixels check here.
            if what.starts_with("arbitrary") {
                for r in [&b, &c] {
                    if let Ok((w, h, px)) = r {
                        if *w as u64 * *h as u64 != px.len() as u64 {
                            rep.violation("pnm.pixel_count_ne_w_times_h", format!("read_pnm: Ok(image) {w}x{h} with {} pixels", px.len()), cj());
                            return None;
                        }
                    }
                }
                if a != b || a != c {
                    rep.count("entry_points_differ_on_arbitrary_bytes(not a clause)");
                }
                return Some(a);
            }
            if a != b {
                rep.violation("pnm.parse_vs_read_differ", format!("parse_pnm and read_pnm disagree: {:?} vs {:?}", a.as_ref().map(|x| (x.0, x.1)), b.as_ref().map(|x| (x.0, x.1))), cj());
                return None;
            }
            if a != c && matches!(&c, Err(e) if e.contains("Interrupted")) {
                // surfacing EINTR to the caller instead of retrying it is a
                // choice the statement does not speak about
                rep.count("reader_faults.eintr_surfaced_as_an_error(not a clause)");
                return Some(a);
            }
            if a != c {
                rep.violation("pnm.parse_vs_read_differ", format!("read_pnm from a reader delivering short chunks with EINTR disagrees with parse_pnm: {:?} vs {:?}", a.as_ref().map(|x| (x.0, x.1)), c.as_ref().map(|x| (x.0, x.1))), cj().set("reader", "short chunks + EINTR"));
                return None;
            }
            Some(a)
        }
    }
}

fn gen_pixels(rng: &mut Rng, n: usize) -> Vec<[u8; 3]> {
    let mode = rng.below(4);
    (0..n)
        .map(|i| {
            let mut b = || -> u8 {
                match mode {
                    0 => rng.u64() as u8,
                    // bytes that look like whitespace, comments or digits
                    1 => rng.pick(b" \n\t\r#0123456789P"),
                    2 => {
                        if i < 3 {
                            rng.pick(b" \n#5")
                        } else {
                            rng.u64() as u8
                        }
                    }
                    _ => rng.pick(&[0u8, 255, 10, 13, 32, 35]),
                }
            };
            [b(), b(), b()]
        })
        .collect()
}

/// Independent reader of a binary P6 stream: (w, h, maxval, raster).
fn ref_p6(b: &[u8]) -> Option<(u64, u64, u64, &[u8])> {
    if b.len() < 2 || &b[..2] != b"P6" {
        return None;
    }
    let mut i = 2;
    let mut nums = [0u64; 3];
    for n in nums.iter_mut() {
        let s = i;
        loop {
            while i < b.len() && b[i].is_ascii_whitespace() {
                i += 1;
            }
            // a whitespace-preceded comment runs to the end of its line
            if i > s && i < b.len() && b[i] == b'#' {
                while i < b.len() && b[i] != b'\n' && b[i] != b'\r' {
                    i += 1;
                }
                continue;
            }
            break;
        }
        if i == s {
            return None;
        }
        let d = i;
        while i < b.len() && b[i].is_ascii_digit() {
            i += 1;
        }
        *n = std::str::from_utf8(&b[d..i]).ok()?.parse().ok()?;
    }
    if i >= b.len() || !b[i].is_ascii_whitespace() {
        return None;
    }
    Some((nums[0], nums[1], nums[2], &b[i + 1..]))
}

fn roundtrip_case(rng: &mut Rng, rep: &mut Report, idx: u64) {
    let (w, h) = (rng.below(49) as u32, rng.below(49) as u32);
    // zero-extent images now and then; and, one case in a hundred, images
    // whose encoding crosses the 8 KiB buffers of BufWriter/BufReader
    let big = idx % 100 == 37;
    let (w, h) = match rng.below(12) {
        _ if big => match rng.below(3) {
            0 => (1 + rng.below(3) as u32, 1 + rng.below(4096) as u32),
            1 => (1 + rng.below(4096) as u32, 1 + rng.below(3) as u32),
            _ => (200 + rng.below(200) as u32, 100 + rng.below(200) as u32),
        },
        0 => (0, h),
        1 => (w, 0),
        _ => (w, h),
    };
    if big {
        rep.count("roundtrip.larger_than_io_buffers");
    }
    // how the image is handed to the writer
    let form = rng.below(7);
    let strided = matches!(form, 1 | 3 | 5);
    let (ox, oy, pr, pb) = if strided { (rng.below(4) as u32, rng.below(4) as u32, rng.below(4) as u32, rng.below(4) as u32) } else { (0, 0, 0, 0) };
    let (pw, ph) = (ox + w + pr, oy + h + pb);
    let px = gen_pixels(rng, (pw * ph) as usize);
    let parent = Buf2::new_from((pw, ph), px.iter().map(|c| rgb(c[0], c[1], c[2])));
    let expect: Vec<[u8; 3]> = (0..h).flat_map(|y| (0..w).map(move |x| (x, y))).map(|(x, y)| px[((oy + y) * pw + ox + x) as usize]).collect();
    let mut hs = Hasher::new();
    hs.u64(w as u64).u64(h as u64).u64(ox as u64).u64(oy as u64).u64(pw as u64).u64(form);
    for c in expect.iter().take(64) {
        hs.bytes(c);
    }
    rep.case(hs.get(), w > 0 && h > 0);
    rep.count(if strided { "roundtrip.strided_subview" } else { "roundtrip.owned" });
    if w == 0 || h == 0 {
        rep.count("roundtrip.zero_width_or_height");
    }
    let form_name = ["&Buf2", "Buf2::slice", "Buf2 by value", "MutSlice2 (slice_mut)", "Slice2::new with stride and surplus tail", "slice of a slice", "as_slice2()"][form as usize];
    rep.count(&format!("roundtrip.form.{form_name}"));
    let cj = || Json::obj().set("image", format!("{w}x{h}")).set("view", if strided { format!("window at ({ox},{oy}) of a {pw}x{ph} buffer") } else { "owned".into() }).set("passed_as", form_name).set("first_pixels", format!("{:?}", &expect[..expect.len().min(4)]));
    // Slice2::new form: own backing data with a wide stride and a tail
    let stride4 = w + 3;
    let data4: Vec<Color3> = {
        let len = if w == 0 || h == 0 { 2 } else { ((h - 1) * stride4 + w + 2) as usize };
        (0..len as u32).map(|i| if i % stride4 < w && i / stride4 < h { let c = expect[((i / stride4) * w + i % stride4) as usize]; rgb(c[0], c[1], c[2]) } else { rgb(9, 9, 9) }).collect()
    };
    let write_to = |out: &mut dyn std::io::Write| -> std::io::Result<()> {
        match form {
            0 => write_ppm(out, &parent),
            1 => write_ppm(out, parent.slice((ox..ox + w, oy..oy + h))),
            2 => write_ppm(out, Buf2::new_from((w, h), expect.iter().map(|c| rgb(c[0], c[1], c[2])))),
            3 => {
                let mut p2 = Buf2::new_from((pw, ph), px.iter().map(|c| rgb(c[0], c[1], c[2])));
                let v: MutSlice2<Color3> = p2.slice_mut((ox..ox + w, oy..oy + h));
                write_ppm(out, v)
            }
            4 => write_ppm(out, Slice2::new((w, h), stride4, &data4[..])),
            5 => write_ppm(out, parent.slice((ox.., oy..)).slice((0..w, 0..h))),
            _ => write_ppm(out, parent.as_slice2()),
        }
    };
    let mut out: Vec<u8> = vec![];
    let wr = catch(|| write_to(&mut out));
    match wr {
        Err(m) => {
            rep.violation("pnm.write_panicked", format!("write_ppm panicked: {m}"), cj());
            return;
        }
        Ok(Err(e)) => {
            rep.violation("pnm.write_failed", format!("write_ppm into a Vec failed: {e}"), cj());
            return;
        }
        Ok(Ok(())) => {}
    }
    // the same through a writer that takes 1..7 bytes per call and reports
    // EINTR now and then: the bytes must be the same
    if idx % 4 == 1 {
        let mut cw = ChunkyWriter::new(hs.get());
        let r = catch(|| write_to(&mut cw));
        rep.add("writer_faults.short_writes", cw.writes - cw.interrupts);
        rep.add("writer_faults.injected_eintr", cw.interrupts);
        match r {
            Ok(Ok(())) if cw.out == out => {}
            Ok(Ok(())) => {
                rep.violation("pnm.roundtrip_pixels", format!("write_ppm through a writer taking short writes produced {} bytes, {} through a Vec", cw.out.len(), out.len()), cj());
                return;
            }
            Ok(Err(e)) => {
                rep.violation("pnm.write_failed", format!("write_ppm failed on a writer that only ever reports short writes and EINTR: {e}"), cj());
                return;
            }
            Err(m) => {
                rep.violation("pnm.write_panicked", format!("write_ppm panicked on a short-write writer: {m}"), cj());
                return;
            }
        }
    }
    // what was written, read by an independent P6 reader (the library's own
    // decoder ignores maxval, so a wrong one would still round-trip)
    match ref_p6(&out) {
        Some((rw, rh, max, raster)) => {
            let flat: Vec<u8> = expect.iter().flatten().copied().collect();
            if (rw, rh) != (w as u64, h as u64) || max != 255 || raster != &flat[..] {
                rep.violation("pnm.encoded_stream_wrong", format!("write_ppm's output is not the P6 encoding of the image: header says {rw}x{rh} maxval {max}, raster {} bytes (expected {}x{}, 255, {} bytes), first difference at {:?}", raster.len(), w, h, flat.len(), raster.iter().zip(&flat).position(|(a, b)| a != b)), cj().set("encoded_head", show(&out[..out.len().min(40)])));
                return;
            }
            rep.count("roundtrip.encoded_stream_checked_by_reference_reader");
        }
        None => {
            rep.violation("pnm.encoded_stream_wrong", "write_ppm's output is not a P6 stream (magic, three numbers, one whitespace byte, raster)".into(), cj().set("encoded_head", show(&out[..out.len().min(40)])));
            return;
        }
    }
    let strided = pw != w || ph != h; // the file round trip below writes the same window
    if idx < 2 {
        rep.sample(|| cj().set("encoded_head", show(&out[..out.len().min(40)])));
    }
    // one case in 16 also goes through the file system: save_ppm / load_pnm
    if idx % 16 == 0 || big {
        let path = scratch_path("rt.ppm");
        let sv = catch(|| if strided { save_ppm(&path, parent.slice((ox..ox + w, oy..oy + h))) } else { save_ppm(&path, &parent) });
        match sv {
            Err(m) => rep.violation("pnm.write_panicked", format!("save_ppm panicked: {m}"), cj()),
            Ok(Err(e)) => rep.count(&format!("file_roundtrip.environment_error({})", e.kind())),
            Ok(Ok(())) => {
                let on_disk = match std::fs::read(&path) {
                    Ok(d) => d,
                    Err(e) => {
                        let _ = std::fs::remove_file(&path);
                        rep.count(&format!("file_roundtrip.environment_error({})", e.kind()));
                        return;
                    }
                };
                let ld = catch(|| load_pnm(&path).map(|b| (b.width(), b.height(), b.data().iter().map(|c| c.0).collect::<Vec<_>>())).map_err(|e| format!("{e:?}")));
                let _ = std::fs::remove_file(&path);
                if on_disk != out {
                    rep.violation("pnm.roundtrip_pixels", format!("save_ppm wrote {} bytes that differ from write_ppm's {} bytes for the same image", on_disk.len(), out.len()), cj());
                } else {
                    match ld {
                        Err(m) => rep.violation("pnm.decode_panicked", format!("load_pnm panicked: {m}"), cj()),
                        Ok(Err(e)) => rep.violation("pnm.roundtrip_rejected", format!("load_pnm rejects the file save_ppm wrote: {e}"), cj().set("encoded", show(&out))),
                        Ok(Ok((gw, gh, gp))) => {
                            if (gw, gh) != (w, h) {
                                rep.violation("pnm.roundtrip_dims", format!("saved {w}x{h}, loaded {gw}x{gh}"), cj());
                            } else if gp != expect {
                                rep.violation("pnm.roundtrip_pixels", "save_ppm / load_pnm round trip changed pixels".into(), cj());
                            } else {
                                rep.count("file_roundtrip.save_load_compared");
                            }
                        }
                    }
                }
            }
        }
    }
    match decode_both(rep, &out, "round trip of write_ppm output") {
        None => {}
        Some(Err(e)) => rep.violation("pnm.roundtrip_rejected", format!("the decoder rejects write_ppm's own output: {e}"), cj().set("encoded", show(&out))),
        Some(Ok((gw, gh, gp))) => {
            if (gw, gh) != (w, h) {
                rep.violation("pnm.roundtrip_dims", format!("wrote {w}x{h}, read back {gw}x{gh}"), cj().set("encoded", show(&out)));
            } else if gp != expect {
                let i = gp.iter().zip(&expect).position(|(a, b)| a != b).unwrap_or(0);
                rep.violation("pnm.roundtrip_pixels", format!("pixel {i} (x={}, y={}) read back as {:?}, written as {:?}", i as u32 % w.max(1), i as u32 / w.max(1), gp.get(i), expect.get(i)), cj().set("encoded", show(&out)));
            } else {
                rep.add("roundtrip.pixels_compared", expect.len() as u64);
            }
        }
    }
}

/// Whitespace run, optionally with whitespace-preceded comments.
fn gap(rng: &mut Rng, out: &mut Vec<u8>, allow_comment: bool) {
    let n = 1 + rng.below(3);
    for _ in 0..n {
        // u8::is_ascii_whitespace: space, tab, LF, FF, CR
        out.push(rng.pick(b" \n\t\r  \n\x0c"));
    }
    // up to three whitespace-preceded comments in one gap; any byte except
    // the line terminators may appear in a comment
    let mut k = if allow_comment { [0usize, 0, 0, 1, 1, 2, 3][rng.usize(7)] } else { 0 };
    while k > 0 {
        k -= 1;
        out.push(b'#');
        // now and then a comment longer than any line or block buffer
        let len = if rng.chance(1, 300) { rng.pick(&[100u64, 255, 256, 1023, 1024, 1025, 4096, 8192, 8193, 20000]) } else { rng.below(12) };
        for _ in 0..len {
            let c = if rng.chance(1, 4) { rng.u64() as u8 } else { rng.pick(b"abc 123#P6\t") };
            out.push(if c == b'\n' || c == b'\r' { b'.' } else { c });
        }
        out.push(b'\n');
        let m = rng.below(3);
        for _ in 0..m {
            out.push(rng.pick(b" \n\t\x0c"));
        }
    }
}

fn encode(rng: &mut Rng, magic: &[u8; 2], w: u32, h: u32, gray: &[u8], rgbs: &[[u8; 3]]) -> Vec<u8> {
    let mut o = magic.to_vec();
    gap(rng, &mut o, true);
    o.extend(w.to_string().bytes());
    gap(rng, &mut o, true);
    o.extend(h.to_string().bytes());
    gap(rng, &mut o, true);
    o.extend(b"255");
    match magic {
        b"P5" => {
            o.push(rng.pick(b" \n\t\r\x0c"));
            o.extend(gray);
        }
        b"P6" => {
            o.push(rng.pick(b" \n\t\r\x0c"));
            for c in rgbs {
                o.extend(c);
            }
        }
        // (comments belong between the header fields; inside the raster only
        // whitespace separates the samples)
        b"P2" => {
            for g in gray {
                gap(rng, &mut o, false);
                o.extend(g.to_string().bytes());
            }
            if rng.bool() {
                o.push(b'\n');
            }
        }
        _ => {
            for c in rgbs {
                for s in c {
                    gap(rng, &mut o, false);
                    o.extend(s.to_string().bytes());
                }
            }
            if rng.bool() {
                o.push(b'\n');
            }
        }
    }
    o
}

fn equivalence_case(rng: &mut Rng, rep: &mut Report) {
    let (w, h) = (rng.below(13) as u32, rng.below(13) as u32);
    let n = (w * h) as usize;
    let gray: Vec<u8> = (0..n)
        .map(|_| {
            let r = rng.u64() as u8;
            rng.pick(&[r, b' ', b'#', b'\n', b'7', 0, 255, b'\t', b'\r', 0x0c, 0x0b])
        })
        .collect();
    let rgbs = gen_pixels(rng, n);
    let mut hs = Hasher::new();
    hs.u64(w as u64).u64(h as u64).bytes(&gray);
    for c in &rgbs {
        hs.bytes(c);
    }
    rep.case(hs.get(), n > 0);
    let exp_gray: Vec<[u8; 3]> = gray.iter().map(|g| [*g, *g, *g]).collect();
    for (magic, exp) in [(b"P5", &exp_gray), (b"P2", &exp_gray), (b"P6", &rgbs), (b"P3", &rgbs)] {
        let bytes = encode(rng, magic, w, h, &gray, &rgbs);
        let name = std::str::from_utf8(magic).unwrap();
        rep.count(&format!("equivalence.{name}"));
        let cj = || Json::obj().set("format", name).set("dims", format!("{w}x{h}")).set("input", show(&bytes));
        match decode_both(rep, &bytes, "well-formed file from the harness encoder") {
            None => return,
            Some(Err(e)) => {
                rep.violation("pnm.wellformed_rejected", format!("well-formed {name} file rejected: {e}"), cj());
                return;
            }
            Some(Ok((gw, gh, gp))) => {
                if (gw, gh) != (w, h) || &gp != exp {
                    rep.violation(
                        "pnm.wellformed_decoded_wrong",
                        format!("{name} file of {w}x{h} decoded to {gw}x{gh}, first differing pixel {:?}", gp.iter().zip(exp.iter()).position(|(a, b)| a != b)),
                        cj(),
                    );
                    return;
                }
            }
        }
    }
    rep.add("equivalence.pixels_compared", 4 * n as u64);
}

/// Independent header reader. Returns (dims, plain) where plain = every '#'
/// in the header is preceded by whitespace (the spelling the property
/// covers); None if the header is not parseable by this reader.
fn read_header(b: &[u8]) -> Option<((u64, u64), bool)> {
    if b.len() < 2 || b[0] != b'P' || !(b'1'..=b'6').contains(&b[1]) {
        return None;
    }
    let mut i = 2;
    let mut plain = true;
    let mut nums = vec![];
    let want = if b[1] == b'1' || b[1] == b'4' { 2 } else { 3 };
    while nums.len() < want {
        // skip whitespace and comments
        loop {
            if i >= b.len() {
                return None;
            }
            if b[i].is_ascii_whitespace() {
                i += 1;
            } else if b[i] == b'#' {
                if !b[i - 1].is_ascii_whitespace() {
                    plain = false;
                }
                while i < b.len() && b[i] != b'\n' {
                    // a decoder may also end comments at CR (Netpbm does)
                    if b[i] == b'\r' {
                        plain = false;
                    }
                    i += 1;
                }
            } else {
                break;
            }
        }
        let s = i;
        while i < b.len() && !b[i].is_ascii_whitespace() && b[i] != b'#' {
            i += 1;
        }
        if i < b.len() && b[i] == b'#' {
            plain = false;
        }
        let tok = std::str::from_utf8(&b[s..i]).ok()?;
        if !tok.bytes().all(|c| c.is_ascii_digit()) {
            // "+5" and the like: whether a sign is accepted is the decoder's
            // business; this reader only vouches for plain digit strings
            plain = false;
        }
        nums.push(tok.parse::<u64>().ok()?);
    }
    Some(((nums[0], nums[1]), plain))
}

const DICT: &[&[u8]] = &[
    b"0", b"1", b"2", b"-1", b"255", b"256", b"65535", b"65536", b"4294967295", b"4294967296", b"99999999999999999999", b"#", b"# c\n", b"\n", b" ", b"\t", b"\r\n", b"P1", b"P2", b"P3", b"P4", b"P5", b"P6", b"P7", b"\xff", b"\x00", b"+5", b"1e3", b"0x10",
];

const SEEDS: &[&[u8]] = &[
    b"P6 2 2 255\n\x01\x02\x03\x04\x05\x06\x07\x08\x09\x0a\x0b\x0c",
    b"P5 3 2 255\nabcdef",
    b"P2 2 2 255\n1 2 3 4\n",
    b"P3 1 2 255\n1 2 3 4 5 6\n",
    b"P4 9 2\n\xff\x00\xaa\x55",
    b"P1 3 1\n1 0 1\n",
    b"P6 # c\n 2 # d\n 1 255\n123456",
    b"P6 0 5 255\n",
    b"P5 0 1 255\nabc",
    b"P6 65536 65536 255\n",
    b"P2 4294967295 2 255\n1 2",
    b"P3\n3\n1\n255\n0 0 0  9 9 9  255 255 255",
];

fn totality_case(rng: &mut Rng, rep: &mut Report, idx: u64) {
    let bytes: Vec<u8> = match rng.below(10) {
        0 => {
            let n = rng.below(64) as usize;
            (0..n).map(|_| rng.u64() as u8).collect()
        }
        1 => {
            // valid header with hostile numeric fields, little data
            let m = rng.pick(&[b"P2", b"P3", b"P5", b"P6", b"P4"]);
            let mut o = m.to_vec();
            for _ in 0..3 {
                o.push(b' ');
                o.extend(DICT[rng.usize(12)]);
            }
            o.push(b'\n');
            let n = rng.below(20);
            for _ in 0..n {
                o.push(rng.pick(b"0123456789 \n#ab"));
            }
            o
        }
        2 => {
            // truncate a seed at every offset (idx-driven)
            let s = SEEDS[rng.usize(SEEDS.len())];
            s[..(idx as usize) % (s.len() + 1)].to_vec()
        }
        _ => {
            let s = SEEDS[rng.usize(SEEDS.len())];
            mutate(rng, s, DICT)
        }
    };
    let mut hs = Hasher::new();
    hs.bytes(&bytes);
    match decode_both(rep, &bytes, "arbitrary / mutated bytes") {
        None => rep.case(hs.get(), true),
        Some(Err(_)) => {
            rep.case(hs.get(), false);
            rep.count("totality.rejected_with_error");
        }
        Some(Ok((w, h, px))) => {
            rep.case(hs.get(), true);
            rep.count("totality.decoded_ok");
            let cj = || Json::obj().set("input", show(&bytes));
            if px.len() as u64 != w as u64 * h as u64 {
                rep.violation("pnm.pixel_count_ne_w_times_h", format!("Ok(image) of dims {w}x{h} holds {} pixels", px.len()), cj());
                return;
            }
            match read_header(&bytes) {
                Some(((hw, hh), true)) => {
                    rep.count("totality.dims_cross_checked");
                    if (hw, hh) != (w as u64, h as u64) {
                        rep.violation("pnm.dims_ne_header", format!("header says {hw}x{hh}, the decoded image is {w}x{h}"), cj());
                    }
                }
                Some((_, false)) => rep.count("totality.comment_not_whitespace_preceded(dims unjudged)"),
                None => {
                    // the library accepted a header this reader cannot parse
                    rep.count("totality.header_unreadable_by_reference_reader(dims unjudged)");
                }
            }
        }
    }
    if idx < 2 {
        rep.sample(|| Json::obj().set("input", show(&bytes)));
    }
}

fn pin(bytes: &[u8]) -> Result<(), String> {
    let mut r2 = Report::new();
    decode_both(&mut r2, bytes, "pin");
    match r2.violations.values().next() {
        None => Ok(()),
        Some(v) => Err(v.firsts[0].detail.clone()),
    }
}

pub fn run(cfg: &Cfg, rep: &mut Report) {
    rep.rule = "round trip: images 0..48 px a side (owned and strided sub-views, zero extents) with pixel bytes biased towards whitespace/'#'/digits; equivalence: the harness encoder's P5/P2/P6/P3 spellings of one image with random whitespace runs and whitespace-preceded comments; totality: mutated seed files (dictionary of hostile numbers/tokens), truncations at every offset, hostile headers, raw random bytes (≤ 64 KiB); non-trivial = decodes to a non-empty image or provokes a violation; distinct by hash of the bytes".into();
    rep.assumptions.push("dims are cross-checked with an independent header reader only when every '#' in the header is preceded by whitespace (the spelling the property covers); otherwise only pixel count = w·h is asserted".into());
    rep.assumptions.push("P1/P4 bitmaps: totality only".into());
    rep.pin("F3a.zero_width_P6", pin(b"P6 0 5 255\n"));
    rep.pin("F3a.zero_width_P5_surplus", pin(b"P5 0 1 255\nabc"));
    rep.pin("F3b.dims_product_overflow", pin(b"P6 65536 65536 255\n"));
    rep.pin("F3b.dims_product_overflow_text", pin(b"P2 4294967295 2 255\n1 2"));

    rep.run_stream(cfg, 0, "roundtrip", cfg.n(40_000, 4_000_000), |rng, i, rep| roundtrip_case(rng, rep, i));
    rep.run_stream(cfg, 1, "format_equivalence", cfg.n(40_000, 4_000_000), |rng, _, rep| equivalence_case(rng, rep));
    rep.run_stream(cfg, 2, "totality", cfg.n(600_000, 60_000_000), |rng, i, rep| totality_case(rng, rep, i));
    rep.floor("roundtrip.pixels_compared", 1_000_000);
    rep.floor("roundtrip.strided_subview", 5_000);
    rep.floor("roundtrip.zero_width_or_height", 1_000);
    rep.floor("equivalence.pixels_compared", 1_000_000);
    rep.floor("totality.decoded_ok", 5_000);
    rep.floor("totality.rejected_with_error", 100_000);
    rep.floor("totality.dims_cross_checked", 3_000);
    rep.floor("reader_faults.injected_eintr", 100_000);
    rep.floor("reader_faults.hard_failure_midstream", 100_000);
    rep.floor("file_roundtrip.save_load_compared", 1_000);
    rep.floor("roundtrip.larger_than_io_buffers", 200);
    rep.floor("roundtrip.encoded_stream_checked_by_reference_reader", 30_000);
    rep.floor("writer_faults.injected_eintr", 10_000);
    for f in ["&Buf2", "Buf2::slice", "Buf2 by value", "MutSlice2 (slice_mut)", "Slice2::new with stride and surplus tail", "slice of a slice", "as_slice2()"] {
        rep.floor(&format!("roundtrip.form.{f}"), 2_000);
    }
    let _: Option<Color3> = None;
}
