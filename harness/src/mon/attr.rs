//! Attribute (varying) types the rendering monitors are instantiated with.

use re::math::angle::{rads, Angle};
use re::math::color::{rgb, rgba, Color3f, Color4f};
use re::math::point::{pt2, pt3, Point2, Point3};
use re::math::vary::Vary;
use re::math::vec::{vec2, vec3, Vec2, Vec3};
use re::math::Lerp;

pub const MAXC: usize = 5;

pub trait Attr: Vary + Lerp + Clone + Send + Sync + 'static {
    const N: usize;
    const NAME: &'static str;
    fn make(c: &[f32]) -> Self;
    fn comps(&self) -> [f32; MAXC];
}

impl Attr for f32 {
    const N: usize = 1;
    const NAME: &'static str = "f32";
    fn make(c: &[f32]) -> Self {
        c[0]
    }
    fn comps(&self) -> [f32; MAXC] {
        [*self, 0.0, 0.0, 0.0, 0.0]
    }
}
impl Attr for Vec2 {
    const N: usize = 2;
    const NAME: &'static str = "Vec2";
    fn make(c: &[f32]) -> Self {
        vec2(c[0], c[1])
    }
    fn comps(&self) -> [f32; MAXC] {
        [self.0[0], self.0[1], 0.0, 0.0, 0.0]
    }
}
impl Attr for Vec3 {
    const N: usize = 3;
    const NAME: &'static str = "Vec3";
    fn make(c: &[f32]) -> Self {
        vec3(c[0], c[1], c[2])
    }
    fn comps(&self) -> [f32; MAXC] {
        [self.0[0], self.0[1], self.0[2], 0.0, 0.0]
    }
}
impl Attr for Color3f {
    const N: usize = 3;
    const NAME: &'static str = "Color3f";
    fn make(c: &[f32]) -> Self {
        rgb(c[0], c[1], c[2])
    }
    fn comps(&self) -> [f32; MAXC] {
        [self.0[0], self.0[1], self.0[2], 0.0, 0.0]
    }
}
impl Attr for Color4f {
    const N: usize = 4;
    const NAME: &'static str = "Color4f";
    fn make(c: &[f32]) -> Self {
        rgba(c[0], c[1], c[2], c[3])
    }
    fn comps(&self) -> [f32; MAXC] {
        [self.0[0], self.0[1], self.0[2], self.0[3], 0.0]
    }
}
impl Attr for (Vec2, f32) {
    const N: usize = 3;
    const NAME: &'static str = "(Vec2,f32)";
    fn make(c: &[f32]) -> Self {
        (vec2(c[0], c[1]), c[2])
    }
    fn comps(&self) -> [f32; MAXC] {
        [self.0 .0[0], self.0 .0[1], self.1, 0.0, 0.0]
    }
}
impl Attr for (f32, Vec3) {
    const N: usize = 4;
    const NAME: &'static str = "(f32,Vec3)";
    fn make(c: &[f32]) -> Self {
        (c[0], vec3(c[1], c[2], c[3]))
    }
    fn comps(&self) -> [f32; MAXC] {
        [self.0, self.1 .0[0], self.1 .0[1], self.1 .0[2], 0.0]
    }
}
impl Attr for Angle {
    const N: usize = 1;
    const NAME: &'static str = "Angle";
    fn make(c: &[f32]) -> Self {
        rads(c[0])
    }
    fn comps(&self) -> [f32; MAXC] {
        [self.to_rads(), 0.0, 0.0, 0.0, 0.0]
    }
}
impl Attr for Point3 {
    const N: usize = 3;
    const NAME: &'static str = "Point3";
    fn make(c: &[f32]) -> Self {
        pt3(c[0], c[1], c[2])
    }
    fn comps(&self) -> [f32; MAXC] {
        [self.0[0], self.0[1], self.0[2], 0.0, 0.0]
    }
}
impl Attr for ((Vec2, f32), Vec2) {
    const N: usize = 5;
    const NAME: &'static str = "((Vec2,f32),Vec2)";
    fn make(c: &[f32]) -> Self {
        ((vec2(c[0], c[1]), c[2]), vec2(c[3], c[4]))
    }
    fn comps(&self) -> [f32; MAXC] {
        [self.0 .0 .0[0], self.0 .0 .0[1], self.0 .1, self.1 .0[0], self.1 .0[1]]
    }
}
impl Attr for (Color3f, Point2) {
    const N: usize = 5;
    const NAME: &'static str = "(Color3f,Point2)";
    fn make(c: &[f32]) -> Self {
        (rgb(c[0], c[1], c[2]), pt2(c[3], c[4]))
    }
    fn comps(&self) -> [f32; MAXC] {
        [self.0 .0[0], self.0 .0[1], self.0 .0[2], self.1 .0[0], self.1 .0[1]]
    }
}
