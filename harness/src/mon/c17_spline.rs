//! C17 — Bézier curves and splines evaluate, differentiate and subdivide
//! correctly.
//!
//! Events: values of eval/fast_eval/tangent/approximate; the argument/result
//! log of the caller-supplied `halt` closure (harness code), which lets the
//! monitor replay the whole recursion tree of `approximate`.
//! Oracle: Bernstein form and its derivative in f64 on the exact f32 inputs.

use crate::{catch, f32s, f32v, next_down, next_up, Cfg, Hasher, Json, Report, Rng};
use re::geom::Ray;
use re::math::angle::{rads, Angle};
use re::math::color::{rgb, rgba, Color3f, Color4f};
use re::math::point::{pt2, pt3, Point2, Point3};
use re::math::space::{Affine, Linear};
use re::math::spline::{BezierSpline, CubicBezier};
use re::math::vec::{vec2, vec3, Vec2, Vec3};
use re::math::Lerp;
use std::cell::RefCell;

pub trait Sp: Affine<Diff: Linear<Scalar = f32> + Clone> + Clone + Lerp + 'static {
    const N: usize;
    const NAME: &'static str;
    fn make(c: &[f32]) -> Self;
    fn comps(&self) -> [f32; 4];
    fn dcomps(d: &Self::Diff) -> [f32; 4];
}
macro_rules! sp {
    ($t:ty, $n:expr, $name:expr, |$c:ident| $mk:expr, |$s:ident| $cs:expr, |$d:ident| $ds:expr) => {
        impl Sp for $t {
            const N: usize = $n;
            const NAME: &'static str = $name;
            fn make($c: &[f32]) -> Self {
                $mk
            }
            fn comps(&self) -> [f32; 4] {
                let $s = self;
                $cs
            }
            fn dcomps($d: &Self::Diff) -> [f32; 4] {
                $ds
            }
        }
    };
}
sp!(f32, 1, "f32", |c| c[0], |s| [*s, 0., 0., 0.], |d| [*d, 0., 0., 0.]);
sp!(Vec2, 2, "Vec2", |c| vec2(c[0], c[1]), |s| [s.0[0], s.0[1], 0., 0.], |d| [d.0[0], d.0[1], 0., 0.]);
sp!(Vec3, 3, "Vec3", |c| vec3(c[0], c[1], c[2]), |s| [s.0[0], s.0[1], s.0[2], 0.], |d| [d.0[0], d.0[1], d.0[2], 0.]);
sp!(Point2, 2, "Point2", |c| pt2(c[0], c[1]), |s| [s.0[0], s.0[1], 0., 0.], |d| [d.0[0], d.0[1], 0., 0.]);
sp!(Point3, 3, "Point3", |c| pt3(c[0], c[1], c[2]), |s| [s.0[0], s.0[1], s.0[2], 0.], |d| [d.0[0], d.0[1], d.0[2], 0.]);
sp!(Color4f, 4, "Color4f", |c| rgba(c[0], c[1], c[2], c[3]), |s| s.0, |d| d.0);
sp!(Color3f, 3, "Color3f", |c| rgb(c[0], c[1], c[2]), |s| [s.0[0], s.0[1], s.0[2], 0.], |d| [d.0[0], d.0[1], d.0[2], 0.]);
sp!(Angle, 1, "Angle", |c| rads(c[0]), |s| [s.to_rads(), 0., 0., 0.], |d| [d.to_rads(), 0., 0., 0.]);

fn bernstein(p: &[[f64; 4]; 4], t: f64) -> [f64; 4] {
    let u = 1.0 - t;
    let b = [u * u * u, 3.0 * u * u * t, 3.0 * u * t * t, t * t * t];
    std::array::from_fn(|c| (0..4).map(|i| b[i] * p[i][c]).sum())
}
fn bernstein_d(p: &[[f64; 4]; 4], t: f64) -> [f64; 4] {
    let u = 1.0 - t;
    let b = [3.0 * u * u, 6.0 * u * t, 3.0 * t * t];
    std::array::from_fn(|c| (0..3).map(|i| b[i] * (p[i + 1][c] - p[i][c])).sum())
}

fn gen_ctrl(rng: &mut Rng, n: usize, npts: usize) -> (Vec<[f32; 4]>, f64) {
    let mag = rng.pick(&[1e-3f32, 1.0, 1.0, 100.0, 1e4]);
    let style = rng.below(8);
    let mut pts: Vec<[f32; 4]> = vec![];
    let base: [f32; 4] = std::array::from_fn(|_| rng.f32_in(-1.0, 1.0) * mag);
    let dir: [f32; 4] = std::array::from_fn(|_| rng.f32_in(-1.0, 1.0) * mag);
    for i in 0..npts {
        let mut p = [0.0f32; 4];
        for (c, pc) in p.iter_mut().enumerate().take(n) {
            *pc = match style {
                0 => base[c],                                         // all coincident
                1 => base[c] + dir[c] * (i as f32 / npts as f32),     // collinear
                2 if i % 2 == 0 => base[c],                           // repeated points
                3 => (rng.int(-8, 8) as f32) * mag,                   // lattice
                6 => base[c] * 1e3 + rng.f32_in(-1.0, 1.0) * mag,     // far from the origin, small extent
                7 => rng.sign() * rng.log_f32(1e-6, 1e6),             // every point its own magnitude
                _ => rng.f32_in(-1.0, 1.0) * mag,
            };
        }
        pts.push(p);
    }
    let maxc = pts.iter().flatten().fold(0.0f64, |a, x| a.max(x.abs() as f64)).max(1e-30);
    (pts, maxc)
}

fn t_palette(rng: &mut Rng, segs: u32) -> f32 {
    match rng.below(16) {
        12 => -rng.pick(&[1e-45f32, 1e-30, 1e-8, 1e-7, -0.0]),
        13 => {
            let mut t = 1.0f32;
            for _ in 0..rng.pick(&[1u32, 2, 4]) {
                t = next_up(t);
            }
            t
        }
        14 => rng.sign() * rng.pick(&[3e38f32, 1e10, f32::INFINITY, 4.3e9]),
        15 => rng.pick(&[1e-6f32, 1.0 - 1e-6, 1e-30, 1e-45]),
        0 => -rng.f32_in(0.0, 3.0),
        1 => 0.0,
        2 => 1.0,
        3 => 1.0 + rng.f32_in(0.0, 3.0),
        4 => next_up(0.0),
        5 => next_down(1.0),
        6 | 7 => {
            let k = rng.below(segs as u64 + 1) as f32 / segs as f32;
            rng.ulp_nudge(k).clamp(0.0, 1.0)
        }
        8 => rng.pick(&[0.5f32, 0.25, 0.75, 1.0 / 3.0, 2.0 / 3.0]),
        _ => rng.f32_in(0.0, 1.0),
    }
}

fn bezier_case<T: Sp>(rng: &mut Rng, rep: &mut Report, idx: u64) {
    let (mut pts, maxc) = gen_ctrl(rng, T::N, 4);
    // the control values as the type holds them (a type that stores another
    // unit internally need not give back the very bits it was made from)
    for p in pts.iter_mut() {
        let held = T::make(p).comps();
        p[..T::N].copy_from_slice(&held[..T::N]);
    }
    let p64: [[f64; 4]; 4] = std::array::from_fn(|i| pts[i].map(|x| x as f64));
    let curve = CubicBezier([T::make(&pts[0]), T::make(&pts[1]), T::make(&pts[2]), T::make(&pts[3])]);
    let mut hs = Hasher::new();
    for p in &pts {
        hs.f32s(&p[..T::N]);
    }
    hs.bytes(T::NAME.as_bytes());
    rep.case(hs.get(), pts.iter().any(|p| p != &pts[0]));
    rep.count(&format!("type.{}", T::NAME));
    let cj = |t: f32| Json::obj().set("type", T::NAME).set("controls", Json::Arr(pts.iter().map(|p| Json::Str(f32v(&p[..T::N]))).collect())).set("t", f32s(t));
    if idx < 2 {
        rep.sample(|| cj(0.5));
    }
    let tol = 1e-5 * maxc;
    let (lo, hi): ([f64; 4], [f64; 4]) = (std::array::from_fn(|c| (0..4).map(|i| p64[i][c]).fold(f64::INFINITY, f64::min)), std::array::from_fn(|c| (0..4).map(|i| p64[i][c]).fold(f64::NEG_INFINITY, f64::max)));
    for _ in 0..12 {
        let t = t_palette(rng, 1);
        let r = catch(|| (curve.eval(t).comps(), curve.fast_eval(t).comps(), T::dcomps(&curve.tangent(t))));
        let (e, f, tg) = match r {
            Ok(x) => x,
            Err(m) => {
                rep.violation("spline.bezier_panicked", format!("eval/fast_eval/tangent panicked: {m}"), cj(t));
                return;
            }
        };
        rep.count("bezier.evaluations");
        if t <= 0.0 || t >= 1.0 {
            let end = if t <= 0.0 { pts[0] } else { pts[3] };
            if (0..T::N).any(|c| e[c].to_bits() != end[c].to_bits() || f[c].to_bits() != end[c].to_bits()) {
                rep.violation("spline.bezier_endpoint_not_exact", format!("at t={t} eval={:?} fast_eval={:?}, expected the {} control point {:?} exactly", &e[..T::N], &f[..T::N], if t <= 0.0 { "first" } else { "last" }, &end[..T::N]), cj(t));
                return;
            }
        }
        let tc = (t as f64).clamp(0.0, 1.0);
        let b = bernstein(&p64, tc);
        let d = bernstein_d(&p64, tc);
        for c in 0..T::N {
            let (ee, ef, eef) = ((e[c] as f64 - b[c]).abs(), (f[c] as f64 - b[c]).abs(), (e[c] as f64 - f[c] as f64).abs());
            rep.worst("bezier_eval_err/tol", ee.max(ef).max(eef) / tol, 1.0, String::new);
            if !(ee <= tol && ef <= tol && eef <= tol) {
                rep.violation(
                    if ee > tol { "spline.bezier_eval_wrong" } else { "spline.bezier_fast_eval_wrong" },
                    format!("t={t} comp {c}: eval={} fast_eval={} Bernstein={} (tol {tol:.2e})", e[c], f[c], b[c]),
                    cj(t),
                );
                return;
            }
            if (e[c] as f64) < lo[c] - tol || (e[c] as f64) > hi[c] + tol {
                rep.violation("spline.bezier_outside_control_box", format!("t={t} comp {c}: {} outside [{}, {}]", e[c], lo[c], hi[c]), cj(t));
                return;
            }
            let et = (tg[c] as f64 - d[c]).abs();
            rep.worst("bezier_tangent_err/tol", et / (12.0 * tol), 1.0, String::new);
            if !(et <= 12.0 * tol) {
                rep.violation("spline.bezier_tangent_wrong", format!("t={t} comp {c}: tangent={} derivative of the Bernstein form={} (tol {:.2e})", tg[c], d[c], 12.0 * tol), cj(t));
                return;
            }
        }
    }
    // NaN: no panic
    if catch(|| (curve.eval(f32::NAN), curve.fast_eval(f32::NAN), curve.tangent(f32::NAN))).is_err() {
        rep.violation("spline.bezier_panicked", "eval/fast_eval/tangent panicked for t = NaN".into(), cj(f32::NAN));
    }
}

fn spline_case<T: Sp>(rng: &mut Rng, rep: &mut Report, idx: u64) {
    let segs = 1 + rng.below(8) as u32;
    let npts = 3 * segs as usize + 1;
    let (mut pts, maxc) = gen_ctrl(rng, T::N, npts);
    for p in pts.iter_mut() {
        let held = T::make(p).comps();
        p[..T::N].copy_from_slice(&held[..T::N]);
    }
    let ctrl: Vec<T> = pts.iter().map(|p| T::make(p)).collect();
    let sp = BezierSpline::new(&ctrl);
    let mut hs = Hasher::new();
    for p in &pts {
        hs.f32s(&p[..T::N]);
    }
    hs.bytes(T::NAME.as_bytes()).u64(segs as u64);
    rep.case(hs.get(), pts.iter().any(|p| p != &pts[0]));
    rep.count(&format!("spline.segments_{segs}"));
    let cj = |t: f32| Json::obj().set("type", T::NAME).set("segments", segs).set("controls", Json::Arr(pts.iter().map(|p| Json::Str(f32v(&p[..T::N]))).collect())).set("t", f32s(t));
    if idx < 2 {
        rep.sample(|| cj(0.5));
    }
    // derivative bound of any segment
    let dmax = (1..npts).map(|i| (0..T::N).map(|c| (pts[i][c] as f64 - pts[i - 1][c] as f64).abs()).fold(0.0, f64::max)).fold(0.0, f64::max) * 3.0;
    let tol = 2e-5 * maxc + dmax * segs as f64 * 4.0 * 1.2e-7;
    let seg64 = |i: usize| -> [[f64; 4]; 4] { std::array::from_fn(|k| pts[3 * i + k].map(|x| x as f64)) };
    for j in 0..16 {
        // joins k/n and their f32 neighbours first, then the palette
        let t = if j <= segs as usize { j as f32 / segs as f32 } else { t_palette(rng, segs) };
        for t in [t, next_down(t).max(0.0), next_up(t).min(1.0)] {
            let r = catch(|| (sp.eval(t).comps(), T::dcomps(&sp.tangent(t))));
            let (e, tg) = match r {
                Ok(x) => x,
                Err(m) => {
                    rep.violation("spline.spline_panicked", format!("eval/tangent panicked: {m}"), cj(t));
                    return;
                }
            };
            rep.count("spline.evaluations");
            let tc = (t as f64).clamp(0.0, 1.0);
            let x = tc * segs as f64;
            let i = (x.floor() as usize).min(segs as usize - 1);
            let u = x - i as f64;
            let b = bernstein(&seg64(i), u);
            let d = bernstein_d(&seg64(i), u);
            for c in 0..T::N {
                let ee = (e[c] as f64 - b[c]).abs();
                rep.worst("spline_eval_err/tol", ee / tol, 1.0, String::new);
                if !(ee <= tol) {
                    rep.violation("spline.spline_eval_wrong", format!("t={t} comp {c}: eval={} but segment {i}'s cubic at u={u:.7} gives {} (tol {tol:.2e})", e[c], b[c]), cj(t));
                    return;
                }
                // tangent w.r.t. the segment-local parameter, as the code documents
                let et = (tg[c] as f64 - d[c]).abs();
                let ttol = 12.0 * tol + 6.0 * dmax * segs as f64 * 4.0 * 1.2e-7;
                // within rounding of a join the library may have picked the
                // neighbouring segment: its derivative at the shared point is
                // accepted as well (beyond the ends tangent() clamps, as documented)
                let near_join = u <= 1e-6 || u >= 1.0 - 1e-6;
                let alt_ok = near_join && {
                    let other = if u <= 1e-6 && i > 0 {
                        Some(bernstein_d(&seg64(i - 1), 1.0))
                    } else if u >= 1.0 - 1e-6 && i + 1 < segs as usize {
                        Some(bernstein_d(&seg64(i + 1), 0.0))
                    } else {
                        None
                    };
                    other.is_some_and(|o| (tg[c] as f64 - o[c]).abs() <= ttol)
                };
                if near_join {
                    rep.count("spline.tangents_judged_at_ends_and_joins");
                } else {
                    // informational: the error against a bound that follows the
                    // curve's own extent rather than its distance from the origin
                    rep.worst("spline_tangent_err/(1e-5*dmax+2e-6*maxc)(informational)", et / (1e-5 * dmax + 2e-6 * maxc + 1e-300), f64::INFINITY, String::new);
                }
                // interior points: a bound that follows the curve's own extent
                // (a wrong tangent on a small curve far from the origin would
                // pass a bound relative to the largest coordinate); the second
                // derivative enters through the rounding of u (≤ 4 ulp of t·segs)
                let ttol = if near_join { ttol } else { ttol.min(1e-5 * dmax + 2e-6 * maxc + 6.0 * dmax * segs as f64 * 4.0 * 1.2e-7) };
                if !(et <= ttol) && !alt_ok {
                    rep.violation("spline.spline_tangent_wrong", format!("t={t} comp {c}: tangent={} segment derivative={} (tol {ttol:.2e})", tg[c], d[c]), cj(t));
                    return;
                }
            }
            // exactly at a join: passes through the shared control point
            if j <= segs as usize && t == j as f32 / segs as f32 {
                let want = pts[3 * j];
                let ee = (0..T::N).map(|c| (e[c] as f64 - want[c] as f64).abs()).fold(0.0, f64::max);
                if !(ee <= tol) {
                    rep.violation("spline.misses_control_point", format!("at t={j}/{segs} eval={:?}, the spline must pass through control point {} = {:?}", &e[..T::N], 3 * j, &want[..T::N]), cj(t));
                    return;
                }
                rep.count("spline.joins_checked");
            }
            if (t <= 0.0 && (0..T::N).any(|c| e[c].to_bits() != pts[0][c].to_bits())) || (t >= 1.0 && (0..T::N).any(|c| e[c].to_bits() != pts[npts - 1][c].to_bits())) {
                rep.violation("spline.spline_endpoint_not_exact", format!("t={t}: eval={:?}", &e[..T::N]), cj(t));
                return;
            }
        }
    }
    if catch(|| (sp.eval(f32::NAN), sp.tangent(f32::NAN), sp.eval(-1.0), sp.tangent(-1.0), sp.eval(7.0), sp.tangent(7.0))).is_err() {
        rep.violation("spline.spline_panicked", "eval/tangent panicked for t outside [0,1] or NaN".into(), cj(f32::NAN));
        return;
    }

    // ---- approximate(): the statement's four clauses, decided on the
    // returned polyline itself. (An earlier version replayed the library's
    // exact recursion from the halt log and demanded its call order and the
    // depth bound 10+⌊log2 len⌋: more than the statement says — a different
    // bound, or levels bisected without asking, keep every clause true.)
    let scale = maxc as f32;
    let mode = rng.below(8);
    let thr = scale * (10.0f32).powi(-(1 + rng.below(8) as i32));
    let never = mode == 1 && segs <= 2; // full depth: 2^bound leaves
    let log: RefCell<Vec<([f32; 4], bool)>> = RefCell::new(vec![]);
    let halt = |e: &T::Diff| -> bool {
        let c = T::dcomps(e);
        let m = c[..T::N].iter().fold(0.0f32, |a, x| a.max(x.abs()));
        let r = match mode {
            0 => true,
            _ if never => false,
            2 if segs <= 2 => m < f32::NAN, // NaN comparison: always false → bounded by depth
            _ => m < thr,
        };
        log.borrow_mut().push((c, r));
        r
    };
    let out = match catch(|| sp.approximate(halt)) {
        Ok(o) => o,
        Err(m) => {
            rep.violation("spline.approximate_panicked", format!("approximate panicked: {m}"), cj(0.0));
            return;
        }
    };
    rep.count("approximate.calls");
    let log = log.into_inner();
    rep.add("approximate.halt_calls", log.len() as u64);
    let always_false = never || (mode == 2 && segs <= 2);
    // (1) starts and ends exactly at the curve's endpoints
    if out.len() < 2 {
        rep.violation("spline.approximate_endpoints", format!("polyline of {} point(s)", out.len()), cj(0.0));
        return;
    }
    let (first, last) = (out[0].comps(), out[out.len() - 1].comps());
    if (0..T::N).any(|c| first[c].to_bits() != pts[0][c].to_bits() || last[c].to_bits() != pts[npts - 1][c].to_bits()) {
        rep.violation("spline.approximate_endpoints", format!("polyline runs from {:?} to {:?}; the curve from {:?} to {:?}", &first[..T::N], &last[..T::N], &pts[0][..T::N], &pts[npts - 1][..T::N]), cj(0.0));
        return;
    }
    // (2) curve points at strictly increasing dyadic parameters: fit the
    // aligned dyadic partition of [0,1] whose break points evaluate, bit for
    // bit, to the returned points. [a,b] is one piece iff the point after
    // curve(a) is curve(b). With pairwise distinct points the fit is unique;
    // with repeated values (constant, closed, lattice curves) a leaf-first fit
    // is one of several and a failure further down is counted, not judged.
    let bits = |v: &T| -> [u32; 4] {
        let c = v.comps();
        std::array::from_fn(|k| if k < T::N { c[k].to_bits() } else { 0 })
    };
    let ob: Vec<[u32; 4]> = out.iter().map(&bits).collect();
    // "the same point": the same bits, or within 16 ulps of the largest
    // control value (a polyline built with the other evaluator, or by
    // subdivision, holds curve points that differ from eval() in the last bits)
    let ptol = 16.0 * f32::EPSILON * maxc as f32;
    let bits_distinct = {
        let mut s = ob.clone();
        s.sort();
        s.windows(2).all(|w| w[0] != w[1])
    };
    let far_apart = ob.windows(2).all(|w| (0..T::N).any(|k| (f32::from_bits(w[0][k]) - f32::from_bits(w[1][k])).abs() > 4.0 * ptol));
    let distinct = bits_distinct;
    struct Fit<'a, T: Sp> {
        sp: &'a BezierSpline<T>,
        ob: &'a [[u32; 4]],
        pieces: Vec<(f32, f32, u32)>,
        bad: Option<String>,
        ptol: f32,
        n: usize,
    }
    fn same_point(x: &[u32; 4], y: &[u32; 4], n: usize, ptol: f32) -> bool {
        x == y || (0..n).all(|k| (f32::from_bits(x[k]) - f32::from_bits(y[k])).abs() <= ptol)
    }
    const DEPTH_CAP: u32 = 30;
    fn fit<T: Sp>(f: &mut Fit<T>, i: usize, a: f32, b: f32, dep: u32, bits: &dyn Fn(&T) -> [u32; 4]) -> usize {
        if f.bad.is_some() {
            return i;
        }
        if i + 1 >= f.ob.len() {
            f.bad = Some(format!("the polyline ends at point {i} although [{a},{b}] is still to be covered"));
            return i;
        }
        let end = if b == 1.0 { f.ob[f.ob.len() - 1] } else { bits(&f.sp.eval(b)) };
        let last_piece_ok = b != 1.0 || i + 2 == f.ob.len();
        if same_point(&f.ob[i + 1], &end, f.n, f.ptol) && last_piece_ok {
            f.pieces.push((a, b, dep));
            return i + 1;
        }
        if dep >= DEPTH_CAP {
            f.bad = Some(format!("point {} = {:?} is not a curve point at any dyadic parameter of [{a},{b}] down to 2^-{DEPTH_CAP}", i + 1, f.ob[i + 1].map(f32::from_bits)));
            return i;
        }
        let mid = a + (b - a) * 0.5;
        let j = fit(f, i, a, mid, dep + 1, bits);
        fit(f, j, mid, b, dep + 1, bits)
    }
    // exact fit first (what the library's own evaluator gives); only if that
    // fails, the fit within ptol
    let mut ft = Fit { sp: &sp, ob: &ob, pieces: vec![], bad: None, ptol: 0.0, n: T::N };
    let mut used = fit(&mut ft, 0, 0.0, 1.0, 0, &bits);
    if ft.bad.is_none() && used + 1 != out.len() {
        ft.bad = Some(format!("{} points returned but the dyadic partition accounts for {}", out.len(), used + 1));
    }
    if ft.bad.is_some() && far_apart {
        let mut ft2 = Fit { sp: &sp, ob: &ob, pieces: vec![], bad: None, ptol, n: T::N };
        used = fit(&mut ft2, 0, 0.0, 1.0, 0, &bits);
        if ft2.bad.is_none() && used + 1 != out.len() {
            ft2.bad = Some(format!("{} points returned but the dyadic partition accounts for {}", out.len(), used + 1));
        }
        if ft2.bad.is_none() {
            rep.count("approximate.fitted_within_16_ulps_not_bit_for_bit");
            ft = ft2;
        }
    }
    if let Some(b) = ft.bad {
        if distinct {
            rep.violation("spline.approximate_wrong_points", b, cj(0.0).set("halt_mode", mode).set("points", out.len()));
        } else {
            rep.count("approximate.unjudged(repeated point values: parameters ambiguous)");
        }
        return;
    }
    rep.add("approximate.pieces", ft.pieces.len() as u64);
    // (3) every piece met the caller's criterion — evaluated here on the
    // documented error, curve(mid) − chord midpoint, with a rounding slack,
    // or found in the log as a call that said true — or sits at the depth
    // bound, which is whatever depth the deepest piece has
    // … the depth bound: for one case in four it is taken from a second call
    // on the same spline with a criterion that never halts (2^bound pieces);
    // otherwise it is the deepest level present in this polyline
    let deepest = ft.pieces.iter().map(|p| p.2).max().unwrap_or(0);
    let bound_ref: Option<u32> = if idx % 4 == 1 && !always_false {
        match catch(|| sp.approximate(|_| false).len()) {
            Ok(n) if n >= 2 && (n - 1).is_power_of_two() => {
                rep.count("approximate.bound_measured_by_a_never_halting_call");
                Some((n - 1).trailing_zeros())
            }
            _ => None,
        }
    } else {
        None
    };
    if let Some(br) = bound_ref {
        if deepest > br && !distinct {
            rep.count("approximate.unjudged(repeated point values: parameters ambiguous)");
            return;
        }
        if deepest > br {
            rep.violation("spline.approximate_piece_neither_met_nor_at_bound", format!("pieces go down to depth {deepest} although a never-halting criterion stops at depth {br}"), cj(0.0).set("halt_mode", mode));
            return;
        }
    }
    let bound = bound_ref.unwrap_or(deepest);
    let slack = 8e-6 * scale;
    let mut unmet_at_bound = 0u64;
    for &(a, b, dep) in &ft.pieces {
        let mid = a + (b - a) * 0.5;
        let (ap, bp, real) = (sp.eval(a), sp.eval(b), sp.eval(mid));
        let e = T::dcomps(&real.sub(&ap.lerp(&bp, 0.5)));
        let m = e[..T::N].iter().fold(0.0f32, |x, y| x.max(y.abs()));
        let met = match mode {
            0 => true,
            _ if always_false => false,
            _ => m < thr + slack,
        };
        if met {
            continue;
        }
        if dep == bound {
            unmet_at_bound += 1;
            continue;
        }
        if !always_false && log.iter().any(|(c, r)| *r && (0..T::N).all(|k| (c[k] - e[k]).abs() <= slack)) {
            continue;
        }
        let msg = format!("piece [{a},{b}] (depth {dep}) has error {m:e}, which does not meet the criterion (threshold {thr:e}), yet it was not bisected although pieces go down to depth {bound}");
        if distinct {
            rep.violation("spline.approximate_piece_neither_met_nor_at_bound", msg, cj(a).set("halt_mode", mode).set("points", out.len()));
        } else {
            rep.count("approximate.unjudged(repeated point values: parameters ambiguous)");
        }
        return;
    }
    if unmet_at_bound > 0 {
        rep.count("approximate.reached_depth_bound");
        rep.count(&format!("approximate.depth_bound_observed.{bound}(segments={segs})"));
    }
    if distinct {
        rep.count("approximate.judged_with_unique_parameters");
    }
}

pub fn run(cfg: &Cfg, rep: &mut Report) {
    rep.rule = "case = one control polygon (f32, Vec2, Vec3, Point2, Point3, Color4f, Color3f, Angle; magnitudes 1e-3..1e4, curves of small extent far from the origin, per-point magnitudes over twelve decades; coincident, collinear, repeated, lattice and random controls): cubic Bézier at 12 parameters from a palette (<0, 0, ±ulp, 1, >1, k/n ± ulp, random) + NaN; splines of 1..8 segments at every join k/n and its f32 neighbours plus the palette, then approximate() with halt ∈ {always, never, NaN-comparison, thresholds 1e-1..1e-8·scale}: the aligned dyadic partition is fitted to the returned points bit for bit and every piece must meet the criterion or sit at the deepest level present; non-trivial = not all controls equal; distinct by hash of the controls".into();
    rep.assumptions.push("tolerance 1e-5·max|control| for values (2e-5 plus a segment-parameter rounding term for splines), 12× that for tangents; spline tangent is taken w.r.t. the segment-local parameter, as the code documents".into());
    rep.run_stream(cfg, 0, "cubic_bezier", cfg.n(120_000, 12_000_000), |rng, i, rep| match i % 8 {
        6 => bezier_case::<Color3f>(rng, rep, i),
        7 => bezier_case::<Angle>(rng, rep, i),
        0 => bezier_case::<f32>(rng, rep, i),
        1 => bezier_case::<Vec2>(rng, rep, i),
        2 => bezier_case::<Vec3>(rng, rep, i),
        3 => bezier_case::<Point2>(rng, rep, i),
        4 => bezier_case::<Point3>(rng, rep, i),
        _ => bezier_case::<Color4f>(rng, rep, i),
    });
    rep.run_stream(cfg, 1, "splines_and_approximate", cfg.n(30_000, 3_000_000), |rng, i, rep| match i % 8 {
        6 => spline_case::<Color3f>(rng, rep, i),
        7 => spline_case::<Angle>(rng, rep, i),
        0 => spline_case::<f32>(rng, rep, i),
        1 => spline_case::<Vec2>(rng, rep, i),
        2 => spline_case::<Vec3>(rng, rep, i),
        3 => spline_case::<Point2>(rng, rep, i),
        4 => spline_case::<Point3>(rng, rep, i),
        _ => spline_case::<Color4f>(rng, rep, i),
    });
    // constructors: new() takes exactly 3n+1 points (n ≥ 1); from_rays builds
    // the control polygon p0, p0+v0, p1−v1, p1, p1+v1, …, pk−vk, pk
    rep.run_stream(cfg, 2, "constructors", cfg.n(20_000, 2_000_000), |rng, i, rep| {
        if i < 27 {
            let len = i as usize;
            let pts: Vec<Vec2> = (0..len).map(|k| vec2(k as f32, -(k as f32))).collect();
            let ok = catch(|| BezierSpline::new(&pts).eval(0.0).0);
            let valid = len >= 4 && (len - 1) % 3 == 0;
            rep.case(i, true);
            rep.count("constructors.new_length_contract");
            match (ok, valid) {
                (Ok(_), true) | (Err(_), false) => {}
                (Ok(_), false) => rep.violation("spline.new_accepts_bad_length", format!("BezierSpline::new accepted {len} control points (must be 3n+1, n ≥ 1)"), Json::obj().set("points", len)),
                (Err(m), true) => rep.violation("spline.spline_panicked", format!("BezierSpline::new panicked on {len} = 3n+1 control points: {m}"), Json::obj().set("points", len)),
            }
            return;
        }
        let n = 2 + rng.usize(8);
        let mag = rng.pick(&[1.0f32, 100.0, 1e-2]);
        let rays: Vec<([f32; 2], [f32; 2])> = (0..n).map(|_| ([rng.f32_in(-1.0, 1.0) * mag, rng.f32_in(-1.0, 1.0) * mag], [rng.f32_in(-1.0, 1.0) * mag, rng.f32_in(-1.0, 1.0) * mag])).collect();
        let mut hs = Hasher::new();
        for (p, v) in &rays {
            hs.f32s(p).f32s(v);
        }
        rep.case(hs.get(), true);
        let r = catch(|| {
            let sp = BezierSpline::from_rays(rays.iter().map(|(p, v)| Ray(pt2::<f32, ()>(p[0], p[1]), vec2::<f32, ()>(v[0], v[1]))));
            let k = (n - 1) as f32;
            ((0..n).map(|j| sp.eval(j as f32 / k).0).collect::<Vec<_>>(), sp.tangent(0.0).0, sp.tangent(1.0).0)
        });
        let cj = || Json::obj().set("rays", format!("{rays:?}"));
        match r {
            Err(m) => rep.violation("spline.spline_panicked", format!("from_rays/eval panicked: {m}"), cj()),
            Ok((at_joins, t0, t1)) => {
                let tol = 4e-5 * mag * 2.0;
                for (j, e) in at_joins.iter().enumerate() {
                    // j/(n−1)·(n−1) may round: the join is hit within a segment-parameter ulp
                    let (p, v) = &rays[j];
                    let slack = 3.0 * (v[0].abs().max(v[1].abs())) * 4.0 * 1.2e-7 * n as f32;
                    if (e[0] - p[0]).abs() > tol + slack || (e[1] - p[1]).abs() > tol + slack {
                        rep.violation("spline.from_rays_wrong", format!("spline from {n} rays: eval({j}/{}) = {e:?}, ray {j} starts at {p:?}", n - 1), cj());
                        return;
                    }
                }
                // the curve leaves the first origin along 3·v0 and arrives at the last along 3·v(n−1)
                let (v0, vn) = (rays[0].1, rays[n - 1].1);
                let ttol = 3.0 * 6e-5 * mag * 2.0;
                if (t0[0] - 3.0 * v0[0]).abs() > ttol || (t0[1] - 3.0 * v0[1]).abs() > ttol || (t1[0] - 3.0 * vn[0]).abs() > ttol || (t1[1] - 3.0 * vn[1]).abs() > ttol {
                    rep.violation("spline.from_rays_wrong", format!("spline from rays: tangent(0) = {t0:?} (3·v0 = {:?}), tangent(1) = {t1:?} (3·v_last = {:?})", [3.0 * v0[0], 3.0 * v0[1]], [3.0 * vn[0], 3.0 * vn[1]]), cj());
                    return;
                }
                rep.count("constructors.from_rays");
            }
        }
    });
    rep.floor("constructors.from_rays", 10_000);
    rep.floor("constructors.new_length_contract", 27);
    rep.floor("bezier.evaluations", 1_000_000);
    rep.floor("spline.evaluations", 1_000_000);
    rep.floor("spline.tangents_judged_at_ends_and_joins", 100_000);
    rep.floor("spline.joins_checked", 50_000);
    rep.floor("approximate.calls", 20_000);
    rep.floor("approximate.reached_depth_bound", 500);
    rep.floor("approximate.halt_calls", 1_000_000);
    rep.floor("approximate.judged_with_unique_parameters", 10_000);
    rep.floor("approximate.pieces", 1_000_000);
    rep.floor("approximate.bound_measured_by_a_never_halting_call", 2_000);
    for s in 1..=8 {
        rep.floor(&format!("spline.segments_{s}"), 1_000);
    }
}
