//! Solo layers: each triangle of a scene rendered alone into clean buffers
//! with the depth test off. C06/C07 fold an executable per-pixel model of
//! the documented fragment pipeline over these layers and compare the
//! result bit-for-bit with the real combined render.

use super::scene::{pack, render_clip, Canvas, ClipScene, Tk};
use crate::geo;
use crate::Rng;
use re::math::mat::viewport;
use re::math::point::pt2;
use re::render::ctx::Context;
use re::render::raster::Frag;

pub const COL_SENT: u32 = 0x7FC0_DEAD;
pub const Z_MARK: f32 = -1.0;

#[derive(Clone)]
pub struct Layer {
    pub z: Vec<f32>,     // Z_MARK where not covered
    pub col: Vec<u32>,   // attribute bits where covered
    /// pixels this triangle's own clip fan drew more than once
    pub multi: Vec<bool>,
    pub covered: usize,
    /// fragments the solo render reported (≠ covered if the triangle's own
    /// clip fan overdraws a pixel inside the band)
    pub frags_i: usize,
    pub prims_o: usize,
}

pub struct Flat {
    pub sc: ClipScene<f32>,
    pub w: u32,
    pub h: u32,
}

pub fn shade_plain(f: Frag<f32>) -> Option<re::math::color::Color4> {
    Some(pack(f.var.to_bits()))
}

/// A cut-out material: triangles whose interpolated attribute has bit 12 of
/// its f32 pattern set discard every other pixel (checkerboard). The rule is
/// a function of (attribute bits, pixel), so the monitors' pixel models can
/// re-evaluate it from a layer's colour word.
#[inline]
pub fn cutout_discards(attr_bits: u32, x: usize, y: usize) -> bool {
    (attr_bits >> 12) & 1 == 1 && (x + y) % 2 == 0
}

pub fn shade_cutout(f: Frag<f32>) -> Option<re::math::color::Color4> {
    if cutout_discards(f.var.to_bits(), f.pos.x() as usize, f.pos.y() as usize) {
        None
    } else {
        Some(pack(f.var.to_bits()))
    }
}

/// Renders every triangle alone (no culling). With `nearest` the layer
/// keeps, per pixel, the nearest of the triangle's *own* fragments (a clip
/// fan may draw a pixel on an internal edge twice, inside the band C04
/// exempts); otherwise the depth test is off and the last fragment stays.
pub fn solo_layers(fl: &Flat, nearest: bool) -> Result<Vec<Layer>, String> {
    solo_layers_with(fl, nearest, false)
}

/// With `cutout`, the layers are rendered with the cut-out shader: a layer
/// then holds the nearest (or last) of its own *non-discarded* fragments.
pub fn solo_layers_with(fl: &Flat, nearest: bool, cutout: bool) -> Result<Vec<Layer>, String> {
    let to_screen = viewport(pt2(0, 0)..pt2(fl.w, fl.h));
    let mut out = vec![];
    for t in &fl.sc.tris {
        let test = if nearest { Some(std::cmp::Ordering::Less) } else { None };
        let ctx = Context { face_cull: None, depth_test: test, depth_sort: None, ..Context::default() };
        let mut cv = Canvas::new(fl.w, fl.h, (0, 0, fl.w, fl.h), |_, _| COL_SENT, |_, _| Z_MARK);
        let counts = std::cell::RefCell::new(vec![0u8; (fl.w * fl.h) as usize]);
        let w = fl.w as usize;
        let counting = |f: Frag<f32>| {
            let (x, y) = (f.pos.x() as usize, f.pos.y() as usize);
            if let Some(c) = counts.borrow_mut().get_mut(y * w + x) {
                *c = c.saturating_add(1);
            }
            Some(pack(f.var.to_bits()))
        };
        {
            // the counting pass runs with the depth test off so that every
            // fragment reaches the shader
            let ctx_c = Context { face_cull: None, depth_test: None, depth_sort: None, ..Context::default() };
            let mut cv_c = Canvas::new(fl.w, fl.h, (0, 0, fl.w, fl.h), |_, _| COL_SENT, |_, _| Z_MARK);
            render_clip(&fl.sc, &[*t], counting, &ctx_c, to_screen, &mut cv_c, Tk::FbOwned)?;
        }
        let multi: Vec<bool> = counts.borrow().iter().map(|c| *c > 1).collect();
        if cutout {
            render_clip(&fl.sc, &[*t], shade_cutout, &ctx, to_screen, &mut cv, Tk::FbOwned)?;
        } else {
            render_clip(&fl.sc, &[*t], shade_plain, &ctx, to_screen, &mut cv, Tk::FbOwned)?;
        }
        let z: Vec<f32> = cv.dep.data().to_vec();
        let col: Vec<u32> = cv.col.data().to_vec();
        let covered = z.iter().filter(|z| z.to_bits() != Z_MARK.to_bits()).count();
        let st = ctx.stats.borrow();
        out.push(Layer { z, col, multi, covered, frags_i: st.frags.i, prims_o: st.prims.o });
    }
    Ok(out)
}

/// sign of det[x;y;w]: > 0 ⇔ counter-clockwise in NDC ⇔ the library's
/// "backface". Returns None when too close to edge-on to call.
pub fn orientation(fl: &Flat, t: &[usize; 3]) -> Option<bool> {
    let v: [[f64; 4]; 3] = std::array::from_fn(|i| fl.sc.verts[t[i]].0.map(|x| x as f64));
    let m = [[v[0][0], v[1][0], v[2][0]], [v[0][1], v[1][1], v[2][1]], [v[0][3], v[1][3], v[2][3]]];
    let d = geo::det3(&m);
    let n: f64 = m.iter().flatten().map(|x| x.abs()).fold(0.0, f64::max);
    if d.abs() < 1e-4 * n * n * n {
        None
    } else {
        Some(d > 0.0)
    }
}

/// Overlapping / interpenetrating / nested / coplanar-offset triangles, some
/// clipped; all w > 0 unless `allow_neg_w`.
pub fn gen_flat(rng: &mut Rng, n: usize, maxdim: u32, allow_neg_w: bool) -> Flat {
    let w = 4 + rng.below(maxdim as u64 - 3) as u32;
    let h = 4 + rng.below(maxdim as u64 - 3) as u32;
    let mut verts = vec![];
    let mut tris = vec![];
    let style = rng.below(5);
    let mut base: Option<[[f32; 4]; 3]> = None;
    for k in 0..n {
        let mut t = [[0.0f32; 4]; 3];
        for v in t.iter_mut() {
            let mut ww = rng.f32_in(0.5, 3.0);
            if allow_neg_w && rng.chance(1, 8) {
                ww = -ww;
            }
            let a = ww.abs();
            let r = if style == 3 { 1.7 } else { 1.1 };
            *v = [rng.f32_in(-r, r) * a, rng.f32_in(-r, r) * a, rng.f32_in(-1.2, 1.2) * a, ww];
        }
        match style {
            1 => {
                // coplanar-offset copies of one triangle
                if let Some(b) = base {
                    let s = 1.0 + 0.05 * k as f32;
                    for i in 0..3 {
                        t[i] = [b[i][0] * s, b[i][1] * s, b[i][2] * s, b[i][3] * s];
                    }
                } else {
                    base = Some(t);
                }
            }
            2 => {
                // nested: shrink towards the centre, nearer
                if let Some(b) = base {
                    let s = 1.0 / (1.0 + 0.3 * k as f32);
                    for i in 0..3 {
                        let ww = b[i][3] * (1.0 - 0.05 * k as f32);
                        t[i] = [b[i][0] * s / b[i][3] * ww, b[i][1] * s / b[i][3] * ww, b[i][2] / b[i][3] * ww, ww];
                    }
                } else {
                    base = Some(t);
                }
            }
            _ => {}
        }
        for v in t {
            verts.push((v, rng.f32_in(0.0, 1.0)));
        }
        tris.push([3 * k, 3 * k + 1, 3 * k + 2]);
    }
    Flat { sc: ClipScene { verts, tris }, w, h }
}
