//! C01 — the rendered image equals the ideal perspective-correct image.
//!
//! Event: contents of the colour and depth buffers after render() (and the
//! Batch / Camera front doors). The harness fragment shader smuggles the
//! interpolated attribute bit-exactly through the colour word.
//! Oracle: `ideal.rs` (no clipping, no scan conversion). The real clipper's
//! output is used only to *mask* pixels near internal fan edges, as the
//! property prescribes.

use super::attr::{Attr, MAXC};
use super::ideal::{mark_near_segment, ITri, Vp};
use super::scene::{pack, render_clip, Canvas, ClipScene, Tk};
use crate::geo::P2;
use crate::{catch, f32s, f32v, Cfg, Hasher, Json, Report, Rng};
use re::geom::{vertex, Tri, Vertex};
use re::math::color::{Color3f, Color4f};
use re::math::mat::{orthographic, perspective, viewport, Mat4x4, RealToReal};
use re::math::angle::Angle;
use re::math::point::{pt2, pt3, Point2, Point3};
use re::math::vec::{Vec2, Vec3};
use re::render::batch::Batch;
use re::render::cam::Camera;
use re::render::clip::{view_frustum, ClipVec, ClipVert};
use re::render::ctx::Context;
use re::render::raster::Frag;
use re::render::shader::Shader;
use re::render::target::Framebuf;
use re::render::{render, Model, ModelToProj, ViewToProj, World};
use re::util::buf::Buf2;

const MASK_R: f64 = 0.02;

pub struct Scene<A> {
    pub cs: ClipScene<A>,
    pub bw: u32,
    pub bh: u32,
    pub win: (u32, u32, u32, u32),
    pub vp: (u32, u32, u32, u32),
    /// mirrored viewport: NDC −1 maps to the right / bottom edge
    pub flip: (bool, bool),
    pub tk: Tk,
    pub prior_random: bool,
    pub prior_seed: u64,
    /// all reciprocal depths of the scene are multiplied by this (the clip
    /// vectors were scaled by its inverse); the prior frame's depths too
    pub depth_scale: f32,
    pub gen_mode: u32,
}

fn sentinel_col(x: u32, y: u32) -> u32 {
    // a NaN payload: the shader can only emit it if the attribute itself is NaN
    0x7FC0_0000 | ((y & 0x7FF) << 11) | (x & 0x7FF)
}

/// The library's viewport matrix for a rectangle, optionally mirrored.
pub fn screen_matrix(vp: (u32, u32, u32, u32), flip: (bool, bool)) -> Mat4x4<re::render::NdcToScreen> {
    let (l, t, r, b) = vp;
    let (x0, x1) = if flip.0 { (r, l) } else { (l, r) };
    let (y0, y1) = if flip.1 { (b, t) } else { (t, b) };
    viewport(pt2(x0, y0)..pt2(x1, y1))
}

impl<A: Attr> Scene<A> {
    pub fn prior_depth(&self, x: u32, y: u32) -> f32 {
        if !self.prior_random {
            return 0.0;
        }
        let h = crate::mix64(self.prior_seed ^ ((x as u64) << 32 | y as u64));
        // reciprocal depths of the generated surfaces are O(0.1..10)
        match h % 4 {
            0 => 0.0,
            // incl. the library's own clear value: nothing is nearer than +inf
            1 if (h >> 40) % 16 == 0 => f32::INFINITY,
            _ => ((h >> 8) % 10_000) as f32 / 2_000.0 * self.depth_scale,
        }
    }
    pub fn canvas(&self) -> Canvas {
        Canvas::new(self.bw, self.bh, self.win, sentinel_col, |x, y| self.prior_depth(x, y))
    }
    pub fn json(&self) -> Json {
        Json::obj()
            .set("attr_type", A::NAME)
            .set("buffer", format!("{}x{}", self.bw, self.bh))
            .set("target", self.tk.name())
            .set("window", format!("{:?}", self.win))
            .set("viewport_ltrb", format!("{:?}", self.vp))
            .set("viewport_mirrored_xy", format!("{:?}", self.flip))
            .set("prior_depth", if self.prior_random { "random per pixel" } else { "0 (far)" })
            .set("generator", self.gen_mode)
            .set("depth_scale", f32s(self.depth_scale))
            .set("tris", format!("{:?}", self.cs.tris))
            .set(
                "clip_verts",
                Json::Arr(self.cs.verts.iter().map(|(p, a)| Json::Str(format!("{} attr {}", f32v(p), f32v(&a.comps()[..A::N])))).collect()),
            )
    }
}

fn gen_targets(rng: &mut Rng, maxdim: u32) -> (u32, u32, (u32, u32, u32, u32), (u32, u32, u32, u32), Tk) {
    let bw = 1 + rng.below(maxdim as u64) as u32;
    let bh = 1 + rng.below(maxdim as u64) as u32;
    let tk = rng.pick(&[Tk::FbOwned, Tk::FbOwned, Tk::FbOwned, Tk::FbWindow, Tk::FbWindow, Tk::ColOwned, Tk::ColWindow]);
    let win = if tk.is_window() {
        let ox = rng.below(bw as u64) as u32;
        let oy = rng.below(bh as u64) as u32;
        (ox, oy, 1 + rng.below((bw - ox) as u64) as u32, 1 + rng.below((bh - oy) as u64) as u32)
    } else {
        (0, 0, bw, bh)
    };
    let (ww, wh) = (win.2, win.3);
    let vp = if rng.chance(1, 2) {
        (0, 0, ww, wh)
    } else {
        let l = rng.below(ww as u64) as u32;
        let t = rng.below(wh as u64) as u32;
        (l, t, l + 1 + rng.below((ww - l) as u64) as u32, t + 1 + rng.below((wh - t) as u64) as u32)
    };
    (bw, bh, win, vp, tk)
}

fn gen_attr<A: Attr>(rng: &mut Rng, lo: f32, hi: f32) -> A {
    let mut c = [0.0f32; MAXC];
    for x in c.iter_mut().take(A::N) {
        *x = rng.f32_in(lo, hi);
    }
    A::make(&c[..A::N])
}

pub fn gen_scene<A: Attr>(rng: &mut Rng, max_tris: usize, maxdim: u32) -> Scene<A> {
    let (bw, bh, win, vp, tk) = gen_targets(rng, maxdim);
    let ntri = 1 + rng.usize(max_tris);
    let gen_mode = rng.below(9) as u32;
    let flip = if rng.chance(1, 6) { (rng.bool(), rng.bool()) } else { (false, false) };
    // screen position (window pixels) → clip coordinates at a given w
    let (hw, hh) = ((vp.2 - vp.0) as f32 / 2.0 * if flip.0 { -1.0 } else { 1.0 }, (vp.3 - vp.1) as f32 / 2.0 * if flip.1 { -1.0 } else { 1.0 });
    let (cx, cy) = (vp.0 as f32 + hw.abs(), vp.1 as f32 + hh.abs());
    let from_screen = |sx: f32, sy: f32, zn: f32, w: f32| -> [f32; 4] { [(sx - cx) / hw * w, (sy - cy) / hh * w, zn * w, w] };
    let (alo, ahi) = rng.pick(&[(0.0f32, 1.0f32), (0.0, 1.0), (-100.0, 100.0), (0.0, 255.0)]);
    let decade = (10.0f64).powf(rng.f64_in(-1.0, 1.0)) as f32;
    let mut verts: Vec<([f32; 4], A)> = vec![];
    let mut tris = vec![];
    let mut small_centre = (0.0f32, 0.0f32);
    // view-space generator state
    let near = rng.pick(&[0.1f32, 1.0]);
    let far = near * rng.pick(&[10.0f32, 100.0]);
    let focal = rng.pick(&[0.5f32, 1.0, 2.0]);
    let aspect = (vp.2 - vp.0) as f32 / (vp.3 - vp.1) as f32;
    let proj: Mat4x4<ViewToProj> = if gen_mode == 5 {
        orthographic(pt3(-2.0, -1.5, near), pt3(2.0, 1.5, far))
    } else {
        perspective(focal, aspect, near..far)
    };
    for k in 0..ntri {
        for _ in 0..3 {
            let p: [f32; 4] = match gen_mode {
                0 => {
                    let w = rng.f32_in(0.3, 4.0) * decade;
                    [rng.f32_in(-1.0, 1.0) * w, rng.f32_in(-1.0, 1.0) * w, rng.f32_in(-1.0, 1.0) * w, w]
                }
                1 => {
                    let w = rng.f32_in(0.3, 4.0) * decade;
                    [rng.f32_in(-2.5, 2.5) * w, rng.f32_in(-2.5, 2.5) * w, rng.f32_in(-2.5, 2.5) * w, w]
                }
                2 => {
                    let mut w = rng.f32_in(0.2, 3.0) * decade;
                    if rng.chance(1, 3) {
                        w = -w;
                    }
                    let a = w.abs();
                    [rng.f32_in(-2.5, 2.5) * a, rng.f32_in(-2.5, 2.5) * a, rng.f32_in(-2.5, 2.5) * a, w]
                }
                3 => {
                    // exactly-on-plane coordinates
                    let w = rng.f32_in(0.3, 4.0) * decade;
                    let mut c = |rng: &mut Rng| match rng.below(5) {
                        0 => w,
                        1 => -w,
                        2 => 0.0,
                        _ => rng.f32_in(-1.5, 1.5) * w,
                    };
                    [c(rng), c(rng), c(rng), w]
                }
                6 => {
                    // w over three and a half decades inside one triangle
                    let w = rng.log_f32(0.01, 30.0);
                    [rng.f32_in(-1.3, 1.3) * w, rng.f32_in(-1.3, 1.3) * w, rng.f32_in(-1.0, 1.0) * w, w]
                }
                7 => {
                    // small triangles (a fraction of a pixel to a few pixels)
                    // around a pixel centre somewhere in the viewport
                    if verts.len() % 3 == 0 {
                        small_centre = (vp.0 as f32 + rng.below((vp.2 - vp.0) as u64) as f32 + 0.5, vp.1 as f32 + rng.below((vp.3 - vp.1) as u64) as f32 + 0.5);
                    }
                    let r = rng.pick(&[0.3f32, 0.6, 1.5, 3.0]);
                    let w = rng.f32_in(0.5, 2.0);
                    from_screen(small_centre.0 + rng.f32_in(-r, r), small_centre.1 + rng.f32_in(-r, r), rng.f32_in(-0.9, 0.9), w)
                }
                8 => {
                    // vertices on the 1/8-pixel lattice, w = 1 (screen-aligned
                    // quads and fans: flat tops and bottoms in mid-viewport,
                    // vertices exactly on pixel centres)
                    let sx = vp.0 as f32 + (rng.below(8 * (vp.2 - vp.0) as u64 + 1) as f32) / 8.0;
                    let sy = vp.1 as f32 + (rng.below(8 * (vp.3 - vp.1) as u64 + 1) as f32) / 8.0;
                    let (sx, sy) = if rng.chance(1, 3) { (sx.floor() + 0.5, sy.floor() + 0.5) } else if rng.chance(1, 3) { (sx.floor(), sy.floor()) } else { (sx, sy) };
                    from_screen(sx, sy, rng.f32_in(-0.9, 0.9), 1.0)
                }
                _ => {
                    // view space through the library's projection (the clip
                    // coordinates are whatever the library matrix yields)
                    let z = if rng.chance(1, 6) { rng.f32_in(-near, near) } else { rng.f32_in(near * 0.5, far * 1.2) };
                    let p = if gen_mode == 5 {
                        pt3(rng.f32_in(-3.0, 3.0), rng.f32_in(-2.0, 2.0), z)
                    } else {
                        pt3(rng.f32_in(-1.6, 1.6) * z.abs().max(near) / focal, rng.f32_in(-1.6, 1.6) * z.abs().max(near) / (focal * aspect), z)
                    };
                    proj.apply(&p).0
                }
            };
            verts.push((p, gen_attr::<A>(rng, alo, ahi)));
        }
        tris.push([3 * k, 3 * k + 1, 3 * k + 2]);
    }
    if ntri > 1 && rng.chance(1, 4) {
        // shared edge between the first two triangles
        tris[1][0] = tris[0][1];
        tris[1][1] = tris[0][0];
    }
    // Absolute scale: the statement bounds coordinates relative to each other
    // only. One scene in six has every clip vector multiplied by 2^k (exact):
    // the footprint is unchanged, all reciprocal depths scale by 2^-k.
    let mut depth_scale = 1.0f32;
    if rng.chance(1, 6) {
        let k = rng.int(-60, 60) as i32;
        let f = 2.0f32.powi(k);
        for (p, _) in verts.iter_mut() {
            *p = p.map(|c| c * f);
        }
        depth_scale = 2.0f32.powi(-k);
    }
    Scene { cs: ClipScene { verts, tris }, bw, bh, win, vp, flip, tk, prior_random: tk.has_depth() && rng.chance(1, 3), prior_seed: rng.u64(), gen_mode, depth_scale }
}

pub struct Oracle {
    pub itris: Vec<ITri>,
    pub mask: Vec<bool>,
    /// Known finding F9 (f32 accumulation in the stepped edges, DESIGN §11.2):
    /// positional drift allowance in px, 0 when all screen coordinates are
    /// ≤ 128 px; `mask_drift` marks centres within that distance of an edge.
    pub drift: f64,
    pub mask_drift: Option<Vec<bool>>,
    pub vpx: Vp,
    pub w: usize,
    pub h: usize,
    pub unmappable: bool,
    /// the library's clipper returned a vertex with a non-finite coordinate or w = 0
    pub clip_nonfinite: bool,
}

/// Builds the ideal-image oracle and the ambiguity mask for a scene.
/// Coordinates are in *window* pixels (the target's own coordinate system).
pub fn build_oracle<A: Attr>(sc: &Scene<A>) -> Oracle {
    let (l, t, r, b) = sc.vp;
    let vpx = Vp::new(l, t, r, b).flipped(sc.flip);
    let (w, h) = (sc.win.2 as usize, sc.win.3 as usize);
    let mut mask = vec![false; w * h];
    let extent = r.max(b) as f64;
    // worst case of one half-ulp rounding per scanline step, all in the same
    // direction: rows · ½ulp(x) ≤ extent · extent · 2^-24
    let drift = if extent > 128.0 { 6e-8 * extent * extent } else { 0.0 };
    let mut mask_drift = if drift > 0.0 { Some(vec![false; w * h]) } else { None };
    let rd = drift.max(MASK_R) + 1e-3;
    let mut itris = vec![];
    let mut unmappable = false;
    for tr in &sc.cs.tris {
        let v: [[f64; 4]; 3] = std::array::from_fn(|i| sc.cs.verts[tr[i]].0.map(|x| x as f64));
        let it = ITri::new(v, &vpx);
        unmappable |= it.unmappable;
        for i in 0..it.poly.len() {
            mark_near_segment(&mut mask, w, h, it.poly[i], it.poly[(i + 1) % it.poly.len()], MASK_R);
            if let Some(md) = mask_drift.as_mut() {
                mark_near_segment(md, w, h, it.poly[i], it.poly[(i + 1) % it.poly.len()], rd);
            }
        }
        itris.push(it);
    }
    // internal fan edges of the *real* clip output (masking only)
    let cvs: Vec<Tri<ClipVert<A>>> = sc
        .cs
        .tris
        .iter()
        .map(|tr| Tri(std::array::from_fn(|i| ClipVert::new(vertex(ClipVec::from(sc.cs.verts[tr[i]].0), sc.cs.verts[tr[i]].1.clone())))))
        .collect();
    let clipped = catch(|| {
        let mut out = vec![];
        view_frustum::clip(&cvs[..], &mut out);
        out
    })
    .unwrap_or_default();
    let mut clip_nonfinite = false;
    for Tri(cv) in &clipped {
        if cv.iter().any(|c| c.pos.0.iter().any(|x| !x.is_finite()) || !(c.pos.0[3] != 0.0)) {
            // masking "near" such a vertex would mask everything and accept
            // the scene: reported by judge_scene instead
            clip_nonfinite = true;
            continue;
        }
        let s: Vec<P2> = cv.iter().map(|c| vpx.to_screen(&c.pos.0.map(|x| x as f64))).collect();
        for i in 0..3 {
            mark_near_segment(&mut mask, w, h, s[i], s[(i + 1) % 3], MASK_R);
            if let Some(md) = mask_drift.as_mut() {
                mark_near_segment(md, w, h, s[i], s[(i + 1) % 3], rd);
            }
        }
    }
    Oracle { itris, mask, drift, mask_drift, vpx, w, h, unmappable, clip_nonfinite }
}

/// F9 attribution helper: bound on the error accumulated in a stepped
/// reciprocal depth of triangle k over `extent` f32 additions.
fn accum_slack(or: &Oracle, k: usize) -> f64 {
    let extent = (or.drift / 6e-8).sqrt();
    1.2e-7 * extent * or.itris[k].s_max_visible(&or.vpx)
}

/// F9 attribution helper: the depth slack of triangle k at `centre` under a
/// positional error of at most the drift allowance, plus accumulation.
fn depth_drift_slack(or: &Oracle, k: usize, centre: P2, s: f64) -> f64 {
    let d = or.drift;
    let mut dz = 0.0f64;
    for (dx, dy) in [(d, 0.0), (-d, 0.0), (0.0, d), (0.0, -d), (d, d), (d, -d), (-d, d), (-d, -d)] {
        if let Some(s2) = or.itris[k].s_at(or.vpx.to_ndc((centre.0 + dx, centre.1 + dy))) {
            dz = dz.max((s2 - s).abs());
        }
    }
    dz + accum_slack(or, k)
}

/// F9 attribution: could the depth-test winner at this pixel change if every
/// covering surface's depth were off by its drift slack? (Large targets only.)
fn order_ambiguous_under_drift(or: &Oracle, hits: &[(f64, usize, [f64; 3])], centre: P2, prior: Option<f64>) -> bool {
    if !(or.drift > 0.0) || hits.is_empty() {
        return false;
    }
    let (s0, k0, _) = hits[0];
    let dz0 = depth_drift_slack(or, k0, centre, s0);
    if let Some(pz) = prior {
        if (pz - s0).abs() <= 1e-3 * s0 + dz0 {
            return true;
        }
    }
    hits[1..].iter().any(|&(sj, kj, _)| (s0 - sj).abs() <= 1e-3 * s0 + dz0 + depth_drift_slack(or, kj, centre, sj))
}

/// Judges the final buffers of one component render against the oracle.
#[allow(clippy::too_many_arguments)]
fn judge_image<A: Attr>(rep: &mut Report, sc: &Scene<A>, or: &Oracle, cv: &Canvas, comp: usize, check_depth: bool) -> bool {
    let (ox, oy, _, _) = sc.win;
    let (l, t, r, b) = sc.vp;
    // attribute values per triangle vertex for this component
    let av: Vec<[f64; 3]> = sc.cs.tris.iter().map(|tr| std::array::from_fn(|i| sc.cs.verts[tr[i]].1.comps()[comp] as f64)).collect();
    let ranges: Vec<(f64, f64)> = av
        .iter()
        .map(|a| {
            let (lo, hi) = (a.iter().cloned().fold(f64::INFINITY, f64::min), a.iter().cloned().fold(f64::NEG_INFINITY, f64::max));
            (hi - lo, lo.abs().max(hi.abs()))
        })
        .collect();
    let mut hits: Vec<(f64, usize, [f64; 3])> = Vec::with_capacity(8);
    for y in 0..sc.bh {
        for x in 0..sc.bw {
            let (gc, gz) = (cv.col[[x, y]], cv.dep[[x, y]]);
            let (pc, pz) = (sentinel_col(x, y), sc.prior_depth(x, y));
            let in_vp = x >= ox + l && x < ox + r && y >= oy + t && y < oy + b;
            if !in_vp {
                if gc != pc || gz.to_bits() != pz.to_bits() {
                    rep.violation(
                        "image.write_outside_viewport",
                        format!("cell ({x},{y}) outside the viewport changed: colour {pc:#x}->{gc:#x} depth {pz}->{gz}"),
                        sc.json(),
                    );
                    return false;
                }
                continue;
            }
            let (wx, wy) = ((x - ox) as usize, (y - oy) as usize);
            if or.mask[wy * or.w + wx] {
                rep.count("pixels.ambiguous_near_edge");
                continue;
            }
            let centre = (wx as f64 + 0.5, wy as f64 + 0.5);
            let ndc = or.vpx.to_ndc(centre);
            // within the F9 drift allowance of an edge (large targets only)
            let near_drift = or.mask_drift.as_ref().is_some_and(|m| m[wy * or.w + wx]);
            if near_drift {
                rep.count("pixels.within_F9_drift_allowance_of_an_edge");
            }
            let sig = |s: &'static str| if near_drift { "image.edge_drift_large_extent" } else { s };
            let _ = &sig;
            hits.clear();
            let mut selfcheck_bad = false;
            for (k, it) in or.itris.iter().enumerate() {
                let e = it.eval(ndc);
                if e.is_some() != it.poly_contains(centre) && !it.degenerate {
                    selfcheck_bad = true;
                    if rep.notes.len() < 3 {
                        rep.note(format!("selfcheck: centre {centre:?} eval={:?} poly={:?} area={} v={:?} vp={:?}", e, it.poly, it.poly_area, it.v, sc.vp));
                    }
                }
                if let Some((s, bb)) = e {
                    hits.push((s, k, bb));
                }
            }
            if selfcheck_bad {
                rep.count("pixels.oracle_selfcheck_disagree(skipped)");
                continue;
            }
            hits.sort_by(|a, b| b.0.partial_cmp(&a.0).unwrap());
            let changed = gc != pc || (sc.tk.has_depth() && gz.to_bits() != pz.to_bits());
            if hits.is_empty() {
                rep.count("pixels.judged_outside");
                if changed {
                    rep.violation(
                        sig("image.outside_pixel_drawn"),
                        format!("pixel ({x},{y}) lies outside every visible part (≥ {MASK_R} px from all edges) but changed: colour {pc:#x}->{gc:#x} depth {pz}->{gz}"),
                        sc.json(),
                    );
                    if near_drift {
                        continue;
                    }
                    return false;
                }
                continue;
            }
            if !sc.tk.has_depth() {
                if hits.len() > 1 {
                    // no depth buffer: which of the covering triangles ends up
                    // on top is submission order; still, the pixel must have
                    // been drawn and must hold the value of *one* of them
                    rep.count("pixels.colour_only_overlap(judged against every covering triangle)");
                    if gc == pc {
                        rep.violation(
                            if near_drift { "image.edge_drift_large_extent" } else { "image.inside_pixel_not_drawn" },
                            format!("pixel ({x},{y}) lies inside the visible parts of {} triangles (≥ {MASK_R} px from all edges) but kept its previous colour", hits.len()),
                            sc.json(),
                        );
                        if near_drift {
                            continue;
                        }
                        return false;
                    }
                    let got_a = f32::from_bits(gc) as f64;
                    let ok = hits.iter().any(|&(sk, k, bb)| {
                        let ea = bb[0] * av[k][0] + bb[1] * av[k][1] + bb[2] * av[k][2];
                        // the same tolerance as for a single covering triangle:
                        // 0.5 % of the range, the rounding floor, and the value's
                        // change over 0.001 px (on large targets: over the drift)
                        // (and the clip-coordinate rounding and the amplified rounding
                        // floor, as in the single-triangle judgement below)
                        let max_in = sc.cs.tris[k].iter().flat_map(|&q| sc.cs.verts[q].0).fold(0.0f64, |m, c| m.max((c as f64).abs()));
                        let clip_ulp_px = (2.0 * 1.2e-7 * max_in * sk.abs() * 0.5 * ((r - l).max(b - t) as f64)).min(0.02);
                        let amp = (or.itris[k].s_max_visible(&or.vpx) / sk.abs().max(1e-300)).clamp(1.0, 100.0);
                        let d = if or.drift > 0.0 { or.drift } else { 0.001 + clip_ulp_px };
                        let mut slack = 0.0f64;
                        for (dx, dy) in [(d, 0.0), (-d, 0.0), (0.0, d), (0.0, -d)] {
                            if let Some((_, b2)) = or.itris[k].eval(or.vpx.to_ndc((centre.0 + dx, centre.1 + dy))) {
                                slack = slack.max((b2[0] * av[k][0] + b2[1] * av[k][1] + b2[2] * av[k][2] - ea).abs());
                            }
                        }
                        (got_a - ea).abs() <= 0.005 * ranges[k].0 + 2e-5 * ranges[k].1 * amp + slack + 1e-30
                    });
                    if !ok {
                        rep.violation(
                            if near_drift { "image.edge_drift_large_extent" } else { "image.wrong_attribute" },
                            format!("pixel ({x},{y}) comp {comp}: colour-only target holds attribute {got_a} ({gc:#x}), which is the value of none of the {} triangles covering it", hits.len()),
                            sc.json(),
                        );
                        if near_drift {
                            continue;
                        }
                        return false;
                    }
                    continue;
                }
            } else {
                if hits.len() >= 2 && (hits[0].0 - hits[1].0).abs() < 1e-3 * hits[0].0 {
                    rep.count("pixels.ambiguous_depth_tie");
                    continue;
                }
                let pzd = pz as f64;
                if (pzd - hits[0].0).abs() < 1e-3 * hits[0].0 {
                    rep.count("pixels.ambiguous_depth_tie");
                    continue;
                }
                if pzd > hits[0].0 {
                    // the previous frame's surface is nearer: must be kept
                    rep.count("pixels.judged_occluded_by_prior_depth");
                    if changed {
                        let f9 = near_drift || order_ambiguous_under_drift(or, &hits, centre, Some(pzd));
                        rep.violation(
                            if near_drift {
                                "image.edge_drift_large_extent"
                            } else if f9 {
                                "image.value_drift_large_extent"
                            } else {
                                "image.occluded_pixel_drawn"
                            },
                            format!("pixel ({x},{y}): prior reciprocal depth {pz} is nearer than the nearest triangle ({}) but the pixel changed", hits[0].0),
                            sc.json(),
                        );
                        if f9 {
                            continue;
                        }
                        return false;
                    }
                    continue;
                }
            }
            let (s, k, bb) = hits[0];
            rep.count("pixels.judged_inside");
            let prior_for_order = if sc.tk.has_depth() { Some(pz as f64) } else { None };
            if gc == pc {
                let f9 = near_drift || order_ambiguous_under_drift(or, &hits, centre, prior_for_order);
                rep.violation(
                    if near_drift {
                        "image.edge_drift_large_extent"
                    } else if f9 {
                        "image.value_drift_large_extent"
                    } else {
                        "image.inside_pixel_not_drawn"
                    },
                    format!("pixel ({x},{y}) lies inside the visible part of triangle {k} (≥ {MASK_R} px from all edges, reciprocal depth {s}; prior depth {pz}) but kept its previous colour"),
                    sc.json(),
                );
                if f9 {
                    continue;
                }
                return false;
            }
            // first-order positional slack: the value at the best point
            // within 0.001 px of the centre
            let ea = bb[0] * av[k][0] + bb[1] * av[k][1] + bb[2] * av[k][2];
            let mut slack_a = 0.0f64;
            let mut slack_z = 0.0f64;
            // … plus the f32 rounding of the clip coordinates themselves: an
            // absolute error of an ulp of the triangle's largest coordinate (the
            // clipper interpolates from the far vertex, a + (b−a)·t, so a new
            // vertex near the eye carries the far vertex's ulp) is a screen
            // error of that ulp × 1/w × half the viewport. Negligible unless a
            // triangle spans three decades in w (met by the thorough tier:
            // w = 29 / 0.016 / 4.2 in one triangle, depth gradient 500 per px).
            let max_in = sc.cs.tris[k].iter().flat_map(|&q| sc.cs.verts[q].0).fold(0.0f64, |m, c| m.max((c as f64).abs()));
            let clip_ulp_px = (2.0 * 1.2e-7 * max_in * s.abs() * 0.5 * ((r - l).max(b - t) as f64)).min(0.02);
            if clip_ulp_px > 1e-3 {
                rep.count("pixels_whose_value_slack_is_dominated_by_clip_coordinate_rounding");
            }
            let dv = 0.001 + clip_ulp_px;
            for (dx, dy) in [(dv, 0.0), (-dv, 0.0), (0.0, dv), (0.0, -dv)] {
                if let Some((s2, b2)) = or.itris[k].eval(or.vpx.to_ndc((centre.0 + dx, centre.1 + dy))) {
                    let a2 = b2[0] * av[k][0] + b2[1] * av[k][1] + b2[2] * av[k][2];
                    slack_a = slack_a.max((a2 - ea).abs());
                    slack_z = slack_z.max((s2 - s).abs());
                }
            }
            let got_a = f32::from_bits(gc) as f64;
            // rounding floor (what remains when the vertex values are nearly
            // equal and 0.5 % of their range is ≈ 0): the stepped a/w and 1/w
            // carry a few ulps of their largest value over the visible part,
            // and the division amplifies that by (largest 1/w)/(1/w here) —
            // the same floor as C05's
            let amp = (or.itris[k].s_max_visible(&or.vpx) / s.abs().max(1e-300)).clamp(1.0, 100.0);
            let tol_a = 0.005 * ranges[k].0 + 2e-5 * ranges[k].1 * amp + slack_a + 1e-30;
            let err_a = (got_a - ea).abs();
            rep.worst("attr_err/tol", if err_a.is_nan() { f64::INFINITY } else { err_a / tol_a }, 1.0, || format!("pixel ({x},{y}) tri {k} got {got_a} exp {ea}"));
            // F9 attribution for value errors: explained by a positional
            // error of at most the drift allowance
            let drift_slack = |rep: &mut Report| -> (f64, f64) {
                let (mut da, mut dz) = (0.0f64, 0.0f64);
                if or.drift > 0.0 {
                    rep.count("pixels.value_error_checked_against_F9_drift");
                    let d = or.drift;
                    for (dx, dy) in [(d, 0.0), (-d, 0.0), (0.0, d), (0.0, -d), (d, d), (d, -d), (-d, d), (-d, -d)] {
                        if let Some((s2, b2)) = or.itris[k].eval(or.vpx.to_ndc((centre.0 + dx, centre.1 + dy))) {
                            let a2 = b2[0] * av[k][0] + b2[1] * av[k][1] + b2[2] * av[k][2];
                            da = da.max((a2 - ea).abs());
                            dz = dz.max((s2 - s).abs());
                        }
                    }
                    // accumulation in the stepped sums themselves (a/w and
                    // 1/w are advanced by repeated f32 addition down the left
                    // edge and along the span): one rounding of the largest
                    // summand per step
                    let acc = accum_slack(or, k);
                    dz += acc;
                    da += acc / s * (ranges[k].1 + ea.abs());
                }
                (da, dz)
            };
            if !(err_a <= tol_a) {
                let (mut da, _) = drift_slack(rep);
                if !near_drift && !(err_a <= tol_a + da) && order_ambiguous_under_drift(or, &hits, centre, prior_for_order) {
                    // another surface may have won the depth test
                    da = f64::INFINITY;
                }
                rep.violation(
                    if near_drift {
                        "image.edge_drift_large_extent"
                    } else if err_a <= tol_a + da {
                        "image.value_drift_large_extent"
                    } else {
                        "image.wrong_attribute"
                    },
                    format!("pixel ({x},{y}) comp {comp}: holds attribute {got_a} ({gc:#x}); the nearest triangle ({k}) has perspective-correct value {ea} there (tol {tol_a:.3e})"),
                    sc.json(),
                );
                if near_drift || err_a <= tol_a + da {
                        continue;
                    }
                    return false;
            }
            if check_depth && sc.tk.has_depth() {
                let tol_z = 0.002 * s + slack_z;
                let err_z = (gz as f64 - s).abs();
                rep.worst("depth_err/tol", if err_z.is_nan() { f64::INFINITY } else { err_z / tol_z }, 1.0, || format!("pixel ({x},{y}) tri {k} got {gz} exp {s}"));
                if !(err_z <= tol_z) {
                    let (_, mut dz) = drift_slack(rep);
                    if !near_drift && !(err_z <= tol_z + dz) && order_ambiguous_under_drift(or, &hits, centre, prior_for_order) {
                        dz = f64::INFINITY;
                    }
                    rep.violation(
                        if near_drift {
                            "image.edge_drift_large_extent"
                        } else if err_z <= tol_z + dz {
                            "image.value_drift_large_extent"
                        } else {
                            "image.wrong_depth"
                        },
                        format!("pixel ({x},{y}): depth buffer holds {gz}; the nearest triangle ({k}) has reciprocal depth {s} there (tol {tol_z:.3e})"),
                        sc.json(),
                    );
                    if near_drift || err_z <= tol_z + dz {
                        continue;
                    }
                    return false;
                }
            }
        }
    }
    true
}

fn hash_scene<A: Attr>(sc: &Scene<A>) -> u64 {
    let mut h = Hasher::new();
    h.u64(sc.bw as u64).u64(sc.bh as u64).u64(sc.vp.0 as u64).u64(sc.vp.1 as u64).u64(sc.vp.2 as u64).u64(sc.vp.3 as u64).u64(sc.win.0 as u64).u64(sc.win.1 as u64);
    for (p, a) in &sc.cs.verts {
        h.f32s(p);
        h.f32s(&a.comps()[..A::N]);
    }
    h.bytes(A::NAME.as_bytes());
    h.get()
}

pub fn judge_scene<A: Attr>(rep: &mut Report, sc: &Scene<A>) {
    let or = build_oracle(sc);
    if or.unmappable {
        rep.skip("scene.visible_polygon_touches_w=0");
        return;
    }
    if or.clip_nonfinite {
        rep.violation("image.clipper_produced_nonfinite_vertex", "view_frustum::clip returned a vertex with a non-finite coordinate (or w = 0) for finite input whose visible part stays away from w = 0".into(), sc.json());
        return;
    }
    let ctx = Context { face_cull: None, ..Context::default() };
    let to_screen = screen_matrix(sc.vp, sc.flip);
    for comp in 0..A::N {
        let mut cv = sc.canvas();
        let res = render_clip(&sc.cs, &sc.cs.tris, move |f: Frag<A>| Some(pack(f.var.comps()[comp].to_bits())), &ctx, to_screen, &mut cv, sc.tk);
        if let Err(m) = res {
            rep.violation("render.panic", format!("render() panicked: {m}"), sc.json());
            return;
        }
        if !judge_image(rep, sc, &or, &cv, comp, comp == 0) {
            return;
        }
    }
    rep.count(&format!("attr.{}", A::NAME));
    rep.count(&format!("target.{}", sc.tk.name()));
    rep.count(&format!("generator.{}", sc.gen_mode));
    if sc.prior_random {
        rep.count("prior_depth.random");
    }
    if sc.flip != (false, false) {
        rep.count("viewport.mirrored");
    }
    if sc.depth_scale != 1.0 {
        rep.count("scene.scaled_by_a_power_of_two");
    }
}

fn scene_case<A: Attr>(rng: &mut Rng, rep: &mut Report, idx: u64, max_tris: usize) {
    let sc = gen_scene::<A>(rng, max_tris, 64);
    let before = rep.classes.get("pixels.judged_inside").copied().unwrap_or(0);
    judge_scene(rep, &sc);
    let drew = rep.classes.get("pixels.judged_inside").copied().unwrap_or(0) > before;
    rep.case(hash_scene(&sc), drew);
    if drew {
        rep.count("scenes_with_judged_inside_pixels");
    }
    if idx < 2 {
        rep.sample(|| sc.json());
    }
}

// ------------------------------------------------------------ front doors

/// Batch::render and Camera::render must produce bit-identical buffers to
/// render() given the same matrices.
fn front_door_case(rng: &mut Rng, rep: &mut Report) {
    let sc = gen_scene::<Vec3>(rng, 4, 40);
    rep.case(hash_scene(&sc) ^ 0x5555, true);
    let ctx = Context { face_cull: None, ..Context::default() };
    let (l, t, r, b) = sc.vp;
    let to_screen = screen_matrix(sc.vp, sc.flip);
    let verts: Vec<Vertex<ClipVec, Vec3>> = sc.cs.verts.iter().map(|(p, a)| vertex(ClipVec::from(*p), *a)).collect();
    let tris: Vec<Tri<usize>> = sc.cs.tris.iter().map(|t| Tri(*t)).collect();
    let fs = |f: Frag<Vec3>| Some(pack(f.var.0[1].to_bits()));
    // reference: render(); the Batch goes to a Framebuf or, every other
    // case, to a colour-only buffer
    let col_only = rng.bool();
    let mut a = sc.canvas();
    if let Err(m) = render_clip(&sc.cs, &sc.cs.tris, fs, &ctx, to_screen, &mut a, if col_only { Tk::ColOwned } else { Tk::FbOwned }) {
        rep.violation("render.panic", format!("render() panicked: {m}"), sc.json());
        return;
    }
    // Batch
    let mut bcv = sc.canvas();
    let res = catch(|| {
        let shader = Shader::new(|v: Vertex<ClipVec, Vec3>, _: ()| v, fs);
        if col_only {
            Batch::new().faces(&tris).vertices(&verts).uniform(()).shader(shader).viewport(to_screen).target(&mut bcv.col).context(&ctx).render();
        } else {
            let mut fb = Framebuf { color_buf: &mut bcv.col, depth_buf: &mut bcv.dep };
            Batch::new().faces(&tris).vertices(&verts).uniform(()).shader(shader).viewport(to_screen).target(&mut fb).context(&ctx).render();
        }
    });
    if col_only {
        rep.count("front_door.batch_on_colour_only_target");
    }
    if let Err(m) = res {
        rep.violation("render.panic", format!("Batch::render panicked: {m}"), sc.json());
        return;
    }
    rep.count("front_door.batch");
    if a.col.data() != bcv.col.data() || a.dep.data().iter().map(|z| z.to_bits()).ne(bcv.dep.data().iter().map(|z| z.to_bits())) {
        // Not the same bits as render(): the statement asks for the ideal
        // image from every entry point, not for identical bits between them,
        // so the Batch image is judged by the ideal-image oracle on its own.
        rep.count("front_door.batch_bits_differ_from_render(judged by the oracle instead)");
        let scb = Scene::<Vec3> {
            cs: ClipScene { verts: sc.cs.verts.clone(), tris: sc.cs.tris.clone() },
            bw: sc.bw,
            bh: sc.bh,
            win: (0, 0, sc.bw, sc.bh),
            vp: sc.vp,
            flip: sc.flip,
            tk: if col_only { Tk::ColOwned } else { Tk::FbOwned },
            prior_random: sc.prior_random,
            prior_seed: sc.prior_seed,
            gen_mode: 9,
            depth_scale: sc.depth_scale,
        };
        let orb = build_oracle(&scb);
        if !orb.unmappable && !judge_image(rep, &scb, &orb, &bcv, 1, !col_only) {
            return;
        }
    }
    // Camera: model-space vertices, identity world/view transforms, a real
    // projection; compare with render() given the composed matrix.
    let near = 0.5f32;
    let far = 50.0f32;
    let dims = (sc.bw, sc.bh);
    let ortho = rng.chance(1, 4);
    let vp_rect = (sc.win.0 + l..sc.win.0 + r, sc.win.1 + t..sc.win.1 + b);
    let mverts: Vec<Vertex<Point3<Model>, Vec3>> = (0..sc.cs.verts.len())
        .map(|i| {
            let z = rng.f32_in(0.2, 60.0);
            vertex(pt3(rng.f32_in(-1.5, 1.5) * z, rng.f32_in(-1.5, 1.5) * z, z), sc.cs.verts[i].1)
        })
        .collect();
    let cam = Camera::new(dims).viewport(vp_rect.clone());
    let cam = if ortho { cam.orthographic(pt3(-20.0, -15.0, near)..pt3(20.0, 15.0, far)) } else { cam.perspective(rng.pick(&[0.7f32, 1.0, 2.0]), near..far) };
    let w2v: Mat4x4<RealToReal<3, World, re::render::View>> = Mat4x4::identity();
    let cam = cam.mode(w2v);
    let to_world: Mat4x4<RealToReal<3, Model, World>> = re::math::mat::translate(re::math::vec3(rng.f32_in(-1.0, 1.0), rng.f32_in(-1.0, 1.0), rng.f32_in(0.0, 2.0))).to();
    let cshader = Shader::new(|v: Vertex<Point3<Model>, Vec3>, (m, _): (&Mat4x4<ModelToProj>, ())| vertex(m.apply(&v.pos), v.attrib), fs);
    let mut c1 = sc.canvas();
    let ctx1 = Context { face_cull: None, ..Context::default() };
    let res = catch(|| {
        let mut fb = Framebuf { color_buf: &mut c1.col, depth_buf: &mut c1.dep };
        cam.render(&tris, &mverts, &to_world, &cshader, (), &mut fb, &ctx1);
    });
    if let Err(m) = res {
        rep.violation("render.panic", format!("Camera::render panicked: {m}"), sc.json());
        return;
    }
    let mut c2 = sc.canvas();
    let ctx2 = Context { face_cull: None, ..Context::default() };
    let tf = to_world.then(&cam.world_to_project());
    let res = catch(|| {
        let mut fb = Framebuf { color_buf: &mut c2.col, depth_buf: &mut c2.dep };
        render(&tris, &mverts, &cshader, (&tf, ()), cam.viewport, &mut fb, &ctx2);
    });
    if let Err(m) = res {
        rep.violation("render.panic", format!("render() panicked: {m}"), sc.json());
        return;
    }
    rep.count("front_door.camera");
    // (seen in the buffer, not in ctx.stats, which is another property's matter)
    let fresh = sc.canvas();
    if c1.col.data() != fresh.col.data() {
        rep.count("front_door.camera_drew_fragments");
    }
    if c1.col.data() != c2.col.data() || c1.dep.data().iter().map(|z| z.to_bits()).ne(c2.dep.data().iter().map(|z| z.to_bits())) {
        // as for Batch: identical bits are not a clause; the oracle below decides
        rep.count("front_door.camera_bits_differ_from_render(judged by the oracle alone)");
    }
    // and the camera image itself is judged by the ideal-image oracle: build
    // the equivalent clip-space scene from the composed matrix
    let cverts: Vec<([f32; 4], Vec3)> = mverts.iter().map(|v| (tf.apply(&v.pos).0, v.attrib)).collect();
    let sc2 = Scene::<Vec3> {
        cs: ClipScene { verts: cverts, tris: sc.cs.tris.clone() },
        bw: sc.bw,
        bh: sc.bh,
        win: (0, 0, sc.bw, sc.bh),
        vp: (sc.win.0 + l, sc.win.1 + t, sc.win.0 + r, sc.win.1 + b),
        flip: (false, false),
        tk: Tk::FbOwned,
        prior_random: sc.prior_random,
        prior_seed: sc.prior_seed,
        gen_mode: 9,
        depth_scale: sc.depth_scale,
    };
    let or = build_oracle(&sc2);
    if !or.unmappable {
        judge_image(rep, &sc2, &or, &c1, 1, true);
    }
    let _ = Buf2::<u32>::new((1, 1));
}

pub fn run(cfg: &Cfg, rep: &mut Report) {
    rep.rule = "case = one scene: 1..6 (thorough: 1..12) clip-space triangles (w of either sign, any subset of planes crossed, on-plane coordinates, magnitudes over two decades; also view space through perspective/orthographic), an attribute type (11 kinds incl. Angle, Point3, nested tuples, each component rendered separately), a target kind (4), a viewport sub-rectangle of a window of a buffer ≤ 64x64 (stream large_targets: ≤ 2048x2048, f32 attribute, 1..3 triangles), prior frame (sentinel colours; depth 0 or random per pixel); every pixel judged; non-trivial = at least one pixel judged inside a visible part; distinct by hash of all scene words".into();
    rep.assumptions.push("oracle: β = M⁻¹(X,Y,1) in f64 on the exact f32 clip coordinates; real clip output used only for masking fan edges".into());
    rep.assumptions.push("value tolerances get the first-order positional slack of 0.001 px (DESIGN §10-2); buffers ≤ 64 px in the main stream so raster position error stays far inside the 0.02 px mask; in the large_targets stream violations explained by the F9 drift model (screen coordinates > 128 px, positional error ≤ 6e-8·extent² px) carry their own signatures image.edge_drift_large_extent / image.value_drift_large_extent, everything else keeps the strict signatures".into());
    rep.assumptions.push("colour-only targets have no depth buffer: pixels covered by more than one visible triangle are skipped there".into());

    // pin: F1 through render()
    {
        let sc = Scene::<f32> {
            cs: ClipScene { verts: vec![([-0.6666667, -0.75, 0.0, 1.0], 0.0), ([0.5, 0.0, 0.0, 1.0], 1.0), ([-0.33333334, 0.25, 0.0, 1.0], 0.5)], tris: vec![[0, 1, 2]] },
            bw: 12,
            bh: 8,
            win: (0, 0, 12, 8),
            vp: (0, 0, 12, 8),
            flip: (false, false),
            tk: Tk::FbOwned,
            prior_random: false,
            prior_seed: 0,
            gen_mode: 99,
            depth_scale: 1.0,
        };
        let mut r2 = Report::new();
        judge_scene(&mut r2, &sc);
        rep.pin("F1.render_row_missing", if r2.n_violations() == 0 { Ok(()) } else { Err(r2.violations.values().next().map(|v| v.firsts[0].detail.clone()).unwrap_or_default()) });
    }
    {
        // pin: F10 through render(): colour attribute, strongly varying w
        let sc = Scene::<Color3f> {
            cs: ClipScene {
                verts: vec![
                    ([-0.9, -0.9, 0.0, 1.0], Color3f::make(&[1.0, 0.0, 0.0])),
                    ([8.0, -7.0, 0.0, 9.0], Color3f::make(&[0.0, 1.0, 0.0])),
                    ([-1.6, 1.7, 0.0, 2.0], Color3f::make(&[0.0, 0.0, 1.0])),
                ],
                tris: vec![[0, 1, 2]],
            },
            bw: 32,
            bh: 32,
            win: (0, 0, 32, 32),
            vp: (0, 0, 32, 32),
            flip: (false, false),
            tk: Tk::FbOwned,
            prior_random: false,
            prior_seed: 0,
            gen_mode: 99,
            depth_scale: 1.0,
        };
        let mut r2 = Report::new();
        judge_scene(&mut r2, &sc);
        rep.pin("F10.render_color_affine", if r2.n_violations() == 0 { Ok(()) } else { Err(r2.violations.values().next().map(|v| v.firsts[0].detail.clone()).unwrap_or_default()) });
    }

    {
        // pin of open finding F9 as it shows through render(): a sliver 5 px
        // wide and 570 px tall in a 10x672 viewport of a 396x1122 frame; the
        // reciprocal depth varies by 1 per px across it, so a drift of
        // 0.003 px in the stepped left edge is a 1 % depth error
        let b = f32::from_bits;
        let sc = Scene::<f32> {
            cs: ClipScene {
                verts: vec![
                    ([b(0xc2802baa), b(0xc24e9371), b(0x428f0815), b(0x429028df)], b(0x3e8c4329)),
                    ([b(0xc182c7c6), b(0x41a846da), b(0x41f1119e), b(0x41fc2302)], b(0x3e6d5bbe)),
                    ([b(0x3de8e155), b(0x3fbff0bf), b(0xbfa7d047), b(0x3f31f318)], b(0x3ead67c1)),
                ],
                tris: vec![[0, 1, 2]],
            },
            bw: 396,
            bh: 1122,
            win: (0, 0, 396, 1122),
            vp: (386, 240, 396, 912),
            flip: (false, false),
            tk: Tk::FbOwned,
            prior_random: false,
            prior_seed: 0,
            gen_mode: 99,
            depth_scale: 1.0,
        };
        let mut r2 = Report::new();
        judge_scene(&mut r2, &sc);
        rep.pin("F9.render_depth_drift_tall_viewport", if r2.n_violations() == 0 { Ok(()) } else { Err(r2.violations.values().next().map(|v| v.firsts[0].detail.clone()).unwrap_or_default()) });
    }

    let max_tris = if cfg.quick() { 6 } else { 12 };
    let n = cfg.n(120_000, 8_000_000);
    rep.run_stream(cfg, 0, "scenes", n, |rng, i, rep| match i % 11 {
        7 => scene_case::<Angle>(rng, rep, i, max_tris),
        8 => scene_case::<Point3>(rng, rep, i, max_tris),
        9 => scene_case::<((Vec2, f32), Vec2)>(rng, rep, i, max_tris),
        10 => scene_case::<(Color3f, Point2)>(rng, rep, i, max_tris),
        0 => scene_case::<f32>(rng, rep, i, max_tris),
        1 => scene_case::<Vec2>(rng, rep, i, max_tris),
        2 => scene_case::<Vec3>(rng, rep, i, max_tris),
        3 => scene_case::<Color4f>(rng, rep, i, max_tris),
        4 => scene_case::<Color3f>(rng, rep, i, max_tris),
        5 => scene_case::<(Vec2, f32)>(rng, rep, i, max_tris),
        _ => scene_case::<(f32, Vec3)>(rng, rep, i, max_tris),
    });
    rep.run_stream(cfg, 1, "front_doors", cfg.n(20_000, 1_500_000), |rng, _, rep| front_door_case(rng, rep));
    // realistic frame sizes: buffers up to 2048 px a side, every pixel judged
    rep.run_stream(cfg, 2, "large_targets", cfg.n(1_600, 60_000), |rng, i, rep| {
        let maxdim = [256u32, 512, 1024, 2048][(i % 4) as usize];
        let sc = gen_scene::<f32>(rng, 3, maxdim);
        let before = rep.classes.get("pixels.judged_inside").copied().unwrap_or(0);
        judge_scene(rep, &sc);
        let drew = rep.classes.get("pixels.judged_inside").copied().unwrap_or(0) > before;
        rep.case(hash_scene(&sc), drew);
        rep.count("large_targets.scenes");
        if (sc.vp.2 - sc.vp.0).max(sc.vp.3 - sc.vp.1) > 512 {
            rep.count("large_targets.viewport_above_512px");
        }
    });

    // the oracle's two formulations (β test, polygon containment) must agree
    // on all but a sliver of pixels, or the oracle itself is in doubt
    {
        let skipped = rep.classes.get("pixels.oracle_selfcheck_disagree(skipped)").copied().unwrap_or(0);
        let judged = rep.classes.get("pixels.judged_inside").copied().unwrap_or(0) + rep.classes.get("pixels.judged_outside").copied().unwrap_or(0);
        rep.info("oracle_selfcheck_skipped_per_million_judged", (skipped as f64 * 1e6 / judged.max(1) as f64).round() as i64);
        if skipped * 1000 <= judged {
            rep.count("oracle_selfcheck_disagreement_below_one_per_mille");
        }
    }
    rep.floor("oracle_selfcheck_disagreement_below_one_per_mille", 1);
    rep.floor("pixels.judged_inside", 2_000_000);
    rep.floor("pixels.judged_outside", 2_000_000);
    rep.floor("pixels.judged_occluded_by_prior_depth", 10_000);
    rep.floor("scenes_with_judged_inside_pixels", n / 3);
    rep.floor("front_door.batch", 1_000);
    rep.floor("viewport.mirrored", 1_000);
    rep.floor("front_door.camera_drew_fragments", 1_000);
    rep.floor("large_targets.viewport_above_512px", 100);
    rep.floor("scene.scaled_by_a_power_of_two", 10_000);
    for g in 0..9 {
        rep.floor(&format!("generator.{g}"), 5_000);
    }
    for a in ["f32", "Vec2", "Vec3", "Color3f", "Color4f", "Angle", "Point3"] {
        rep.floor(&format!("attr.{a}"), 5_000);
    }
    for t in [Tk::FbOwned, Tk::FbWindow, Tk::ColOwned, Tk::ColWindow] {
        rep.floor(&format!("target.{}", t.name()), 5_000);
    }
}
