//! C15 — generated solids are closed, consistently wound, unit normals.
//!
//! Event: Mesh{faces, verts} from each build().
//! Oracle: structural invariants of the returned mesh — index validity, unit
//! normals, normals on the side of the geometric normal (b−a)×(c−a), positive
//! signed volume, watertightness after merging coincident vertices (every
//! directed edge once, its reverse once), Euler characteristic, vertices on
//! the intended surface.

use crate::geo::{cross3, dot3, len3, sub3};
use crate::{catch, Cfg, Hasher, Json, Report, Rng};
use re::geom::{vertex, Mesh, Normal3};
use re::math::angle::{degs, turns};
use re::math::point::pt2;
use re::math::vec::vec2;
use re_geom::solids::{Box as SBox, Capsule, Cone, Cylinder, Dodecahedron, Icosahedron, Lathe, Octahedron, Sphere, Tetrahedron, Torus};
use std::collections::HashMap;

#[derive(Clone, Debug)]
pub enum Solid {
    Tetra,
    Octa,
    Dodeca,
    Icosa,
    Box([f32; 3], [f32; 3]),
    Cube(f32),
    Sphere { sectors: u32, segments: u32, radius: f32 },
    Torus { major: f32, minor: f32, major_sectors: u32, minor_sectors: u32 },
    Cylinder { sectors: u32, segments: u32, capped: bool, radius: f32 },
    Cone { sectors: u32, segments: u32, capped: bool, base: f32, apex: f32 },
    Capsule { sectors: u32, body: u32, cap: u32, radius: f32 },
    /// straight profile from (r0,-1) to (r1,1) swept over a partial azimuth range
    PartialLathe { sectors: u32, segments: u32, r0: f32, r1: f32, az0: f32, az1: f32, capped: bool },
}

impl Solid {
    fn build(&self) -> Mesh<Normal3> {
        match self.clone() {
            Solid::Tetra => Tetrahedron.build(),
            Solid::Octa => Octahedron.build(),
            Solid::Dodeca => Dodecahedron.build(),
            Solid::Icosa => Icosahedron.build(),
            Solid::Box(a, b) => SBox { left_bot_near: re::math::pt3(a[0], a[1], a[2]), right_top_far: re::math::pt3(b[0], b[1], b[2]) }.build(),
            Solid::Cube(s) => SBox::cube(s).build(),
            Solid::Sphere { sectors, segments, radius } => Sphere { sectors, segments, radius }.build(),
            Solid::Torus { major, minor, major_sectors, minor_sectors } => Torus { major_radius: major, minor_radius: minor, major_sectors, minor_sectors }.build(),
            Solid::Cylinder { sectors, segments, capped, radius } => Cylinder { sectors, segments, capped, radius }.build(),
            Solid::Cone { sectors, segments, capped, base, apex } => Cone { sectors, segments, capped, base_radius: base, apex_radius: apex }.build(),
            Solid::Capsule { sectors, body, cap, radius } => Capsule { sectors, body_segments: body, cap_segments: cap, radius }.build(),
            Solid::PartialLathe { sectors, segments, r0, r1, az0, az1, capped } => {
                let n = vec2(2.0, -(r1 - r0));
                let pts = (0..=segments).map(|i| {
                    let t = i as f32 / segments as f32;
                    vertex(pt2(r0 + t * (r1 - r0), -1.0 + 2.0 * t), n)
                });
                let mut l = Lathe::new(pts, sectors).capped(capped);
                l.az_range = turns(az0)..turns(az1);
                l.build()
            }
        }
    }
    fn closed(&self) -> bool {
        match self {
            Solid::Cylinder { capped, .. } | Solid::Cone { capped, .. } => *capped,
            Solid::PartialLathe { .. } => false,
            _ => true,
        }
    }
    fn euler(&self) -> i64 {
        if matches!(self, Solid::Torus { .. }) {
            0
        } else {
            2
        }
    }
    fn kind(&self) -> &'static str {
        match self {
            Solid::Tetra => "tetrahedron",
            Solid::Octa => "octahedron",
            Solid::Dodeca => "dodecahedron",
            Solid::Icosa => "icosahedron",
            Solid::Box(..) | Solid::Cube(..) => "box",
            Solid::Sphere { .. } => "sphere",
            Solid::Torus { .. } => "torus",
            Solid::Cylinder { .. } => "cylinder",
            Solid::Cone { .. } => "cone",
            Solid::Capsule { .. } => "capsule",
            Solid::PartialLathe { .. } => "partial_lathe",
        }
    }
    /// Distance of a vertex from the intended surface, relative tolerance
    /// applied by the caller. None = no surface model for this solid.
    fn surface_err(&self, p: [f64; 3]) -> Option<f64> {
        let rho = (p[0] * p[0] + p[2] * p[2]).sqrt();
        Some(match *self {
            Solid::Sphere { radius, .. } => (len3(p) - radius as f64).abs(),
            Solid::Torus { major, minor, .. } => (((rho - major as f64).powi(2) + p[1] * p[1]).sqrt() - minor as f64).abs(),
            // (a vertex may also lie on an end cap: a cap triangulated as a fan
            // around a centre vertex is as good as one around a rim vertex)
            Solid::Cylinder { radius, .. } => {
                let lateral = ((rho - radius as f64).abs()).max((p[1].abs() - 1.0).max(0.0));
                let cap = (p[1].abs() - 1.0).abs().max((rho - radius as f64).max(0.0));
                lateral.min(cap)
            }
            Solid::Cone { base, apex, .. } => {
                let t = (p[1] + 1.0) / 2.0;
                let r = base as f64 + t * (apex as f64 - base as f64);
                let lateral = (rho - r).abs().max((p[1].abs() - 1.0).max(0.0));
                let r_end = if p[1] < 0.0 { base as f64 } else { apex as f64 };
                let cap = (p[1].abs() - 1.0).abs().max((rho - r_end).max(0.0));
                lateral.min(cap)
            }
            Solid::Capsule { radius, .. } => {
                let r = radius as f64;
                if p[1].abs() <= 1.0 {
                    (rho - r).abs()
                } else {
                    let dy = p[1].abs() - 1.0;
                    ((rho * rho + dy * dy).sqrt() - r).abs()
                }
            }
            Solid::Box(a, b) => (0..3).map(|k| (p[k] - a[k] as f64).abs().min((p[k] - b[k] as f64).abs())).fold(0.0, f64::max),
            Solid::Cube(s) => (0..3).map(|k| (p[k].abs() - s as f64 / 2.0).abs()).fold(0.0, f64::max),
            Solid::PartialLathe { r0, r1, .. } => {
                let t = (p[1] + 1.0) / 2.0;
                let lateral = (rho - (r0 as f64 + t * (r1 as f64 - r0 as f64))).abs();
                let r_end = if p[1] < 0.0 { r0 as f64 } else { r1 as f64 };
                let cap = (p[1].abs() - 1.0).abs().max((rho - r_end).max(0.0));
                lateral.min(cap)
            }
            // Platonic solids: all vertices on one sphere (radius taken from the first vertex by the caller)
            _ => return None,
        })
    }
}

fn judge(rep: &mut Report, s: &Solid) {
    let cj = || Json::obj().set("solid", format!("{s:?}"));
    let m = match catch(|| s.build()) {
        Ok(m) => m,
        Err(e) => {
            rep.violation("solid.build_panicked", format!("build() panicked for a valid parameter choice: {e}"), cj());
            return;
        }
    };
    let kind = s.kind();
    rep.count(&format!("solid.{kind}"));
    let nv = m.verts.len();
    // index validity
    for (i, t) in m.faces.iter().enumerate() {
        if t.0.iter().any(|&j| j >= nv) {
            rep.violation("solid.face_index_invalid", format!("face {i} = {:?} refers past the {nv} vertices", t.0), cj());
            return;
        }
    }
    let pos: Vec<[f64; 3]> = m.verts.iter().map(|v| v.pos.0.map(|x| x as f64)).collect();
    let nrm: Vec<[f64; 3]> = m.verts.iter().map(|v| v.attrib.0.map(|x| x as f64)).collect();
    if pos.iter().chain(nrm.iter()).flatten().any(|x| !x.is_finite()) {
        rep.violation("solid.nonfinite", "a vertex position or normal is not finite".into(), cj());
        return;
    }
    let extent = pos.iter().flatten().fold(0.0f64, |a, x| a.max(x.abs())).max(1e-30);
    // unit normals
    for (i, n) in nrm.iter().enumerate() {
        let l = len3(*n);
        // (2e-3: the error class of the library's own fast reciprocal square
        // root; the unchanged std build is at 1.5e-6)
        rep.worst("normal_length_error", (l - 1.0).abs(), 2e-3, String::new);
        if (l - 1.0).abs() > 2e-3 {
            rep.violation(&format!("solid.{kind}.normal_not_unit"), format!("vertex {i} has a normal of length {l:.6}: {:?}", m.verts[i].attrib.0), cj());
            return;
        }
    }
    // surface
    let r0 = len3(pos.first().copied().unwrap_or([0.0; 3]));
    for (i, p) in pos.iter().enumerate() {
        let e = s.surface_err(*p).unwrap_or_else(|| (len3(*p) - r0).abs());
        rep.worst("surface_error/extent", e / extent, 1e-4, String::new);
        if e > 1e-4 * extent {
            rep.violation(&format!("solid.{kind}.vertex_off_surface"), format!("vertex {i} at {:?} is {e:.3e} away from the intended surface (extent {extent:.3})", m.verts[i].pos.0), cj());
            return;
        }
    }
    // extents: the solid reaches what its parameters say (a profile one ring
    // short would still be closed and on the surface)
    {
        let (ylo, yhi) = pos.iter().fold((f64::INFINITY, f64::NEG_INFINITY), |(lo, hi), p| (lo.min(p[1]), hi.max(p[1])));
        let (rlo, rhi) = pos.iter().fold((f64::INFINITY, f64::NEG_INFINITY), |(lo, hi), p| {
            let r = (p[0] * p[0] + p[2] * p[2]).sqrt();
            (lo.min(r), hi.max(r))
        });
        let want: Option<(f64, f64, Option<(f64, f64)>)> = match *s {
            Solid::Cylinder { .. } | Solid::Cone { .. } | Solid::PartialLathe { .. } => Some((-1.0, 1.0, None)),
            Solid::Capsule { radius, .. } => Some((-1.0 - radius as f64, 1.0 + radius as f64, None)),
            Solid::Sphere { radius, .. } => Some((-(radius as f64), radius as f64, None)),
            Solid::Torus { major, minor, .. } => Some((-(minor as f64), minor as f64, Some((major as f64 - minor as f64, major as f64 + minor as f64)))),
            _ => None,
        };
        if let Some((wlo, whi, rho)) = want {
            // a torus with 3 or 4 minor sectors does not reach ±minor in y
            let ytol = match *s {
                Solid::Torus { minor, minor_sectors, .. } => minor as f64 * (1.0 - (std::f64::consts::PI / minor_sectors as f64).cos()) + 1e-4 * extent,
                Solid::Sphere { .. } => 1e-4 * extent,
                _ => 1e-4 * extent,
            };
            let mut bad = (ylo - wlo).abs() > ytol || (yhi - whi).abs() > ytol;
            if let Some((a, b)) = rho {
                // the tube's circle is sampled at minor_sectors points: the
                // innermost point is reached only up to the sagitta
                bad |= (rlo - a).abs() > ytol || (rhi - b).abs() > ytol;
            }
            if bad {
                rep.violation(&format!("solid.{kind}.extent_wrong"), format!("vertices span y in [{ylo}, {yhi}] and distance from the axis in [{rlo}, {rhi}]; the parameters call for y in [{wlo}, {whi}]{}", rho.map(|(a, b)| format!(" and axis distance in [{a}, {b}]")).unwrap_or_default()), cj());
                return;
            }
            rep.count("extents_checked");
        }
        if let Solid::PartialLathe { az0, az1, .. } = *s {
            // every vertex off the axis lies within the requested azimuth
            // range, and both ends of the range are reached
            let span = (az1 - az0) as f64;
            let (mut lo, mut hi) = (f64::INFINITY, f64::NEG_INFINITY);
            for p in &pos {
                if p[0] * p[0] + p[2] * p[2] > 1e-12 * extent * extent {
                    let a = p[2].atan2(p[0]) / std::f64::consts::TAU;
                    let rel = (a - az0 as f64).rem_euclid(1.0);
                    let rel = if rel > 1.0 - 1e-4 { rel - 1.0 } else { rel };
                    lo = lo.min(rel);
                    hi = hi.max(rel);
                }
            }
            if lo.is_finite() && (lo.abs() > 1e-4 || (hi - span).abs() > 1e-4) {
                rep.violation("solid.partial_lathe.azimuth_range_wrong", format!("vertices span azimuths {lo:.5}..{hi:.5} turns past the start of the range; the range is {span:.5} turns wide"), cj());
                return;
            }
            rep.count("azimuth_ranges_checked");
        }
    }
    // merge coincident vertices: union-find over a spatial hash
    // Per-axis tolerance, 1e-4 of the bounding-box extent along that axis:
    // rounding error in a coordinate scales with the extent along its own
    // axis, and a single tolerance taken from the largest extent would weld
    // the rings of a thin solid (radius ≪ height) into a line.
    let tol3: [f64; 3] = std::array::from_fn(|k| {
        let (lo, hi) = pos.iter().fold((f64::INFINITY, f64::NEG_INFINITY), |(lo, hi), p| (lo.min(p[k]), hi.max(p[k])));
        (1e-4 * (hi - lo)).max(1e-300)
    });
    let mut parent: Vec<usize> = (0..nv).collect();
    fn find(p: &mut Vec<usize>, i: usize) -> usize {
        let mut r = i;
        while p[r] != r {
            r = p[r];
        }
        let mut c = i;
        while p[c] != r {
            let n = p[c];
            p[c] = r;
            c = n;
        }
        r
    }
    let cell = |x: f64, k: usize| (x / tol3[k]).floor() as i64;
    let mut grid: HashMap<(i64, i64, i64), Vec<usize>> = HashMap::new();
    for (i, p) in pos.iter().enumerate() {
        let c = (cell(p[0], 0), cell(p[1], 1), cell(p[2], 2));
        for dx in -1..=1 {
            for dy in -1..=1 {
                for dz in -1..=1 {
                    if let Some(v) = grid.get(&(c.0 + dx, c.1 + dy, c.2 + dz)) {
                        for &j in v {
                            let d = sub3(pos[j], *p);
                            if (0..3).all(|k| d[k].abs() <= tol3[k]) {
                                let (a, b) = (find(&mut parent, i), find(&mut parent, j));
                                if a != b {
                                    parent[a] = b;
                                }
                            }
                        }
                    }
                }
            }
        }
        grid.entry(c).or_default().push(i);
    }
    let id: Vec<usize> = (0..nv).map(|i| find(&mut parent, i)).collect();
    // A ring whose chord is about as long as the weld tolerance would be welded
    // in part (neighbours along one axis only): the topology of what remains
    // says nothing about the mesh. Such cases are counted and not judged
    // topologically; everything above still applies to them.
    let weld_ambiguous = m.faces.iter().any(|t| {
        [(t.0[0], t.0[1]), (t.0[1], t.0[2]), (t.0[2], t.0[0])].iter().any(|&(i, j)| {
            let d = sub3(pos[i], pos[j]);
            let q = (0..3).map(|k| d[k].abs() / tol3[k]).fold(0.0, f64::max);
            q > 0.5 && q < 2.0
        })
    });
    if weld_ambiguous {
        rep.count("weld_ambiguous(edge ≈ weld tolerance; topology unjudged)");
        return;
    }

    // faces: winding vs normals, signed volume, directed edges
    let mut vol = 0.0;
    let mut edges: HashMap<(usize, usize), i32> = HashMap::new();
    let mut nf = 0i64;
    let mut degenerate = 0u64;
    for (fi, t) in m.faces.iter().enumerate() {
        let [a, b, c] = t.0;
        let g = cross3(sub3(pos[b], pos[a]), sub3(pos[c], pos[a]));
        vol += dot3(pos[a], cross3(pos[b], pos[c])) / 6.0;
        let (ia, ib, ic) = (id[a], id[b], id[c]);
        let collapsed = ia == ib || ib == ic || ia == ic;
        // relative area threshold for "non-degenerate"
        // non-degenerate = the triangle's angles are not all ≈ 0 or π: the
        // threshold is on |sin| of the angle at a, so that small or thin but
        // well-shaped faces are judged at every scale
        let (e1, e2) = (len3(sub3(pos[b], pos[a])), len3(sub3(pos[c], pos[a])));
        if collapsed || len3(g) < 1e-5 * e1 * e2 {
            degenerate += 1;
            if !collapsed {
                // a sliver that does not collapse under merging still counts as a face topologically
            } else {
                continue;
            }
        } else {
            for &vi in &[a, b, c] {
                let d = dot3(g, nrm[vi]);
                if !(d > 0.0) {
                    rep.violation(
                        &format!("solid.{kind}.normal_on_wrong_side"),
                        format!("face {fi} {:?}: vertex {vi}'s normal {:?} points away from the geometric normal (b−a)×(c−a) = {:?}", t.0, m.verts[vi].attrib.0, g),
                        cj(),
                    );
                    return;
                }
            }
        }
        nf += 1;
        for (x, y) in [(ia, ib), (ib, ic), (ic, ia)] {
            *edges.entry((x, y)).or_default() += 1;
        }
    }
    rep.add("faces_checked", m.faces.len() as u64);
    rep.add("degenerate_faces_dropped", degenerate);
    if s.closed() {
        if !(vol > 0.0) {
            rep.violation(&format!("solid.{kind}.inside_out"), format!("signed volume {vol:.4e} is not positive: faces are wound towards the inside (or inconsistently)"), cj());
            return;
        }
        let mut und: std::collections::HashSet<(usize, usize)> = std::collections::HashSet::new();
        for (&(x, y), &n) in &edges {
            let rev = edges.get(&(y, x)).copied().unwrap_or(0);
            if n != 1 || rev != 1 {
                rep.violation(
                    &format!("solid.{kind}.not_watertight"),
                    format!("after merging coincident vertices the directed edge ({x}→{y}) occurs {n} time(s) and its reverse {rev} time(s); a closed, consistently wound surface has exactly one of each"),
                    cj(),
                );
                return;
            }
            und.insert((x.min(y), x.max(y)));
        }
        let used: std::collections::HashSet<usize> = edges.keys().flat_map(|&(x, y)| [x, y]).collect();
        let chi = used.len() as i64 - und.len() as i64 + nf;
        if chi != s.euler() {
            rep.violation(&format!("solid.{kind}.euler_characteristic"), format!("V−E+F = {}−{}+{nf} = {chi}, expected {}", used.len(), und.len(), s.euler()), cj());
            return;
        }
        rep.count("closed_solids_watertight");
    } else {
        // open surfaces: still a consistently wound manifold with boundary —
        // no directed edge twice, interior edges paired with their reverse,
        // and the Euler characteristic of a tube (0) or of a disk (1)
        let mut und: std::collections::HashSet<(usize, usize)> = std::collections::HashSet::new();
        let mut boundary = 0usize;
        for (&(x, y), &n) in &edges {
            let rev = edges.get(&(y, x)).copied().unwrap_or(0);
            if n != 1 || rev > 1 {
                rep.violation(&format!("solid.{kind}.inconsistent_winding"), format!("after merging coincident vertices the directed edge ({x}→{y}) occurs {n} time(s) and its reverse {rev} time(s): neighbouring faces are wound against each other or overlap"), cj());
                return;
            }
            if rev == 0 {
                boundary += 1;
            }
            und.insert((x.min(y), x.max(y)));
        }
        let used: std::collections::HashSet<usize> = edges.keys().flat_map(|&(x, y)| [x, y]).collect();
        let chi = used.len() as i64 - und.len() as i64 + nf;
        let want_chi = match *s {
            Solid::PartialLathe { az0, az1, .. } if ((az1 - az0).abs() - 1.0).abs() > 1e-3 => 1,
            _ => 0,
        };
        // The statement gives closure and the Euler characteristic for the
        // closed solids only: for an open surface they are recorded, not
        // judged (a tiny apex ring that welds to one point turns a tube into
        // a disk; a variant may close the meridian walls of a partial lathe).
        if nf > 0 && (chi != want_chi || boundary == 0) {
            rep.count("open_surfaces.euler_or_boundary_other_than_tube_or_disk(not a clause)");
        }
        rep.count("open_surfaces_checked");
    }
    // Platonic solids: the documented vertex and face counts, all edges of one
    // length (triangular faces), the documented circumradius
    let plat: Option<(usize, usize, Option<f64>, bool)> = match s {
        Solid::Tetra => Some((4, 4, Some(1.0), true)),
        Solid::Octa => Some((6, 8, Some(1.0), true)),
        // (the listed coordinates of these two are given up to scale; that all
        // vertices are equidistant from the centre is checked above)
        Solid::Icosa => Some((12, 20, None, true)),
        Solid::Dodeca => Some((20, 36, None, false)),
        _ => None,
    };
    if let Some((want_v, want_f, radius, equilateral)) = plat {
        let distinct: std::collections::HashSet<usize> = id.iter().copied().collect();
        let mut bad = vec![];
        if distinct.len() != want_v {
            bad.push(format!("{} distinct vertices (a regular one has {want_v})", distinct.len()));
        }
        if m.faces.len() != want_f {
            bad.push(format!("{} triangles (expected {want_f})", m.faces.len()));
        }
        if let Some(r) = radius {
            if let Some(p) = pos.iter().find(|p| (len3(**p) - r).abs() > 1e-5 * r) {
                bad.push(format!("vertex {p:?} at distance {} from the centre, documented coordinates give {r}", len3(*p)));
            }
        }
        if equilateral {
            let ls: Vec<f64> = m.faces.iter().flat_map(|t| [(t.0[0], t.0[1]), (t.0[1], t.0[2]), (t.0[2], t.0[0])]).map(|(i, j)| len3(sub3(pos[i], pos[j]))).collect();
            let (lo, hi) = ls.iter().fold((f64::INFINITY, 0.0f64), |(lo, hi), l| (lo.min(*l), hi.max(*l)));
            if hi - lo > 1e-5 * hi {
                bad.push(format!("edge lengths range from {lo} to {hi}"));
            }
        }
        if !bad.is_empty() {
            rep.violation(&format!("solid.{kind}.not_regular"), bad.join("; "), cj());
            return;
        }
        rep.count("platonic_regularity_checked");
    }
}

fn lathe_params(k: u64, max_sec: u32, max_seg: u32) -> (u32, u32) {
    let nsec = (max_sec - 2) as u64;
    (3 + (k % nsec) as u32, 1 + ((k / nsec) % max_seg as u64) as u32)
}

pub fn run(cfg: &Cfg, rep: &mut Report) {
    let (max_sec, max_seg) = if cfg.quick() { (32u32, 16u32) } else { (64, 32) };
    rep.rule = format!("case = one generator configuration; exhaustive over sectors 3..={max_sec} × segments 1..={max_seg} for sphere/torus/cylinder/cone/capsule (capped and uncapped, several radii), the five Platonic solids, boxes with random corners, and straight-profile lathes over partial azimuth ranges; all are non-trivial; distinct by hash of the parameters");
    rep.assumptions.push("outward geometric normal = (b−a)×(c−a), the convention under which the renderer's back-face culling keeps outward faces; coincident vertices are merged by union-find when they differ by at most 1e-4 of the bounding-box extent along each axis; faces that collapse under merging are dropped".into());
    rep.pin("F5.octahedron_normals", {
        let mut r2 = Report::new();
        judge(&mut r2, &Solid::Octa);
        match r2.violations.values().next() {
            None => Ok(()),
            Some(v) => Err(v.firsts[0].detail.clone()),
        }
    });
    // Stream 0: Platonic + boxes
    rep.run_stream(cfg, 0, "platonic_and_boxes", cfg.n(2_000, 100_000), |rng, i, rep| {
        let s = match i {
            0 => Solid::Tetra,
            1 => Solid::Octa,
            2 => Solid::Dodeca,
            3 => Solid::Icosa,
            _ if i % 3 == 0 => Solid::Cube(rng.log_f32(0.01, 100.0)),
            _ => {
                let a = [rng.f32_in(-10.0, 10.0), rng.f32_in(-10.0, 10.0), rng.f32_in(-10.0, 10.0)];
                let d = [rng.log_f32(0.01, 100.0), rng.log_f32(0.01, 100.0), rng.log_f32(0.01, 100.0)];
                Solid::Box(a, [a[0] + d[0], a[1] + d[1], a[2] + d[2]])
            }
        };
        let mut h = Hasher::new();
        h.bytes(format!("{s:?}").as_bytes());
        rep.case(h.get(), true);
        if i < 5 {
            rep.sample(|| Json::obj().set("solid", format!("{s:?}")));
        }
        judge(rep, &s);
    });
    // Stream 1: exhaustive lathe solids
    let nconf = (max_sec - 2) as u64 * max_seg as u64;
    let radii = [0.01f32, 0.5, 1.0, 7.0, 100.0];
    rep.run_stream(cfg, 1, "lathe_exhaustive", nconf * radii.len() as u64, |_rng, i, rep| {
        let (sec, seg) = lathe_params(i % nconf, max_sec, max_seg);
        let r = radii[(i / nconf) as usize];
        let mut all = vec![
            Solid::Cylinder { sectors: sec, segments: seg, capped: true, radius: r },
            Solid::Cylinder { sectors: sec, segments: seg, capped: false, radius: r },
            Solid::Cone { sectors: sec, segments: seg, capped: true, base: r, apex: 0.3 * r },
            Solid::Cone { sectors: sec, segments: seg, capped: true, base: r, apex: 0.0 },
            Solid::Cone { sectors: sec, segments: seg, capped: true, base: 0.0, apex: r },
            Solid::Cone { sectors: sec, segments: seg, capped: false, base: r, apex: 2.0 * r },
            Solid::Capsule { sectors: sec, body: seg, cap: 1 + seg / 2, radius: r },
            Solid::Capsule { sectors: sec, body: 1 + seg / 3, cap: seg, radius: r },
        ];
        if seg >= 2 {
            all.push(Solid::Sphere { sectors: sec, segments: seg, radius: r });
        }
        if seg >= 3 {
            all.push(Solid::Torus { major: 2.0 * r, minor: 0.5 * r, major_sectors: sec, minor_sectors: seg });
            all.push(Solid::Torus { major: r, minor: 0.9 * r, major_sectors: sec, minor_sectors: seg });
        }
        for s in all {
            let mut h = Hasher::new();
            h.bytes(format!("{s:?}").as_bytes());
            rep.case(h.get(), true);
            judge(rep, &s);
        }
    });
    rep.exhaustive.push(format!("sectors 3..={max_sec} × segments 1..={max_seg} × radii {radii:?} for cylinder/cone (capped, uncapped, apex 0, base 0), capsule, sphere (segments ≥ 2), torus (minor sectors ≥ 3)"));
    // Stream 2: random parameters incl. partial lathes
    rep.run_stream(cfg, 2, "random_and_partial_lathes", cfg.n(3_000, 200_000), |rng, _, rep| {
        let sec = 3 + rng.below(40) as u32;
        let seg = 1 + rng.below(20) as u32;
        let r = rng.log_f32(1e-6, 1e4);
        let s = match rng.below(6) {
            0 => {
                let az0 = rng.f32_in(-1.0, 1.0);
                Solid::PartialLathe { sectors: sec, segments: seg, r0: r, r1: r * rng.f32_in(0.2, 2.0), az0, az1: az0 + rng.f32_in(0.05, 0.95), capped: rng.bool() }
            }
            1 => Solid::Sphere { sectors: sec, segments: seg.max(2), radius: r },
            2 => Solid::Torus { major: r * rng.f32_in(1.1, 5.0), minor: r, major_sectors: sec, minor_sectors: seg.max(3) },
            3 => Solid::Cone { sectors: sec, segments: seg, capped: rng.bool(), base: r, apex: r * rng.f32_in(0.0, 3.0) },
            4 => Solid::Capsule { sectors: sec, body: seg, cap: 1 + rng.below(12) as u32, radius: r },
            _ => Solid::Cylinder { sectors: sec, segments: seg, capped: rng.bool(), radius: r },
        };
        let mut h = Hasher::new();
        h.bytes(format!("{s:?}").as_bytes());
        rep.case(h.get(), true);
        judge(rep, &s);
    });
    let _ = degs(0.0);
    for k in ["tetrahedron", "octahedron", "dodecahedron", "icosahedron", "box", "sphere", "torus", "cylinder", "cone", "capsule", "partial_lathe"] {
        rep.floor(&format!("solid.{k}"), if k.ends_with("hedron") { 1 } else { 100 });
    }
    rep.floor("closed_solids_watertight", 2_000);
    rep.floor("open_surfaces_checked", 500);
    rep.floor("extents_checked", 2_000);
    rep.floor("azimuth_ranges_checked", 200);
    rep.floor("platonic_regularity_checked", 4);
}
