//! C03 — frustum clipping returns exactly the inside part, attributes intact.
//!
//! Event: the Vec<Tri<ClipVert<A>>> produced by view_frustum::clip.
//! Oracle: everything is decided in the input triangle's own parameter plane
//! P(u,v) = V0 + u(V1−V0) + v(V2−V0), in f64: every output vertex is solved
//! for (u,v); the six plane distances are affine in (u,v), so the expected
//! inside part is an independent 2-D convex clip of the unit triangle.

use super::attr::{Attr, MAXC};
use re::math::angle::Angle;
use re::math::point::{Point2, Point3};
use crate::geo::{self, P2};
use crate::{catch, f32v, next_down, next_up, Cfg, Hasher, Json, Report, Rng};
use re::geom::{vertex, Tri};
use re::math::color::{Color3f, Color4f};
use re::math::vec::{Vec2, Vec3};
use re::render::clip::{view_frustum, ClipVec, ClipVert};

#[derive(Clone, Debug)]
pub struct InTri {
    pub p: [[f32; 4]; 3],
    pub a: [[f32; MAXC]; 3],
}

/// Plane k: signed distance (>0 = outside), same six planes as the frustum
/// definition |x|,|y|,|z| <= w, written out independently.
const PLANES: [[f64; 4]; 6] = [
    [0., 0., -1., -1.], // near:  -z - w
    [0., 0., 1., -1.],  // far:    z - w
    [-1., 0., 0., -1.], // left:  -x - w
    [1., 0., 0., -1.],  // right:  x - w
    [0., -1., 0., -1.], // bottom
    [0., 1., 0., -1.],  // top
];

fn pdist(k: usize, p: &[f64; 4]) -> f64 {
    let pl = &PLANES[k];
    pl[0] * p[0] + pl[1] * p[1] + pl[2] * p[2] + pl[3] * p[3]
}

fn to_clip<A: Attr>(t: &InTri) -> Tri<ClipVert<A>> {
    Tri(std::array::from_fn(|i| {
        ClipVert::new(vertex(ClipVec::from(t.p[i]), A::make(&t.a[i][..A::N])))
    }))
}

fn case_json<A: Attr>(t: &InTri) -> Json {
    Json::obj()
        .set("attr_type", A::NAME)
        .set("v0", f32v(&t.p[0]))
        .set("v1", f32v(&t.p[1]))
        .set("v2", f32v(&t.p[2]))
        .set("a0", f32v(&t.a[0][..A::N]))
        .set("a1", f32v(&t.a[1][..A::N]))
        .set("a2", f32v(&t.a[2][..A::N]))
}

fn bits_eq<A: Attr>(x: &ClipVert<A>, y: &ClipVert<A>) -> bool {
    x.pos.0.map(f32::to_bits) == y.pos.0.map(f32::to_bits)
        && x.attrib.comps().map(f32::to_bits) == y.attrib.comps().map(f32::to_bits)
}

pub fn tris_bits_eq<A: Attr>(x: &[Tri<ClipVert<A>>], y: &[Tri<ClipVert<A>>]) -> bool {
    x.len() == y.len()
        && x.iter()
            .zip(y)
            .all(|(a, b)| (0..3).all(|i| bits_eq(&a.0[i], &b.0[i])))
}

/// The same triangles whatever their order in the output: "the result does
/// not depend on how many other triangles are clipped in the same call" says
/// nothing about where in `out` a triangle's pieces land (a clipper may emit
/// the wholly-inside ones first, or work through the input backwards).
pub fn tris_bits_eq_unordered<A: Attr>(x: &[Tri<ClipVert<A>>], y: &[Tri<ClipVert<A>>]) -> bool {
    let key = |t: &Tri<ClipVert<A>>| -> Vec<u32> {
        let mut k = vec![];
        for v in &t.0 {
            k.extend(v.pos.0.iter().map(|c| c.to_bits()));
            k.extend(v.attrib.comps().iter().map(|c| c.to_bits()));
        }
        k
    };
    let (mut a, mut b): (Vec<_>, Vec<_>) = (x.iter().map(key).collect(), y.iter().map(key).collect());
    a.sort();
    b.sort();
    a == b
}

pub fn clip_one<A: Attr>(t: &InTri) -> Result<Vec<Tri<ClipVert<A>>>, String> {
    let tri = to_clip::<A>(t);
    catch(|| {
        let mut out = vec![];
        view_frustum::clip(&[tri][..], &mut out);
        out
    })
}

/// Judges the clip output of one triangle.
fn judge<A: Attr>(rep: &mut Report, t: &InTri, out: &[Tri<ClipVert<A>>], rng: &mut Rng) {
    let cj = || {
        case_json::<A>(t).set(
            "output",
            Json::Arr(
                out.iter()
                    .map(|Tri(ov)| Json::Arr(ov.iter().map(|o| Json::Str(format!("{:?} attr {:?}", o.pos.0, &o.attrib.comps()[..A::N]))).collect()))
                    .collect(),
            ),
        )
    };
    let v: [[f64; 4]; 3] = t.p.map(|p| p.map(|x| x as f64));
    let scale = v.iter().flatten().fold(0.0f64, |m, x| m.max(x.abs())).max(1e-30);
    rep.count(&format!("out_tris.{}", out.len().min(9)));
    let wpos = t.p.iter().filter(|p| p[3] > 0.0).count();
    rep.count(match wpos {
        3 => "w.all_positive",
        0 => "w.none_positive",
        _ => "w.mixed",
    });

    // exact plane distances of the input vertices
    let d: [[f64; 3]; 6] = std::array::from_fn(|k| std::array::from_fn(|i| pdist(k, &v[i])));
    let crossed = (0..6)
        .filter(|&k| d[k].iter().any(|&x| x > 0.0) && d[k].iter().any(|&x| x < 0.0))
        .count();
    rep.count(&format!("planes_crossed.{crossed}"));
    let on_plane = (0..6).any(|k| d[k].iter().any(|&x| x == 0.0));
    if on_plane {
        rep.count("vertex_exactly_on_plane");
    }

    // (7) status shortcuts — decided from exact signs, which f32 evaluation
    // of ±c − w preserves.
    let all_in = (0..6).all(|k| d[k].iter().all(|&x| x <= 0.0));
    let hidden = (0..6).any(|k| d[k].iter().all(|&x| x > 0.0));
    if all_in {
        rep.count("status.wholly_inside");
        let inp = [to_clip::<A>(t)];
        if !tris_bits_eq(out, &inp) {
            rep.violation(
                "clip.inside_not_unchanged",
                format!("triangle wholly inside the frustum was not emitted unchanged ({} output triangles)", out.len()),
                cj(),
            );
        }
        return;
    }
    if hidden {
        rep.count("status.outside_one_plane");
        if !out.is_empty() {
            rep.violation(
                "clip.hidden_not_empty",
                format!("triangle wholly outside one plane produced {} triangles", out.len()),
                cj(),
            );
        }
        return;
    }
    rep.count("status.needs_clipping");

    // (3) no output point outside (position space, always checked)
    // (real rounding is about 3e-7·scale: one f32 lerp of coordinates of that size)
    let tol_pos = 3e-6 * scale;
    for (ti, Tri(ov)) in out.iter().enumerate() {
        for (j, o) in ov.iter().enumerate() {
            let p: [f64; 4] = o.pos.0.map(|x| x as f64);
            if p.iter().any(|x| !x.is_finite()) {
                rep.violation("clip.nonfinite_output", format!("output tri {ti} vertex {j} is not finite: {:?}", o.pos.0), cj());
                return;
            }
            for k in 0..6 {
                let dd = pdist(k, &p);
                rep.worst("plane_excess/scale", dd / scale, 3e-6, String::new);
                if dd > tol_pos {
                    rep.violation(
                        "clip.output_outside_frustum",
                        format!("output tri {ti} vertex {j} {:?} is outside plane {k} by {dd:.3e} (tol {tol_pos:.1e})", o.pos.0),
                        cj(),
                    );
                    return;
                }
            }
        }
    }

    // parameter plane
    let e1: [f64; 4] = std::array::from_fn(|k| v[1][k] - v[0][k]);
    let e2: [f64; 4] = std::array::from_fn(|k| v[2][k] - v[0][k]);
    let e3: [f64; 4] = std::array::from_fn(|k| v[2][k] - v[1][k]);
    let dot = |a: &[f64; 4], b: &[f64; 4]| a.iter().zip(b).map(|(x, y)| x * y).sum::<f64>();
    let (g11, g12, g22) = (dot(&e1, &e1), dot(&e1, &e2), dot(&e2, &e2));
    let det = g11 * g22 - g12 * g12;
    let longest2 = g11.max(g22).max(dot(&e3, &e3));
    let alt_min = if det > 0.0 && longest2 > 0.0 { (det / longest2).sqrt() } else { 0.0 };
    let cond = if alt_min > 0.0 { scale / alt_min } else { f64::INFINITY };
    if !(cond <= 1e3) {
        rep.skip("uv_oracle.ill_conditioned_or_degenerate_input");
        // what can still be said of slivers and zero-area input: every output
        // vertex is a convex combination of the input vertices, so each of its
        // coordinates and attribute components lies within the input's range
        for (ti, Tri(ov)) in out.iter().enumerate() {
            for (j, o) in ov.iter().enumerate() {
                let oc = o.attrib.comps();
                for c in 0..A::N {
                    let (lo, hi) = (0..3).fold((f64::INFINITY, f64::NEG_INFINITY), |(lo, hi), i| (lo.min(t.a[i][c] as f64), hi.max(t.a[i][c] as f64)));
                    let slack = 1e-5 * lo.abs().max(hi.abs()) + 1e-30;
                    if !((oc[c] as f64) >= lo - slack && (oc[c] as f64) <= hi + slack) {
                        rep.violation("clip.wrong_vertex_attribute", format!("degenerate input: output tri {ti} vertex {j} has attribute component {c} = {} outside the input's range [{lo}, {hi}]", oc[c]), cj());
                        return;
                    }
                }
                for k in 0..4 {
                    let (lo, hi) = (0..3).fold((f64::INFINITY, f64::NEG_INFINITY), |(lo, hi), i| (lo.min(v[i][k]), hi.max(v[i][k])));
                    let x = o.pos.0[k] as f64;
                    if !(x >= lo - tol_pos && x <= hi + tol_pos) {
                        rep.violation("clip.output_outside_input_triangle", format!("degenerate input: output tri {ti} vertex {j} coordinate {k} = {x} lies outside the input's range [{lo}, {hi}]"), cj());
                        return;
                    }
                }
            }
        }
        rep.count("degenerate_inputs_range_checked");
        return;
    }
    rep.count("uv_oracle.applied");
    let tol_uv = 4e-6 * cond;

    // expected inside part: unit triangle ∩ six half-planes, each affine in
    // (u,v). "Beyond rounding" is made precise by a band of ±1e-5·scale
    // around every plane: `lo` is the part inside by more than the band,
    // `hi` the part not outside by more than the band. The output must
    // cover at least `lo` and at most `hi`.
    let band = 3e-6 * scale;
    let clip_all = |off: f64| -> Vec<P2> {
        let mut poly: Vec<P2> = vec![(0.0, 0.0), (1.0, 0.0), (0.0, 1.0)];
        for k in 0..6 {
            let (d0, d1, d2) = (d[k][0] + off, d[k][1] + off, d[k][2] + off);
            poly = geo::clip_halfplane(&poly, |(u, w)| d0 + u * (d1 - d0) + w * (d2 - d0));
            if poly.len() < 3 {
                return vec![];
            }
        }
        poly
    };
    let (poly_lo, poly_hi) = (clip_all(band), clip_all(-band));
    let area_lo = if poly_lo.len() >= 3 { geo::poly_area(&poly_lo) } else { 0.0 };
    let area_hi = if poly_hi.len() >= 3 { geo::poly_area(&poly_hi) } else { 0.0 };
    rep.count(&format!("expected_polygon_vertices.{}", poly_hi.len().min(9)));
    if area_hi - area_lo > 1e-3 {
        rep.count("band_ambiguous_area_gt_1e-3");
    }

    // attribute ranges
    let mut arange = [0.0f64; MAXC];
    let mut amax = [0.0f64; MAXC];
    for c in 0..A::N {
        let vals = [t.a[0][c] as f64, t.a[1][c] as f64, t.a[2][c] as f64];
        let (lo, hi) = (vals.iter().cloned().fold(f64::INFINITY, f64::min), vals.iter().cloned().fold(f64::NEG_INFINITY, f64::max));
        arange[c] = hi - lo;
        amax[c] = lo.abs().max(hi.abs());
    }

    let mut got_area = 0.0;
    let mut out_uv: Vec<[P2; 3]> = vec![];
    for (ti, Tri(ov)) in out.iter().enumerate() {
        let mut uv = [(0.0, 0.0); 3];
        for (j, o) in ov.iter().enumerate() {
            let p: [f64; 4] = o.pos.0.map(|x| x as f64);
            let r: [f64; 4] = std::array::from_fn(|k| p[k] - v[0][k]);
            let (b1, b2) = (dot(&r, &e1), dot(&r, &e2));
            let (u, w) = ((g22 * b1 - g12 * b2) / det, (g11 * b2 - g12 * b1) / det);
            uv[j] = (u, w);
            // (1) on the input triangle's plane
            let res: f64 = (0..4).map(|k| (r[k] - u * e1[k] - w * e2[k]).powi(2)).sum::<f64>().sqrt();
            rep.worst("off_plane_residual/scale", res / scale, 1e-5, String::new);
            if res > tol_pos {
                rep.violation(
                    "clip.output_off_input_plane",
                    format!("output tri {ti} vertex {j} {:?} is {res:.3e} away from the input triangle's plane", o.pos.0),
                    cj(),
                );
                return;
            }
            // (2) inside the input triangle
            let excess = (-u).max(-w).max(u + w - 1.0);
            rep.worst("uv_outside_input/tol_uv", excess / tol_uv, 1.0, String::new);
            if excess > tol_uv {
                rep.violation(
                    "clip.output_outside_input_triangle",
                    format!("output tri {ti} vertex {j}: (u,v)=({u:.6},{w:.6}) outside the input triangle by {excess:.3e} (tol {tol_uv:.1e})"),
                    cj(),
                );
                return;
            }
            // (4) attribute = the input's linear field at (u,v)
            let got = o.attrib.comps();
            for c in 0..A::N {
                let (a0, a1, a2) = (t.a[0][c] as f64, t.a[1][c] as f64, t.a[2][c] as f64);
                let ea = a0 + u * (a1 - a0) + w * (a2 - a0);
                let err = (ea - got[c] as f64).abs();
                let tol = 2.5 * tol_uv * arange[c] + 2e-6 * amax[c] + 1e-30;
                rep.worst("attr_err/tol", err / tol, 1.0, String::new);
                if !(err <= tol) {
                    rep.violation(
                        "clip.wrong_vertex_attribute",
                        format!("output tri {ti} vertex {j} comp {c}: attribute {} but the input's linear field gives {ea} at (u,v)=({u:.5},{w:.5}) (tol {tol:.2e})", got[c]),
                        cj(),
                    );
                    return;
                }
            }
        }
        // (5) winding kept
        let a = geo::poly_area(&uv);
        if a < -4.0 * tol_uv {
            rep.violation(
                "clip.winding_flipped",
                format!("output tri {ti} has signed area {a:.3e} in the input's (u,v) plane (input = +0.5): winding reversed"),
                cj(),
            );
            return;
        }
        got_area += a;
        out_uv.push(uv);
    }
    // (6) covers the inside part exactly: area within [lo, hi]
    let tol_area = 8.0 * tol_uv + 1e-7;
    let err = (area_lo - got_area).max(got_area - area_hi).max(0.0);
    rep.worst("area_err/tol", err / tol_area, 1.0, String::new);
    if !(err <= tol_area) {
        rep.violation(
            "clip.area_mismatch",
            format!("output triangles cover area {got_area:.7} of the input's parameter triangle; the inside part has area in [{area_lo:.7}, {area_hi:.7}] (tol {tol_area:.1e})"),
            cj(),
        );
        return;
    }
    // (6b) point probes: a point inside by more than the band lies in exactly
    // one output triangle, a point outside by more than the band in none.
    for _ in 0..6 {
        let (mut a, mut b) = (rng.unit(), rng.unit());
        if a + b > 1.0 {
            a = 1.0 - a;
            b = 1.0 - b;
        }
        let p = (a, b);
        let margin = 3.0 * tol_uv + 1e-6;
        let dk: [f64; 6] = std::array::from_fn(|k| d[k][0] + a * (d[k][1] - d[k][0]) + b * (d[k][2] - d[k][0]));
        let inside_lo = dk.iter().all(|&x| x < -band);
        let outside_hi = dk.iter().any(|&x| x > band);
        if !inside_lo && !outside_hi {
            rep.skip("point_probe.within_rounding_band_of_a_plane");
            continue;
        }
        let mut hits = 0;
        let mut near = false;
        for uv in &out_uv {
            if geo::tri_edge_dist(p, uv) < margin {
                near = true;
            }
            if geo::tri_inside(p, uv) {
                hits += 1;
            }
        }
        if near {
            rep.skip("point_probe.near_output_edge");
            continue;
        }
        rep.count("point_probes");
        let want = if inside_lo { 1 } else { 0 };
        if hits != want {
            rep.violation(
                if hits > want { "clip.overlap_or_excess" } else { "clip.inside_point_lost" },
                format!("parameter point (u,v)=({a:.5},{b:.5}) is covered by {hits} output triangles, expected {want}"),
                cj(),
            );
            return;
        }
    }
}

// ---------------------------------------------------------------- generators

fn gen_attrs(rng: &mut Rng, n: usize) -> [[f32; MAXC]; 3] {
    let amp = rng.pick(&[1.0f32, 1.0, 100.0, 0.01]);
    let mut a = [[0.0f32; MAXC]; 3];
    let constant = rng.chance(1, 40);
    for c in 0..n {
        let base = rng.f32_in(-1.0, 1.0) * amp;
        for i in 0..3 {
            a[i][c] = if constant { base } else { rng.f32_in(-1.0, 1.0) * amp };
        }
    }
    a
}

fn gen_lattice5(rng: &mut Rng, code: Option<u64>) -> [[f32; 4]; 3] {
    let mut c = code;
    let mut next = |rng: &mut Rng| -> f32 {
        match &mut c {
            Some(x) => {
                let d = *x % 5;
                *x /= 5;
                d as f32 - 2.0
            }
            None => rng.int(-2, 2) as f32,
        }
    };
    std::array::from_fn(|_| {
        let (x, y, z) = (next(rng), next(rng), next(rng));
        let w = rng.pick(&[1.0f32, 1.0, 1.0, 2.0, 2.0, -1.0, -2.0]);
        [x, y, z, w]
    })
}

fn gen_halfgrid(rng: &mut Rng) -> [[f32; 4]; 3] {
    std::array::from_fn(|_| {
        let mut c = |rng: &mut Rng| rng.int(-6, 6) as f32 / 2.0;
        let w = rng.pick(&[0.5f32, 1.0, 1.0, 1.5, 2.0, 3.0, -1.0, -0.5, 0.0]);
        [c(rng), c(rng), c(rng), w]
    })
}

fn gen_random(rng: &mut Rng, big: bool) -> [[f32; 4]; 3] {
    let mode = rng.below(20);
    let r = if big { rng.pick(&[3.0f32, 8.0, 8.0]) } else { rng.pick(&[1.0f32, 1.5, 3.0, 8.0]) };
    std::array::from_fn(|_| {
        let mut w = rng.log_f32(0.1, 10.0);
        let neg = match mode {
            0..=9 => false,
            10..=16 => rng.chance(1, 3),
            _ => true,
        };
        if neg {
            w = -w;
        }
        let mut c = |rng: &mut Rng| -> f32 {
            match rng.below(20) {
                0 => rng.sign() * w,                       // exactly on a plane
                1 => {
                    let s = rng.sign() * w;
                    rng.ulp_nudge(s) // ± 1 ulp of a plane
                }
                2 => 0.0,
                // inside or outside a plane by a relative 1e-7 .. 1e-2: where
                // snapping and epsilon comparisons would bite
                3 => rng.sign() * w * (1.0 + rng.sign() * rng.log_f32(1e-7, 1e-2)),
                _ => w.abs() * rng.f32_in(-r, r),
            }
        };
        [c(rng), c(rng), c(rng), w]
    })
}

/// Triangles that surround the frustum's cross-section, to reach the 6- and
/// 7-gon classes.
fn gen_surround(rng: &mut Rng) -> [[f32; 4]; 3] {
    let w = rng.log_f32(0.3, 3.0);
    let rot = rng.f64_in(0.0, std::f64::consts::TAU);
    let rad = rng.f64_in(1.2, 6.0);
    // pick which coordinate pair forms the big triangle
    let axes = rng.pick(&[(0usize, 1usize, 2usize), (0, 2, 1), (1, 2, 0)]);
    std::array::from_fn(|i| {
        let ang = rot + i as f64 * std::f64::consts::TAU / 3.0 + rng.f64_in(-0.4, 0.4);
        let mut p = [0.0f32; 4];
        let wi = w * rng.f32_in(0.7, 1.4);
        p[axes.0] = (rad * ang.cos()) as f32 * wi;
        p[axes.1] = (rad * ang.sin()) as f32 * wi;
        p[axes.2] = rng.f32_in(-1.3, 1.3) * wi;
        p[3] = wi;
        p
    })
}

fn gen_degenerate(rng: &mut Rng) -> [[f32; 4]; 3] {
    let mut t = gen_random(rng, false);
    match rng.below(5) {
        0 => t[1] = t[0],
        1 => {
            t[1] = t[0];
            t[2] = t[0];
        }
        2 => {
            // collinear: v2 = v0 + s (v1 - v0)
            let s = rng.f32_in(-1.0, 2.0);
            for k in 0..4 {
                t[2][k] = t[0][k] + s * (t[1][k] - t[0][k]);
            }
        }
        3 => {
            // sliver
            let s = rng.f32_in(0.0, 1.0);
            for k in 0..4 {
                t[2][k] = t[0][k] + s * (t[1][k] - t[0][k]);
            }
            let k = rng.usize(3);
            t[2][k] = next_up(next_up(t[2][k]));
        }
        _ => {
            let k = rng.usize(4);
            t[2] = t[1];
            t[2][k] = if rng.bool() { next_up(t[2][k]) } else { next_down(t[2][k]) };
        }
    }
    t
}

fn gen(rng: &mut Rng, kind: u32, code: Option<u64>) -> [[f32; 4]; 3] {
    match kind {
        0 => gen_lattice5(rng, code),
        1 => gen_halfgrid(rng),
        2 => gen_random(rng, false),
        3 => {
            if rng.bool() {
                gen_surround(rng)
            } else {
                gen_random(rng, true)
            }
        }
        _ => gen_degenerate(rng),
    }
}

fn one_case<A: Attr>(rng: &mut Rng, rep: &mut Report, kind: u32, code: Option<u64>) {
    let p = gen(rng, kind, code);
    let a = gen_attrs(rng, A::N);
    let t = InTri { p, a };
    let mut h = Hasher::new();
    for v in &t.p {
        h.f32s(v);
    }
    for v in &t.a {
        h.f32s(&v[..A::N]);
    }
    h.bytes(A::NAME.as_bytes());
    let nontrivial = {
        // non-trivial = actually needs clipping against at least one plane
        let v: [[f64; 4]; 3] = t.p.map(|p| p.map(|x| x as f64));
        (0..6).any(|k| {
            let d: [f64; 3] = std::array::from_fn(|i| pdist(k, &v[i]));
            d.iter().any(|&x| x > 0.0) && d.iter().any(|&x| x < 0.0)
        })
    };
    rep.case(h.get(), nontrivial);
    rep.count(&format!("attr.{}", A::NAME));
    match clip_one::<A>(&t) {
        Err(m) => rep.violation("clip.panic", format!("view_frustum::clip panicked: {m}"), case_json::<A>(&t)),
        Ok(out) => {
            rep.sample(|| case_json::<A>(&t).set("output_triangles", out.len()));
            judge::<A>(rep, &t, &out, rng);
        }
    }
}

fn dispatch(rng: &mut Rng, rep: &mut Report, kind: u32, code: Option<u64>) {
    match rng.below(11) {
        7 => one_case::<Angle>(rng, rep, kind, code),
        8 => one_case::<Point3>(rng, rep, kind, code),
        9 => one_case::<((Vec2, f32), Vec2)>(rng, rep, kind, code),
        10 => one_case::<(Color3f, Point2)>(rng, rep, kind, code),
        0 => one_case::<f32>(rng, rep, kind, code),
        1 => one_case::<Vec2>(rng, rep, kind, code),
        2 => one_case::<Vec3>(rng, rep, kind, code),
        3 => one_case::<Color4f>(rng, rep, kind, code),
        4 => one_case::<Color3f>(rng, rep, kind, code),
        5 => one_case::<(Vec2, f32)>(rng, rep, kind, code),
        _ => one_case::<(f32, Vec3)>(rng, rep, kind, code),
    }
}

/// Scale invariance. The frustum |x|,|y|,|z| ≤ w is a cone: scaling all
/// four coordinates of every vertex by 2^k (exact in f32 as long as nothing
/// leaves the normal range) must scale the output positions by 2^k
/// bit-for-bit and leave the attributes bit-identical. The property bounds
/// coordinates only relative to each other, so any absolute scale is in scope.
fn scale_case<A: Attr>(rng: &mut Rng, rep: &mut Report) {
    let kind = rng.pick(&[1u32, 2, 2, 3]);
    let p = gen(rng, kind, None);
    let a = gen_attrs(rng, A::N);
    let t = InTri { p, a };
    let maxc = t.p.iter().flatten().fold(0.0f32, |m, x| m.max(x.abs()));
    let minc = t.p.iter().flatten().filter(|x| **x != 0.0).fold(f32::INFINITY, |m, x| m.min(x.abs()));
    if !(maxc > 0.0) || !minc.is_finite() {
        return;
    }
    // keep every non-zero input coordinate, and every difference the clipper
    // forms, well inside the normal range: 2^-100 ≤ |c·2^k| ≤ 2^100
    let (emax, emin) = (maxc.log2().ceil() as i32, minc.log2().floor() as i32);
    let (klo, khi) = (-100 - emin + 26, 100 - emax - 4);
    if klo >= khi {
        return;
    }
    let k = match rng.below(4) {
        0 => klo,
        1 => khi,
        _ => rng.int(klo as i64, khi as i64) as i32,
    };
    let f = 2.0f32.powi(k);
    let ts = InTri { p: t.p.map(|v| v.map(|x| x * f)), a: t.a };
    let mut h = Hasher::new();
    for v in &ts.p {
        h.f32s(v);
    }
    h.bytes(A::NAME.as_bytes());
    let (r0, r1) = (clip_one::<A>(&t), clip_one::<A>(&ts));
    let (Ok(o0), Ok(o1)) = (r0, r1) else {
        rep.case(h.get(), true);
        rep.violation("clip.panic", "view_frustum::clip panicked (scaled input)".into(), case_json::<A>(&ts).set("scale", format!("2^{k}")));
        return;
    };
    rep.case(h.get(), !o0.is_empty());
    rep.count("scale.cases");
    rep.count(if k < -60 { "scale.below_2^-60" } else if k > 60 { "scale.above_2^60" } else { "scale.moderate" });
    if !o0.is_empty() && o0.len() != 1 {
        rep.count("scale.cases_with_real_clipping");
    }
    let same = o0.len() == o1.len()
        && o0.iter().zip(&o1).all(|(x, y)| {
            (0..3).all(|i| {
                let (px, py) = (x.0[i].pos.0, y.0[i].pos.0);
                (0..4).all(|c| (px[c] * f).to_bits() == py[c].to_bits() || (px[c] == 0.0 && py[c] == 0.0))
                    && x.0[i].attrib.comps().map(f32::to_bits) == y.0[i].attrib.comps().map(f32::to_bits)
            })
        });
    if same {
        rep.count("scale.bit_identical_up_to_the_power_of_two");
    }
    // Exact scale invariance is what a clipper built from +, −, ×, ÷ and sign
    // tests has for free, and it is how F21 was found; but the statement asks
    // for the right cover at every scale, not for identical bits. When the
    // bits differ, the scaled output is judged on its own by the same oracle.
    // (RFMON_FORCE_SCALE_JUDGE=1: self-test of the fallback on every case)
    let scaled_ok = (same && std::env::var_os("RFMON_FORCE_SCALE_JUDGE").is_none()) || {
        let mut r2 = Report::new();
        judge::<A>(&mut r2, &ts, &o1, rng);
        if r2.n_violations() == 0 {
            rep.count("scale.bits_differ_but_the_scaled_output_is_correct");
            true
        } else {
            false
        }
    };
    if !scaled_ok {
        rep.violation(
            "clip.scale_dependence",
            format!("clip(2^{k}·T) is not 2^{k}·clip(T): {} output triangle(s) at unit scale, {} at scale 2^{k}", o0.len(), o1.len()),
            case_json::<A>(&ts).set("scale", format!("2^{k}")).set("unscaled_v0", f32v(&t.p[0])).set("unscaled_v1", f32v(&t.p[1])).set("unscaled_v2", f32v(&t.p[2])),
        );
    }
}

/// (8) batch independence: clip(all) == concat(clip([t])) bit-for-bit.
fn batch_case<A: Attr>(rng: &mut Rng, rep: &mut Report) {
    // mostly a handful; also the empty call, a single triangle, and batches
    // of hundreds (mesh-sized calls)
    let n = match rng.below(40) {
        0 => 0,
        1 => 1,
        2 => 64,
        3 => rng.int(300, 1000) as usize,
        _ => rng.int(2, 8) as usize,
    };
    rep.count(if n == 0 { "batch.empty" } else if n >= 64 { "batch.large" } else { "batch.small" });
    let tris: Vec<InTri> = (0..n)
        .map(|_| {
            let kind = rng.pick(&[0u32, 1, 2, 2, 3, 3, 4]);
            InTri { p: gen(rng, kind, None), a: gen_attrs(rng, A::N) }
        })
        .collect();
    let mut h = Hasher::new();
    for t in &tris {
        for v in &t.p {
            h.f32s(v);
        }
    }
    rep.case(h.get(), true);
    rep.count("batch.cases");
    let cj = || Json::Arr(tris.iter().map(case_json::<A>).collect());
    let all: Vec<_> = tris.iter().map(to_clip::<A>).collect();
    let whole = catch(|| {
        let mut out = vec![];
        view_frustum::clip(&all[..], &mut out);
        out
    });
    let whole = match whole {
        Ok(w) => w,
        Err(m) => {
            rep.violation("clip.panic", format!("clip of a batch panicked: {m}"), cj());
            return;
        }
    };
    let mut concat = vec![];
    let mut nonempty = 0;
    for t in &tris {
        match clip_one::<A>(t) {
            Ok(o) => {
                nonempty += !o.is_empty() as u64;
                // each member's own output is judged absolutely too (not only
                // library output against library output), on small batches
                if n <= 8 {
                    let before = rep.n_violations();
                    judge::<A>(rep, t, &o, rng);
                    rep.count("batch.slices_judged");
                    if rep.n_violations() > before {
                        return;
                    }
                }
                concat.extend(o)
            }
            Err(m) => {
                rep.violation("clip.panic", format!("clip of one triangle panicked: {m}"), case_json::<A>(t));
                return;
            }
        }
    }
    rep.add("batch.members_with_output", nonempty);
    if tris_bits_eq(&whole, &concat) {
        rep.count("batch.output_in_input_order");
    }
    if !tris_bits_eq_unordered(&whole, &concat) {
        rep.violation(
            "clip.batch_dependence",
            format!("clipping {n} triangles in one call gave {} triangles, one call each gave {} (or different bits)", whole.len(), concat.len()),
            cj(),
        );
    }
    // also: the same triangle at a different position in a permuted batch
    let mut perm: Vec<usize> = (0..n).collect();
    rng.shuffle(&mut perm);
    let all_p: Vec<_> = perm.iter().map(|&i| to_clip::<A>(&tris[i])).collect();
    if let Ok(wp) = catch(|| {
        let mut out = vec![];
        view_frustum::clip(&all_p[..], &mut out);
        out
    }) {
        let mut concat_p = vec![];
        for &i in &perm {
            if let Ok(o) = clip_one::<A>(&tris[i]) {
                concat_p.extend(o);
            }
        }
        if !tris_bits_eq_unordered(&wp, &concat_p) {
            rep.violation("clip.batch_dependence", format!("permuted batch of {n} differs from per-triangle clipping"), cj());
        }
    }
}

pub fn run(cfg: &Cfg, rep: &mut Report) {
    rep.rule = "case = one clip-space triangle (12 f32 position words + attributes) or one batch; generators: integer lattice {-2..2}^9 with w in {±1,±2}, half-integer lattice, random with w of either sign and coordinates up to 8|w| incl. exactly-on-plane and ±1ulp values, frustum-surrounding triangles, degenerate/sliver inputs; non-trivial = crosses at least one plane (needs real clipping); distinct by hash of all input bits"
        .into();
    rep.assumptions.push("f64 evaluation of the (u,v) parameter-plane oracle on f32 inputs; (u,v)-based checks are skipped (counted) when the input's scale/min-altitude ratio exceeds 1e3, position-space checks still apply".into());

    // pinned sanity witnesses (regression anchors for the oracle itself)
    {
        let t = InTri { p: [[0., 0., 0., 1.], [2., 0., 0., 1.], [0., 0., 2., 1.]], a: [[0.0; MAXC], [1.0, 0., 0., 0., 0.], [2.0, 0., 0., 0., 0.]] };
        let r = clip_one::<f32>(&t).and_then(|o| if o.len() >= 2 { Ok(()) } else { Err(format!("expected a quad (two triangles or more), got {}", o.len())) });
        rep.pin("clip.quad_example", r);
    }

    {
        // F21: (-1,2,-2.5,0), (-2.5,-1.5,-1,3), (1,-1,-2.5,1) scaled by 2^-74
        // clipped to nothing (d0*d1 underflowed); unscaled it gives two triangles
        let f = 2.0f32.powi(-74);
        let p = [[-1.0f32, 2.0, -2.5, 0.0], [-2.5, -1.5, -1.0, 3.0], [1.0, -1.0, -2.5, 1.0]];
        let a = [[0.0; MAXC], [1.0, 0., 0., 0., 0.], [2.0, 0., 0., 0., 0.]];
        let (t, ts) = (InTri { p, a }, InTri { p: p.map(|v| v.map(|x| x * f)), a });
        let r = match (clip_one::<f32>(&t), clip_one::<f32>(&ts)) {
            (Ok(o0), Ok(o1)) if !o0.is_empty() && !o1.is_empty() => Ok(()),
            (Ok(o0), Ok(o1)) => Err(format!("clip of the triangle scaled by 2^-74 yields {} triangle(s), unscaled {}", o1.len(), o0.len())),
            _ => Err("clip panicked".into()),
        };
        rep.pin("F21.clip_tiny_scale", r);
    }

    let full = !cfg.quick();
    let n0 = if full { 5u64.pow(9) } else { cfg.n(250_000, 0) };
    rep.run_stream(cfg, 0, "lattice5", n0, |rng, i, rep| {
        dispatch(rng, rep, 0, if full { Some(i) } else { None });
    });
    if full {
        rep.exhaustive.push("all 5^9 triangles with x,y,z in {-2,-1,0,1,2} (w drawn from {±1,±2} per vertex)".into());
    }
    rep.run_stream(cfg, 1, "halfgrid", cfg.n(150_000, 20_000_000), |rng, _, rep| dispatch(rng, rep, 1, None));
    rep.run_stream(cfg, 2, "random", cfg.n(300_000, 60_000_000), |rng, _, rep| dispatch(rng, rep, 2, None));
    rep.run_stream(cfg, 3, "surround_big", cfg.n(150_000, 30_000_000), |rng, _, rep| dispatch(rng, rep, 3, None));
    rep.run_stream(cfg, 4, "degenerate", cfg.n(50_000, 5_000_000), |rng, _, rep| dispatch(rng, rep, 4, None));
    rep.run_stream(cfg, 5, "batches", cfg.n(40_000, 5_000_000), |rng, _, rep| match rng.below(3) {
        0 => batch_case::<f32>(rng, rep),
        1 => batch_case::<Vec3>(rng, rep),
        _ => batch_case::<(Vec2, f32)>(rng, rep),
    });

    rep.run_stream(cfg, 6, "scale_invariance", cfg.n(200_000, 20_000_000), |rng, _, rep| match rng.below(3) {
        0 => scale_case::<f32>(rng, rep),
        1 => scale_case::<Vec3>(rng, rep),
        _ => scale_case::<(Vec2, f32)>(rng, rep),
    });
    rep.floor("scale.cases_with_real_clipping", 30_000);
    rep.floor("scale.below_2^-60", 10_000);
    rep.floor("scale.above_2^60", 5_000);
    rep.floor("uv_oracle.applied", 100_000);
    rep.floor("out_tris.3", 2_000);
    rep.floor("out_tris.4", 500);
    rep.floor("out_tris.5", 50);
    rep.floor("out_tris.6", 20);
    rep.floor("planes_crossed.3", 10_000);
    rep.floor("planes_crossed.4", 1_000);
    rep.floor("degenerate_inputs_range_checked", 5_000);
    rep.floor("batch.slices_judged", 20_000);
    rep.floor("batch.empty", 300);
    rep.floor("batch.large", 500);
    rep.floor("w.mixed", 10_000);
    rep.floor("w.none_positive", 1_000);
    rep.floor("status.wholly_inside", 1_000);
    rep.floor("status.outside_one_plane", 10_000);
    rep.floor("vertex_exactly_on_plane", 10_000);
    rep.floor("point_probes", 100_000);
    rep.floor("batch.members_with_output", 10_000);
}
