//! C05 — fragments carry correctly interpolated, finite depth and attributes.
//!
//! Event: each Frag{pos,var} yielded by Scanline::fragments().
//! Oracle: the plane through the three vertex values evaluated at the pixel
//! centre in f64 (barycentrics from the exact f32 screen positions):
//! depth = Σ b_i z_i, attribute = (Σ b_i a_i)/(Σ b_i z_i).

use super::attr::{Attr, MAXC};
use super::rast::{fill, gen_coords};
use crate::geo::{self, P2};
use crate::{f32v, Cfg, Hasher, Json, Report, Rng};
use re::math::color::{Color3f, Color4f};
use re::math::vec::{Vec2, Vec3};
use re::math::angle::Angle;
use re::math::point::{Point2, Point3};

fn cj<A: Attr>(p: &[[f32; 3]; 3], a: &[[f32; MAXC]; 3]) -> Json {
    Json::obj()
        .set("attr_type", A::NAME)
        .set("v0_xyz", f32v(&p[0]))
        .set("v1_xyz", f32v(&p[1]))
        .set("v2_xyz", f32v(&p[2]))
        .set("a0", f32v(&a[0][..A::N]))
        .set("a1", f32v(&a[1][..A::N]))
        .set("a2", f32v(&a[2][..A::N]))
}

pub fn is_color<A: Attr>() -> bool {
    A::NAME.starts_with("Color")
}

/// Judges all fragments of one triangle.
pub fn judge<A: Attr>(rep: &mut Report, p: &[[f32; 3]; 3], a: &[[f32; MAXC]; 3]) {
    judge_with::<A>(rep, p, a, 0.001, false)
}

/// `pos_slack`: the positional tolerance in px under which values are judged
/// (0.001 px, C04's band, in the strict domain). With `large` (coordinates
/// beyond 128 px), value errors are reported under the signature of known
/// finding F9's family; finiteness and position stay strict.
pub fn judge_with<A: Attr>(rep: &mut Report, p: &[[f32; 3]; 3], a: &[[f32; MAXC]; 3], pos_slack: f64, large: bool) {
    let v: [P2; 3] = std::array::from_fn(|i| (p[i][0] as f64, p[i][1] as f64));
    let area = geo::tri_area2(&v).abs() * 0.5;
    if !(area > 1e-6) {
        rep.skip("area<=1e-6px2 (outside the property's domain)");
        // outside this property's domain (C02/C04 decide totality): a panic
        // here is recorded, not judged
        if fill::<A>(p, a, false).is_err() {
            rep.count("degenerate_input.tri_fill_panicked(outside the domain, not judged)");
        }
        return;
    }
    let spans = match fill::<A>(p, a, true) {
        Ok(s) => s,
        Err(m) => {
            rep.violation("raster.panic", format!("tri_fill panicked: {m}"), cj::<A>(p, a));
            return;
        }
    };
    let z: [f64; 3] = std::array::from_fn(|i| p[i][2] as f64);
    let (zlo, zhi) = (z.iter().cloned().fold(f64::INFINITY, f64::min), z.iter().cloned().fold(f64::NEG_INFINITY, f64::max));
    let zabs = zlo.abs().max(zhi.abs());
    // true (perspective) vertex attribute values and their range
    let mut arange = [0.0f64; MAXC];
    let mut amax = [0.0f64; MAXC];
    for c in 0..A::N {
        let vals: [f64; 3] = std::array::from_fn(|i| a[i][c] as f64 / z[i]);
        let (lo, hi) = (vals.iter().cloned().fold(f64::INFINITY, f64::min), vals.iter().cloned().fold(f64::NEG_INFINITY, f64::max));
        arange[c] = hi - lo;
        amax[c] = lo.abs().max(hi.abs());
    }
    // gradients of barycentrics (constant)
    let a2 = geo::tri_area2(&v);
    let gb: [(f64, f64); 3] = [
        ((v[1].1 - v[2].1) / a2, (v[2].0 - v[1].0) / a2),
        ((v[2].1 - v[0].1) / a2, (v[0].0 - v[2].0) / a2),
        ((v[0].1 - v[1].1) / a2, (v[1].0 - v[0].0) / a2),
    ];
    let grad = |vals: &[f64; 3]| -> (f64, f64) {
        (
            gb[0].0 * vals[0] + gb[1].0 * vals[1] + gb[2].0 * vals[2],
            gb[0].1 * vals[0] + gb[1].1 * vals[1] + gb[2].1 * vals[2],
        )
    };
    let elen = |a: P2, b: P2| ((a.0 - b.0).powi(2) + (a.1 - b.1).powi(2)).sqrt();
    // altitude over the edge opposite vertex i
    let alt: [f64; 3] = [a2.abs() / elen(v[1], v[2]).max(1e-300), a2.abs() / elen(v[2], v[0]).max(1e-300), a2.abs() / elen(v[0], v[1]).max(1e-300)];
    let alt_min = alt.iter().cloned().fold(f64::INFINITY, f64::min);
    let gz = grad(&z);
    let gz_len = (gz.0 * gz.0 + gz.1 * gz.1).sqrt();

    let mut nfr = 0u64;
    for s in &spans {
        for (i, f) in s.frags.iter().enumerate() {
            nfr += 1;
            let centre = ((s.x0 + i) as f64 + 0.5, s.y as f64 + 0.5);
            let bad_fin = f.pos.iter().any(|x| !x.is_finite()) || f.var[..A::N].iter().any(|x| !x.is_finite());
            if bad_fin {
                rep.violation(
                    "raster.frag_nonfinite",
                    format!("fragment at centre ({},{}) has non-finite pos {:?} / var {:?} (triangle area {area:.3} px²)", centre.0, centre.1, f.pos, &f.var[..A::N]),
                    cj::<A>(p, a),
                );
                return;
            }
            let (ex, ey) = ((f.pos[0] as f64 - centre.0).abs(), (f.pos[1] as f64 - centre.1).abs());
            rep.worst(if large { "frag_pos_offset_px(large extent)" } else { "frag_pos_offset_px" }, ex.max(ey), 1e-3, String::new);
            if ex > 1e-3 || ey > 1e-3 {
                rep.violation(
                    "raster.frag_not_at_centre",
                    format!("fragment reports position ({},{}) but belongs to pixel centre ({},{})", f.pos[0], f.pos[1], centre.0, centre.1),
                    cj::<A>(p, a),
                );
                return;
            }
            let Some(b) = geo::bary(centre, &v) else { continue };
            // distance of the centre from each edge line = b_i · altitude_i.
            // A fragment inside C04's 0.001 px band of a triangle thinner
            // than 0.01 px sits on a "plane" that is vertical for all
            // practical purposes: its values are not judged (finiteness
            // and position are), and it is counted.
            let inside_by = (0..3).map(|i| b[i] * alt[i]).fold(f64::INFINITY, f64::min);
            if inside_by < 0.001 && alt_min < 0.01 {
                rep.count("fragments.in_band_of_sub_0.01px_sliver(values unjudged)");
                continue;
            }
            let ze = b[0] * z[0] + b[1] * z[1] + b[2] * z[2];
            // depth: 0.5 % of the range of the vertex depths (+ f32 rounding
            // floor + first-order positional slack of 0.001 px, DESIGN §10-2)
            // strict tolerance; and, for large extents, the one that
            // attributes an error to known finding F9's mechanism: a
            // positional error of up to `pos_slack` and one rounding of the
            // largest summand per step of the stepped sums (≤ 2·extent steps)
            let extent = v.iter().fold(0.0f64, |m, q| m.max(q.0).max(q.1));
            let tol_z_strict = 0.005 * (zhi - zlo) + 1e-5 * zabs + 0.001 * gz_len;
            let tol_z = if large { tol_z_strict + pos_slack * gz_len + 1.2e-7 * extent * zabs } else { tol_z_strict };
            let err_z = (f.pos[2] as f64 - ze).abs();
            rep.worst(if large { "depth_err/tol(large extent, drift model)" } else { "depth_err/tol" }, err_z / tol_z, 1.0, String::new);
            // Beyond 128 px the stepped edges drift (known finding F9): a value
            // error beyond the strict tolerance is attributed to that drift if
            // the first-order model explains it, or if first order does not
            // apply — the centre lies within the drift bound of an edge (it may
            // even lie outside: the fragment exists only because of the drift)
            // or the triangle is thinner than four drift bounds, so that 1/w
            // changes by O(1) over the distance the edge has moved. Such errors
            // carry their own signature (known finding F9-frag); anything else
            // keeps the strict one.
            let drift_regime = large && (alt_min < 4.0 * pos_slack || inside_by < pos_slack);
            if large && err_z > tol_z_strict && (err_z <= tol_z || drift_regime) {
                rep.count("large_extent.depth_errors_attributed_to_F9_drift");
                rep.violation(
                    "raster.value_drift_large_extent",
                    format!("fragment at ({},{}) has depth {} but the vertex plane gives {ze} (strict tol {tol_z_strict:.3e}; extent {extent:.0} px, drift bound {pos_slack:.3} px, centre {inside_by:.4} px inside, min altitude {alt_min:.3} px)", centre.0, centre.1, f.pos[2]),
                    cj::<A>(p, a),
                );
                return;
            }
            if !(err_z <= tol_z) {
                rep.violation(
                    "raster.frag_depth_wrong",
                    format!("fragment at ({},{}) has depth {} but the vertex plane gives {ze} (tol {tol_z:.3e})", centre.0, centre.1, f.pos[2]),
                    cj::<A>(p, a),
                );
                return;
            }
            for c in 0..A::N {
                let av: [f64; 3] = std::array::from_fn(|i| a[i][c] as f64);
                let n = b[0] * av[0] + b[1] * av[1] + b[2] * av[2];
                let ae = n / ze;
                // ∇(N/D) = (∇N·D − N·∇D)/D²
                let gn = grad(&av);
                let g = (((gn.0 * ze - n * gz.0) / (ze * ze)).powi(2) + ((gn.1 * ze - n * gz.1) / (ze * ze)).powi(2)).sqrt();
                // rounding floor: the stepped sums a/w and 1/w each carry a
                // few ulps of their largest value, and the quotient amplifies
                // that by (largest 1/w)/(1/w here) — what remains when the
                // attribute is (nearly) constant and 0.5 % of its range is ≈ 0
                let tol_strict = 0.005 * arange[c] + 2e-5 * amax[c] * (zhi.abs().max(zlo.abs()) / ze.abs()).clamp(1.0, 100.0) + 0.001 * g + 1e-30;
                let a_in_max = av.iter().fold(0.0f64, |m, x| m.max(x.abs()));
                let tol = if large { tol_strict + pos_slack * g + 1.2e-7 * extent * (a_in_max + ae.abs() * zabs) / ze.abs() } else { tol_strict };
                let err = (f.var[c] as f64 - ae).abs();
                if large && err > tol_strict && (err <= tol || drift_regime) {
                    rep.count("large_extent.attribute_errors_attributed_to_F9_drift");
                    rep.violation(
                        "raster.value_drift_large_extent",
                        format!("fragment at ({},{}) comp {c}: attribute {} but the perspective-correct plane value is {ae} (strict tol {tol_strict:.3e}; extent {extent:.0} px, drift bound {pos_slack:.3} px, centre {inside_by:.4} px inside, min altitude {alt_min:.3} px)", centre.0, centre.1, f.var[c]),
                        cj::<A>(p, a),
                    );
                    return;
                }
                if err <= tol {
                    rep.worst(if is_color::<A>() { "attr_err/tol(colour types)" } else { "attr_err/tol" }, err / tol, 1.0, || format!("{} {p:?} a={:?} centre {centre:?} got {} exp {ae} tol {tol:.3e} = 0.005*{:.3e} + 1e-5*{:.3e} + 0.001*{g:.3e}", A::NAME, [&a[0][..A::N], &a[1][..A::N], &a[2][..A::N]], f.var[c], arange[c], amax[c]));
                    continue;
                }
                // Which way is it wrong? Colours that equal the *undivided*
                // plane value are the "no perspective correction" defect.
                let affine_match = (f.var[c] as f64 - n).abs() <= 0.005 * arange[c] * ze.abs() + 1e-5 * n.abs() + 1e-30 + 0.001 * (gn.0 * gn.0 + gn.1 * gn.1).sqrt();
                let sig = if is_color::<A>() && affine_match {
                    "raster.color_not_perspective_corrected"
                } else {
                    rep.worst("attr_err/tol", err / tol, 1.0, String::new);
                    "raster.frag_attr_wrong"
                };
                rep.violation(
                    sig,
                    format!(
                        "fragment at ({},{}) comp {c}: attribute {} but the perspective-correct plane value is {ae} (tol {tol:.3e}; undivided plane value {n})",
                        centre.0, centre.1, f.var[c]
                    ),
                    cj::<A>(p, a),
                );
                return;
            }
        }
    }
    rep.add("fragments_judged", nfr);
    rep.add(&format!("fragments.{}", A::NAME), nfr);
}

pub fn gen_case<A: Attr>(rng: &mut Rng, ext: f32) -> ([[f32; 3]; 3], [[f32; MAXC]; 3], bool) {
    let xy = gen_coords(rng, ext);
    let persp = !rng.chance(1, 6);
    // depths from a millimetre to ten kilometres, attribute magnitudes over
    // fourteen decades (the oracle and its tolerances are scale-relative)
    // (from w = 1e-6 to 1e10: reciprocal depths from 1e6 down to 1e-10 — a
    // divisor "too small" for an absolute epsilon is an ordinary far depth)
    let wbase = rng.pick(&[0.1f32, 1.0, 1.0, 10.0, 1e-3, 1e2, 1e4, 1e-6, 1e7, 1e9]);
    let amp = rng.pick(&[1.0f32, 1.0, 255.0, 0.01, 1e-6, 1e4, 1e8]);
    let off = if rng.chance(1, 3) { rng.f32_in(-3.0, 3.0) * amp } else { 0.0 };
    let mut p = [[0.0f32; 3]; 3];
    let mut a = [[0.0f32; MAXC]; 3];
    let mut vals = [[0.0f32; MAXC]; 3];
    // per component: independent values, or ties between vertices (flat
    // colour, alpha = 1, a shared edge value), or zeros of either sign
    let tie: [u64; MAXC] = std::array::from_fn(|_| rng.below(12));
    // reciprocal depths: independent, or all equal but not 1 (a screen-parallel
    // quad at depth 5: an "affine fast path" must still divide), or two equal
    let wtie = rng.below(8);
    let w0 = wbase * rng.f32_in(1.0, 10.0);
    let mut ws = [0.0f32; 3];
    for i in 0..3 {
        let w = if !persp {
            1.0
        } else {
            match (wtie, i) {
                (0, _) => w0,
                (1, 1) => ws[0],
                (1, 0) => w0,
                _ => wbase * rng.f32_in(1.0, 10.0),
            }
        };
        ws[i] = w;
        p[i] = [xy[i][0], xy[i][1], 1.0 / w];
        for c in 0..A::N {
            let val = off + amp * rng.f32_in(-1.0, 1.0);
            vals[i][c] = match (tie[c], i) {
                (0, 1) | (0, 2) | (1, 1) | (2, 2) => vals[0][c], // all equal / v1 = v0 / v2 = v0
                (3, _) => 0.0,
                (4, _) => [0.0, -0.0, 0.0][i],
                (5, _) => amp, // e.g. alpha = 1 everywhere
                _ => val,
            };
            a[i][c] = vals[i][c] / w; // what render() hands to tri_fill: attrib.z_div(w)
        }
    }
    (p, a, persp)
}

fn one<A: Attr>(rng: &mut Rng, rep: &mut Report, idx: u64) {
    let ext = rng.pick(&[4.0f32, 8.0, 16.0, 32.0, 64.0]);
    let (p, a, persp) = gen_case::<A>(rng, ext);
    let mut h = Hasher::new();
    for v in &p {
        h.f32s(v);
    }
    for v in &a {
        h.f32s(&v[..A::N]);
    }
    h.bytes(A::NAME.as_bytes());
    rep.case(h.get(), true);
    rep.count(if persp { "w.varying_up_to_10:1" } else { "w.all_one(affine)" });
    if p[0][2] == p[1][2] && p[1][2] == p[2][2] && p[0][2] != 1.0 {
        rep.count("w.constant_over_the_triangle_but_not_one");
    }
    if p.iter().any(|v| v[2] < 1e-6) {
        rep.count("w.reciprocal_depth_below_1e-6");
    }
    if p.iter().any(|v| v[2] > 1e4) {
        rep.count("w.reciprocal_depth_above_1e4");
    }
    if (0..A::N).any(|c| a[0][c] * p[1][2] == a[1][c] * p[0][2] && a[0][c] * p[2][2] == a[2][c] * p[0][2]) {
        rep.count("attr.component_constant_over_the_triangle");
    }
    let ys = [p[0][1], p[1][1], p[2][1]];
    let mut s = ys;
    s.sort_by(|a, b| a.partial_cmp(b).unwrap());
    if (s[1] - s[0] == 1.0) || (s[2] - s[1] == 1.0) {
        rep.count("shape.half_exactly_one_row_high");
    } else if (s[1] - s[0] > 0.0 && s[1] - s[0] < 1.0) || (s[2] - s[1] > 0.0 && s[2] - s[1] < 1.0) {
        rep.count("shape.half_less_than_one_row_high");
    }
    if s[0] == s[1] || s[1] == s[2] {
        rep.count("shape.flat_top_or_bottom");
    }
    if idx < 2 {
        rep.sample(|| cj::<A>(&p, &a));
    }
    judge::<A>(rep, &p, &a);
}

pub fn run(cfg: &Cfg, rep: &mut Report) {
    rep.rule = "case = one screen triangle (C04's coordinate families, extent ≤ 64 px) with per-vertex reciprocal depth 1/w (w ratio ≤ 10:1, or all 1) and attributes of 11 types (f32, Vec2, Vec3, Color3f, Color4f, Angle, Point3, tuples incl. nested and colour+point), every fragment judged; non-trivial = all (area ≤ 1e-6 px² inputs are skipped and counted); distinct by hash of all vertex words".into();
    rep.assumptions.push("value tolerance = 0.5 % of the vertex-value range + 1e-5·|max|·(largest 1/w ÷ local 1/w) (f32 rounding floor of the stepped sums) + 0.001 px·|∇value| (the position tolerance C04 grants, first order); the NaN/inf clause has no slack".into());

    // pinned witness F1: lower half exactly one row high
    {
        let p = [[2.0f32, 1.0, 1.0], [9.0, 4.0, 1.0], [4.0, 5.0, 1.0]];
        let a = [[0.0f32; MAXC], [1.0, 0., 0., 0., 0.], [0.5, 0., 0., 0., 0.]];
        let r = match fill::<f32>(&p, &a, true) {
            Err(m) => Err(format!("panic: {m}")),
            Ok(spans) => {
                let bad = spans.iter().flat_map(|s| s.frags.iter()).filter(|f| !f.pos.iter().all(|x| x.is_finite()) || !f.var[0].is_finite()).count();
                if bad == 0 {
                    Ok(())
                } else {
                    Err(format!("{bad} fragments of screen triangle (2,1),(9,4),(4,5) carry NaN position/depth/attribute (lower half exactly one row high)"))
                }
            }
        };
        rep.pin("F1.one_row_half_nan", r);
    }
    {
        // F10: colours are not perspective corrected
        let p = [[1.0f32, 1.0, 1.0], [31.0, 2.0, 0.1], [3.0, 30.0, 0.5]];
        let a = [[1.0f32, 0.0, 0.0, 0.0, 0.0], [0.0, 0.1, 0.0, 0.0, 0.0], [0.0, 0.0, 0.5, 0.0, 0.0]];
        let mut r2 = Report::new();
        judge::<Color3f>(&mut r2, &p, &a);
        let r = if r2.n_violations() == 0 {
            Ok(())
        } else {
            Err(r2.violations.values().next().map(|v| v.firsts[0].detail.clone()).unwrap_or_default())
        };
        rep.pin("F10.color_affine", r);
    }

    {
        // F22: Angle varyings were not divided by the interpolated 1/w
        let p = [[0.0f32, 0.0, 0.227752], [3.0, 3.0, 0.7811276], [2.0, 0.0, 0.109943986]];
        let a = [[0.08622687f32, 0., 0., 0., 0.], [0.72951454, 0., 0., 0., 0.], [0.12585533, 0., 0., 0., 0.]];
        let mut r2 = Report::new();
        judge::<Angle>(&mut r2, &p, &a);
        rep.pin("F22.angle_affine", if r2.n_violations() == 0 { Ok(()) } else { Err(r2.violations.values().next().map(|v| v.firsts[0].detail.clone()).unwrap_or_default()) });
    }

    {
        // F9-frag (open): fragment values in the drift band of a thin triangle
        // at large extent. 16 px wide, 1174 px tall, altitude 0.07 px; the
        // fragment at (1303.5,1136.5) exists only because the edge has drifted
        // 0.02 px and carries −1.97e-5 where the plane gives 1.9e-6
        let f = f32::from_bits;
        let p = [[f(0x44a18c3b), f(0x43a50a02), f(0x3decb1f1)], [f(0x44a13082), f(0x42ff7337), f(0x3e9f2d40)], [f(0x44a337f5), f(0x44a2b39d), f(0x3e06cd71)]];
        let a = [[0.0, 0.0, f(0x34c9bb69), 0., 0.], [0.0, -0.0, f(0x35a10e0e), 0., 0.], [0.0, 0.0, f(0x34c6150d), 0., 0.]];
        let mut r2 = Report::new();
        judge_with::<Vec3>(&mut r2, &p, &a, 6e-8 * 2048.0 * 2048.0, true);
        let hit = r2.violations.get("raster.value_drift_large_extent").map(|v| v.firsts[0].detail.clone());
        let other = r2.violations.iter().find(|(k, _)| k.as_str() != "raster.value_drift_large_extent").map(|(k, v)| format!("{k}: {}", v.firsts[0].detail));
        rep.pin("F9.frag_value_drift_thin_triangle", match (hit, other) {
            (_, Some(o)) => Err(o),
            (Some(h), None) => Err(h),
            (None, None) => Ok(()),
        });
    }

    let n = cfg.n(700_000, 70_000_000);
    rep.run_stream(cfg, 0, "triangles", n, |rng, i, rep| match i % 11 {
        0 => one::<f32>(rng, rep, i),
        1 => one::<Vec2>(rng, rep, i),
        2 => one::<Vec3>(rng, rep, i),
        3 => one::<Color4f>(rng, rep, i),
        4 => one::<Color3f>(rng, rep, i),
        5 => one::<(Vec2, f32)>(rng, rep, i),
        6 => one::<(f32, Vec3)>(rng, rep, i),
        7 => one::<Angle>(rng, rep, i),
        8 => one::<Point3>(rng, rep, i),
        9 => one::<((Vec2, f32), Vec2)>(rng, rep, i),
        _ => one::<(Color3f, Point2)>(rng, rep, i),
    });
    // Stream 1: C04's large-extent class (frames of 256..2048 px). Finiteness
    // and "at the pixel centre" are judged strictly; values under the
    // positional drift known finding F9 describes (6e-8·extent·(height+2) px)
    // and the accumulated rounding of the stepped sums.
    rep.run_stream(cfg, 1, "large_extent", cfg.n(4_000, 200_000), |rng, i, rep| {
        let ext = rng.pick(&[256.0f32, 512.0, 1024.0, 2048.0]);
        let (p, a, _) = gen_case::<f32>(rng, ext);
        let mut h = Hasher::new();
        for v in &p {
            h.f32s(v);
        }
        rep.case(h.get(), true);
        rep.count("large_extent.cases");
        let (ylo, yhi) = p.iter().fold((f32::INFINITY, f32::NEG_INFINITY), |(lo, hi), v| (lo.min(v[1]), hi.max(v[1])));
        let _ = (ylo, yhi);
        // the positional bound of known finding F9
        let drift = 6e-8 * (ext as f64) * (ext as f64);
        match i % 3 {
            0 => judge_with::<f32>(rep, &p, &a, drift, true),
            1 => {
                let (p, a, _) = gen_case::<Vec3>(rng, ext);
                judge_with::<Vec3>(rep, &p, &a, drift, true)
            }
            _ => {
                let (p, a, _) = gen_case::<Color4f>(rng, ext);
                judge_with::<Color4f>(rep, &p, &a, drift, true)
            }
        }
    });
    // Stream 2: triangles hanging off the top and/or left of the grid, as
    // unclipped callers of tri_fill hand in (C04 decides which pixels appear;
    // here: the fragments that do appear sit at their centres and carry the
    // plane's values, however far the rasteriser had to skip to reach them).
    rep.run_stream(cfg, 2, "negative_offgrid", cfg.n(60_000, 6_000_000), |rng, i, rep| {
        fn go<A: Attr>(rng: &mut Rng, rep: &mut Report) {
            let ext = rng.pick(&[8.0f32, 16.0, 32.0, 64.0]);
            let (mut p, a, _) = gen_case::<A>(rng, ext);
            let shift = |rng: &mut Rng| -> f32 {
                let s = match rng.below(4) {
                    0 => rng.int(1, ext as i64) as f32,
                    1 => rng.int(1, ext as i64) as f32 - 0.5,
                    _ => rng.f32_in(0.0, ext),
                };
                -s
            };
            let (dx, dy) = match rng.below(3) {
                0 => (shift(rng), 0.0),
                1 => (0.0, shift(rng)),
                _ => (shift(rng), shift(rng)),
            };
            for v in p.iter_mut() {
                v[0] += dx;
                v[1] += dy;
            }
            let mut h = Hasher::new();
            for v in &p {
                h.f32s(v);
            }
            h.bytes(A::NAME.as_bytes());
            let (xlo, xhi) = p.iter().fold((f32::INFINITY, f32::NEG_INFINITY), |(lo, hi), v| (lo.min(v[0]), hi.max(v[0])));
            let (ylo, yhi) = p.iter().fold((f32::INFINITY, f32::NEG_INFINITY), |(lo, hi), v| (lo.min(v[1]), hi.max(v[1])));
            let straddles = (xlo < -1.5 && xhi > 1.0 && yhi > 1.0) || (ylo < -1.5 && yhi > 1.0 && xhi > 1.0);
            rep.case(h.get(), straddles);
            if xlo < -1.5 && xhi > 1.0 {
                rep.count("offgrid.crosses_the_left_border_by_more_than_a_pixel");
            }
            if ylo < -1.5 && yhi > 1.0 {
                rep.count("offgrid.crosses_the_top_border_by_more_than_a_pixel");
            }
            let before = rep.classes.get("fragments_judged").copied().unwrap_or(0);
            judge::<A>(rep, &p, &a);
            let after = rep.classes.get("fragments_judged").copied().unwrap_or(0);
            if straddles {
                rep.add("offgrid.fragments_judged_of_straddling_triangles", after - before);
            }
        }
        match i % 4 {
            0 => go::<f32>(rng, rep),
            1 => go::<Vec3>(rng, rep),
            2 => go::<Color4f>(rng, rep),
            _ => go::<(Vec2, f32)>(rng, rep),
        }
    });
    rep.floor("offgrid.crosses_the_left_border_by_more_than_a_pixel", 5_000);
    rep.floor("offgrid.crosses_the_top_border_by_more_than_a_pixel", 5_000);
    rep.floor("offgrid.fragments_judged_of_straddling_triangles", 400_000);
    rep.floor("large_extent.cases", 2_000);
    rep.floor("fragments_judged", 20_000_000);
    rep.floor("attr.component_constant_over_the_triangle", 20_000);
    rep.floor("shape.half_exactly_one_row_high", 2_000);
    rep.floor("shape.half_less_than_one_row_high", 5_000);
    rep.floor("shape.flat_top_or_bottom", 2_000);
    rep.floor("w.varying_up_to_10:1", 50_000);
    rep.floor("w.reciprocal_depth_below_1e-6", 50_000);
    rep.floor("w.constant_over_the_triangle_but_not_one", 20_000);
    rep.floor("w.reciprocal_depth_above_1e4", 20_000);
}
