//! C16 — colour conversions are mutually inverse, total and in range.
//!
//! Event: return values (or panics) of the conversion functions.
//! Oracles: round-trip relations, range predicates, byte-order identities
//! and an f64 HSL reference (reported as worst-observed error; the verdict
//! rests on the relations the property states).

use crate::{catch, f32v, Cfg, Hasher, Json, Report, Rng};
use re::math::color::{hsl, hsla, rgb, rgba, Color3, Color3f, Color4, Color4f, Hsl, Rgb};
use re::math::space::Affine;
use re::math::vec::Vector;

fn ref_hsl_to_rgb(h: f64, s: f64, l: f64) -> [f64; 3] {
    let c = (1.0 - (2.0 * l - 1.0).abs()) * s;
    let hp = (h * 6.0).rem_euclid(6.0);
    let x = c * (1.0 - (hp % 2.0 - 1.0).abs());
    let (r, g, b) = match hp as u32 {
        0 => (c, x, 0.0),
        1 => (x, c, 0.0),
        2 => (0.0, c, x),
        3 => (0.0, x, c),
        4 => (x, 0.0, c),
        _ => (c, 0.0, x),
    };
    let m = l - c / 2.0;
    [r + m, g + m, b + m]
}

/// One 8-bit RGB triple: round trip within 8/255, grays.
fn rgb8_case(rep: &mut Report, r: u8, g: u8, b: u8) {
    let c = rgb(r, g, b);
    let res = catch(|| {
        let h = c.to_hsl();
        (h, h.to_rgb())
    });
    let cj = || Json::obj().set("rgb8", format!("({r},{g},{b})"));
    match res {
        Err(m) => rep.violation("color.u8_rgb_roundtrip_panicked", format!("to_hsl()/to_rgb() panicked on an in-range 8-bit colour: {m}"), cj()),
        Ok((h, back)) => {
            let d = (0..3).map(|i| (c.0[i] as i32 - back.0[i] as i32).abs()).max().unwrap();
            rep.worst("u8_rgb_hsl_rgb_roundtrip_error_levels", d as f64, 8.0, || format!("rgb({r},{g},{b}) -> hsl{:?} -> rgb{:?}", h.0, back.0));
            if d > 8 {
                rep.violation("color.u8_roundtrip_error", format!("rgb({r},{g},{b}).to_hsl() = {:?}, back to rgb = {:?}: off by {d}/255 (> 8/255)", h.0, back.0), cj());
            }
            if r == g && g == b && (h.0[1] != 0 || h.0[2] != r) {
                rep.violation("color.u8_gray_not_achromatic", format!("gray {r} converts to hsl{:?}: saturation must be 0 and lightness {r}", h.0), cj());
            }
        }
    }
}

fn hsl8_case(rep: &mut Report, h: u8, s: u8, l: u8) {
    let res = catch(|| hsl(h, s, l).to_rgb());
    match res {
        Err(m) => rep.violation("color.u8_hsl_to_rgb_panicked", format!("hsl({h},{s},{l}).to_rgb() panicked: {m}"), Json::obj().set("hsl8", format!("({h},{s},{l})"))),
        Ok(c) => {
            // the value, against the real-number conversion of the same
            // fractions (hue h/256 of a turn, s and l out of 255), on the
            // scale the property uses for 8-bit colours (8/255). In release
            // builds a channel that leaves 0..=255 wraps, which shows here.
            let rf = ref_hsl_to_rgb(h as f64 / 256.0, s as f64 / 255.0, l as f64 / 255.0);
            let d = (0..3).map(|i| (c.0[i] as f64 - rf[i] * 255.0).abs()).fold(0.0, f64::max);
            rep.worst("u8_hsl_to_rgb_vs_real_conversion_levels", d, 8.0, || format!("hsl({h},{s},{l}) -> rgb{:?}, real-number conversion {:?}", c.0, rf.map(|x| x * 255.0)));
            if !(d <= 8.0) {
                rep.violation("color.u8_hsl_to_rgb_wrong", format!("hsl({h},{s},{l}).to_rgb() = {:?}; the real-number conversion gives {:?} (off by {d:.1} levels > 8)", c.0, rf.map(|x| (x * 255.0 * 10.0).round() / 10.0)), Json::obj().set("hsl8", format!("({h},{s},{l})")));
            }
        }
    }
}

fn in01(x: f32) -> bool {
    (0.0..=1.0).contains(&x)
}

fn rgbf_case(rep: &mut Report, c: [f32; 3]) {
    let cj = || Json::obj().set("rgb_f32", f32v(&c));
    let col: Color3f<Rgb> = rgb(c[0], c[1], c[2]);
    let res = catch(|| {
        let h = col.to_hsl();
        (h, h.to_rgb())
    });
    match res {
        Err(m) => rep.violation("color.f32_rgb_roundtrip_panicked", format!("to_hsl()/to_rgb() panicked on an in-range colour: {m}"), cj()),
        Ok((h, back)) => {
            if !h.0.iter().all(|x| in01(*x)) {
                rep.violation("color.f32_hsl_out_of_range", format!("to_hsl() = {:?} leaves [0,1]", h.0), cj());
                return;
            }
            if !back.0.iter().all(|x| in01(*x)) {
                rep.violation("color.f32_rgb_out_of_range", format!("rgb{:?} -> hsl{:?} -> rgb{:?} leaves [0,1]", c, h.0, back.0), cj());
                return;
            }
            let d = (0..3).map(|i| (c[i] - back.0[i]).abs() as f64).fold(0.0, f64::max);
            rep.worst("f32_rgb_hsl_rgb_roundtrip_error", d, 1e-4, || format!("rgb{:?} -> hsl{:?} -> rgb{:?}", c, h.0, back.0));
            if !(d <= 1e-4) {
                rep.violation("color.f32_roundtrip_error", format!("rgb{:?}.to_hsl() = {:?}, back to rgb = {:?}: error {d:.3e} (> 1e-4)", c, h.0, back.0), cj());
                return;
            }
            // (x + x)/2 is exact: a gray keeps its lightness to the bit
            if c[0] == c[1] && c[1] == c[2] && (h.0[1] != 0.0 || !(h.0[2] == c[0])) {
                rep.violation("color.f32_gray_not_achromatic", format!("gray {} converts to hsl{:?}", c[0], h.0), cj());
            }
        }
    }
}

fn hslf_case(rep: &mut Report, c: [f32; 3]) {
    let cj = || Json::obj().set("hsl_f32", f32v(&c));
    let col: Color3f<Hsl> = hsl(c[0], c[1], c[2]);
    match catch(|| col.to_rgb()) {
        Err(m) => rep.violation("color.f32_hsl_to_rgb_panicked", format!("hsl{:?}.to_rgb() panicked on in-range input: {m}", c), cj()),
        Ok(out) => {
            // in range, exactly (NaN is not in range)
            if !out.0.iter().all(|x| in01(*x)) {
                rep.violation("color.f32_rgb_out_of_range", format!("hsl{:?}.to_rgb() = {:?} leaves [0,1]", c, out.0), cj());
                return;
            }
            let rf = ref_hsl_to_rgb(c[0] as f64, c[1] as f64, c[2] as f64);
            let d = (0..3).map(|i| (rf[i] - out.0[i] as f64).abs()).fold(0.0, f64::max);
            rep.worst("f32_hsl_to_rgb_vs_f64_reference(informational)", d, f64::INFINITY, || format!("hsl{:?}", c));
            // and back: HSL→RGB→HSL is the other composition of "mutually
            // inverse"; hue is undefined for s = 0 or l ∈ {0,1}, and h = 1 ≡ 0
            // (judged where the colour has a chroma of at least 1e-3: below
            // that an implementation may call it a gray, which the stated
            // RGB→HSL→RGB clause allows)
            if c[1] > 1e-3 && c[2] > 1e-3 && c[2] < 1.0 - 1e-3 && ((1.0 - (2.0 * c[2] - 1.0).abs()) * c[1]) >= 1e-3 {
                let back = catch(|| out.to_hsl());
                if let Err(m) = &back {
                    rep.violation("color.f32_rgb_roundtrip_panicked", format!("hsl{:?}.to_rgb() = {:?}, and to_hsl() of that in-range colour panicked: {m}", c, out.0), cj());
                }
                if let Ok(h2) = back {
                    rep.count("f32_hsl_rgb_hsl_compositions_judged");
                    if !h2.0.iter().all(|x| in01(*x)) {
                        rep.violation("color.f32_hsl_out_of_range", format!("hsl{:?} -> rgb{:?} -> hsl{:?} leaves [0,1]", c, out.0, h2.0), cj());
                        return;
                    }
                    let dh = {
                        let d = (h2.0[0] - c[0]).abs() as f64;
                        d.min(1.0 - d)
                    };
                    // conditioning: hue error scales with 1/chroma
                    let chroma = ((1.0 - (2.0 * c[2] - 1.0).abs()) * c[1]) as f64;
                    let tol = 1e-5 / chroma.max(1e-3) + 1e-6;
                    let ds = (h2.0[1] - c[1]).abs() as f64;
                    let dl = (h2.0[2] - c[2]).abs() as f64;
                    let tol_s = 1e-5 / (1.0 - (2.0 * c[2] as f64 - 1.0).abs()).max(1e-3) + 1e-6;
                    rep.worst("f32_hsl_rgb_hsl_hue_err/tol", dh / tol, 1.0, || format!("hsl{:?} -> rgb{:?} -> hsl{:?}", c, out.0, h2.0));
                    if dh > tol || ds > tol_s || dl > 1e-5 {
                        rep.violation("color.f32_hsl_rgb_hsl_error", format!("hsl{:?}.to_rgb() = {:?}, back to hsl = {:?}", c, out.0, h2.0), cj());
                    }
                }
            }
        }
    }
}

fn hue_wrap_case(rep: &mut Report, s: f32, l: f32) {
    let r = catch(|| (hsl(0.0f32, s, l).to_rgb(), hsl(1.0f32, s, l).to_rgb()));
    match r {
        Err(m) => rep.violation("color.f32_hsl_to_rgb_panicked", format!("hue 0/1 conversion panicked: {m}"), Json::obj().set("s", s).set("l", l)),
        Ok((a, b)) => {
            let d = (0..3).map(|i| (a.0[i] - b.0[i]).abs()).fold(0.0, f32::max);
            if d > 1e-6 {
                rep.violation("color.hue_one_ne_hue_zero", format!("hsl(1,{s},{l}) -> {:?} but hsl(0,{s},{l}) -> {:?}", b.0, a.0), Json::obj().set("s", s).set("l", l));
            }
        }
    }
}

/// Byte-order identities for one RGBA word.
fn pack_case(rep: &mut Report, w: u32) -> bool {
    let [r, g, b, a] = w.to_be_bytes();
    let c4: Color4 = rgba(r, g, b, a);
    let c3: Color3 = rgb(r, g, b);
    let ok = c4.to_rgba_u32() == w
        && c4.to_argb_u32() == ((a as u32) << 24 | (r as u32) << 16 | (g as u32) << 8 | b as u32)
        && c3.to_rgb_u32() == ((r as u32) << 16 | (g as u32) << 8 | b as u32)
        && c3.to_rgba().0 == [r, g, b, 0xFF]
        && c4.to_rgb().0 == [r, g, b];
    if !ok {
        rep.violation(
            "color.packing_byte_order",
            format!("rgba({r},{g},{b},{a}): to_rgba_u32={:#010x} to_argb_u32={:#010x} to_rgb_u32={:#010x} to_rgba={:?} to_rgb={:?}", c4.to_rgba_u32(), c4.to_argb_u32(), c3.to_rgb_u32(), c3.to_rgba().0, c4.to_rgb().0),
            Json::obj().set("word", format!("{w:#010x}")),
        );
    }
    ok
}

/// 4-channel HSL paths: the colour part must equal the 3-channel conversion
/// and alpha must be carried through unchanged.
fn alpha_case(rep: &mut Report, c: [u8; 4], f: [f32; 4]) {
    let r = catch(|| {
        let c4: Color4 = rgba(c[0], c[1], c[2], c[3]);
        let h4 = c4.to_hsla();
        let back = h4.to_rgba();
        let h3 = rgb(c[0], c[1], c[2]).to_hsl();
        let b3 = h3.to_rgb();
        (h4.0, back.0, h3.0, b3.0, h4.to_hsl().0)
    });
    match r {
        Err(m) => rep.violation("color.hsla_panicked", format!("to_hsla/to_rgba panicked: {m}"), Json::obj().set("rgba8", format!("{c:?}"))),
        Ok((h4, back, h3, b3, h43)) => {
            // alpha kept through both conversions and dropped by to_hsl(); the
            // colour channels obey the same relation as the 3-channel path
            // (round trip within 8/255). Equality with the 3-channel sibling,
            // bit for bit, is what the library does today and is counted.
            let rt = (0..3).map(|i| (back[i] as i32 - c[i] as i32).abs()).max().unwrap_or(0);
            if h4[..3] == h3[..] && back[..3] == b3[..] {
                rep.count("alpha_path.u8_identical_to_3_channel_path");
            }
            if h4[3] != c[3] || back[3] != c[3] || h43[..] != h4[..3] || rt > 8 {
                rep.violation("color.alpha_or_channels_not_kept", format!("rgba{c:?}: to_hsla={h4:?} (3-channel {h3:?}), back to_rgba={back:?} (3-channel {b3:?})"), Json::obj().set("rgba8", format!("{c:?}")));
                return;
            }
        }
    }
    let r = catch(|| {
        let c4: Color4f = rgba(f[0], f[1], f[2], f[3]);
        let h4 = c4.to_hsla();
        let back = h4.to_rgba();
        let h3 = rgb(f[0], f[1], f[2]).to_hsl();
        let b3 = h3.to_rgb();
        (h4.0, back.0, h3.0, b3.0)
    });
    match r {
        Err(m) => rep.violation("color.hsla_panicked", format!("float to_hsla/to_rgba panicked: {m}"), Json::obj().set("rgba_f32", f32v(&f))),
        Ok((h4, back, h3, b3)) => {
            let same = |a: &[f32], b: &[f32]| a.iter().zip(b).all(|(x, y)| x.to_bits() == y.to_bits());
            if same(&h4[..3], &h3) && same(&back[..3], &b3) {
                rep.count("alpha_path.f32_identical_to_3_channel_path");
            }
            let in_range = f[..3].iter().all(|x| in01(*x));
            let rt = (0..3).map(|i| (back[i] - f[i]).abs()).fold(0.0f32, f32::max);
            if h4[3].to_bits() != f[3].to_bits() || back[3].to_bits() != f[3].to_bits() || (in_range && !(rt <= 1e-4)) {
                rep.violation("color.alpha_or_channels_not_kept", format!("rgba{f:?}: to_hsla={h4:?} (3-channel {h3:?}), back to_rgba={back:?} (3-channel {b3:?})"), Json::obj().set("rgba_f32", f32v(&f)));
                return;
            }
        }
    }
    rep.count("alpha_path_checks");
}

fn clamp_case(rep: &mut Report, v: [f32; 4]) {
    // "float-to-8-bit conversion clamps": below 0 gives 0, above 1 gives 255,
    // in between a level next to 255·x (truncation, as the library does today,
    // or rounding to nearest: the statement does not say which). None = NaN,
    // not judged. Returns the admissible closed range of levels.
    let exp = |x: f32| -> Option<(u8, u8)> {
        if x.is_nan() {
            None
        } else if x <= 0.0 {
            Some((0, 0))
        } else if x >= 1.0 {
            Some((255, 255))
        } else {
            let y = x as f64 * 255.0;
            Some((y.floor() as u8, (y.ceil() as u8).max(y.floor() as u8)))
        }
    };
    let within = |g: u8, e: (u8, u8)| g >= e.0 && g <= e.1;
    let r = catch(|| {
        let c4: Color4f = rgba(v[0], v[1], v[2], v[3]);
        let c3: Color3f = rgb(v[0], v[1], v[2]);
        (c4.to_color4().0, c4.to_color3().0, c3.to_color3().0, c3.to_color4().0, c3.to_rgba().0, c4.to_rgb().0)
    });
    let cj = || Json::obj().set("rgba_f32", f32v(&v));
    match r {
        Err(m) => rep.violation("color.float_to_u8_panicked", format!("to_color3/4 panicked: {m}"), cj()),
        Ok((a4, a3, b3, b4, fa, fr)) => {
            let mut ok = true;
            for i in 0..4 {
                if let Some(e) = exp(v[i]) {
                    ok &= within(a4[i], e);
                    if i < 3 {
                        // the four entry points agree with each other exactly
                        ok &= within(a3[i], e) && a3[i] == a4[i] && b3[i] == a4[i] && b4[i] == a4[i];
                    }
                }
            }
            ok &= b4[3] == 0xFF;
            ok &= fa[3] == 1.0 && (0..3).all(|i| fa[i].to_bits() == v[i].to_bits()) && (0..3).all(|i| fr[i].to_bits() == v[i].to_bits());
            if !ok {
                rep.violation("color.float_to_u8_clamp", format!("rgba{:?}: to_color4={a4:?} to_color3={a3:?} / rgb: to_color3={b3:?} to_color4={b4:?} to_rgba={fa:?} to_rgb={fr:?}", v), cj());
            }
        }
    }
}

pub fn run(cfg: &Cfg, rep: &mut Report) {
    rep.rule = "exhaustive: all 2^24 8-bit RGB triples (round trip, grays) and all 2^24 8-bit HSL triples (totality); float: dense grid incl. every hue sextant boundary ±1 ulp plus random triples in [0,1]^3 and triples over all magnitudes of [0,1] (zero, subnormal, log-uniform down to 1e-38, within ulps of 1), both compositions; packing: 2^24 stratified RGBA words quick / all 2^32 thorough; float→8-bit clamping incl. NaN/±inf/out-of-range; 8-bit saturating add over all 256×511 (channel, delta) pairs; non-trivial = non-gray colour / non-zero delta; distinct by hash of the input".into();
    rep.assumptions.push("hue is compared modulo 1 and with a tolerance scaled by 1/chroma (hue is ill-conditioned near gray); the f64 reference is reported, the verdict rests on the relations the property states".into());

    rep.pin("F6.float_hsl_sextant", {
        let mut r2 = Report::new();
        rgbf_case(&mut r2, [0.8, 1.0, 0.0]);
        hslf_case(&mut r2, [0.2, 1.0, 0.5]);
        match r2.violations.values().next() {
            None => Ok(()),
            Some(v) => Err(v.firsts[0].detail.clone()),
        }
    });

    rep.pin("F13.debug_assert_on_in_range_input", {
        let mut r2 = Report::new();
        rgbf_case(&mut r2, [0.0, 0.0, 0.015384615]);
        hslf_case(&mut r2, [0.0, 1.0, 0.083333336]);
        hue_wrap_case(&mut r2, 1.0, 0.083333336);
        match r2.violations.values().next() {
            None => Ok(()),
            Some(v) => Err(v.firsts[0].detail.clone()),
        }
    });

    rep.pin("F17.dark_gray_saturation", {
        let mut r2 = Report::new();
        rgbf_case(&mut r2, [1e-10, 1e-10, 1e-10]);
        rgbf_case(&mut r2, [3.9655365e-25, 3.9655365e-25, 3.9655365e-25]);
        rgbf_case(&mut r2, [1e-45, 1e-45, 1e-45]);
        match r2.violations.values().next() {
            None => Ok(()),
            Some(v) => Err(v.firsts[0].detail.clone()),
        }
    });

    rep.pin("F16.u8_add_overflow", {
        let c: Color4 = rgba(1, 254, 128, 7);
        let diff: Vector<[i32; 4], re::math::color::Rgba> = Vector::new([i32::MAX, -i32::MAX, 0, 0]);
        match catch(|| c.add(&diff).0) {
            Ok([255, 0, 128, 7]) => Ok(()),
            other => Err(format!("rgba(1,254,128,7) + (i32::MAX, -i32::MAX, 0, 0) = {other:?}, expected saturation to [255, 0, 128, 7]")),
        }
    });

    // Stream 0: all 2^24 RGB (chunks of 256 per case)
    rep.run_stream(cfg, 0, "u8_rgb_exhaustive", 1 << 16, |_rng, i, rep| {
        let (r, g) = ((i >> 8) as u8, i as u8);
        for b in 0..=255u8 {
            rgb8_case(rep, r, g, b);
        }
        rep.evaluations += 255;
        rep.case(i, true);
        if i == 0x1234 {
            rep.sample(|| Json::obj().set("rgb8_block", format!("r={r} g={g} b=0..255")));
        }
    });
    rep.exhaustive.push("all 2^24 8-bit RGB triples: to_hsl().to_rgb() within 8/255, grays achromatic".into());
    rep.run_stream(cfg, 1, "u8_hsl_exhaustive", 1 << 16, |_rng, i, rep| {
        let (h, s) = ((i >> 8) as u8, i as u8);
        for l in 0..=255u8 {
            hsl8_case(rep, h, s, l);
        }
        rep.evaluations += 255;
        rep.case(i | 1 << 40, true);
    });
    rep.exhaustive.push("all 2^24 8-bit HSL triples: to_rgb() total (debug assertions on in the chk profile)".into());
    rep.add("u8_conversions", 2 << 24);

    // Stream 2: float grid incl. sextant boundaries
    let n: u64 = if cfg.quick() { 65 } else { 129 };
    let mut hues: Vec<f32> = (0..=n).map(|k| k as f32 / n as f32).collect();
    for k in 0..=6 {
        let h = k as f32 / 6.0;
        hues.extend([crate::next_down(h).max(0.0), h.min(1.0), crate::next_up(h).min(1.0)]);
        let h12 = (2 * k + 1) as f32 / 12.0;
        if h12 <= 1.0 {
            hues.extend([crate::next_down(h12), h12, crate::next_up(h12)]);
        }
    }
    let nh = hues.len() as u64;
    rep.run_stream(cfg, 2, "f32_grid", nh * (n + 1), |_rng, i, rep| {
        let h = hues[(i % nh) as usize];
        let s = (i / nh) as f32 / n as f32;
        for k in 0..=n {
            let l = k as f32 / n as f32;
            hslf_case(rep, [h, s, l]);
            // the same lattice point read as RGB
            rgbf_case(rep, [h, s, l]);
            let mut hs = Hasher::new();
            hs.f32(h).f32(s).f32(l);
            rep.case(hs.get(), true);
        }
        if k_is_zero(i) {
            hue_wrap_case(rep, s, h);
        }
        rep.add("f32_conversions", 2 * (n + 1));
    });
    rep.exhaustive.push(format!("float lattice {}×{}×{} incl. every hue sextant boundary and mid-sextant ±1 ulp, as HSL and as RGB", nh, n + 1, n + 1));
    // Stream 3: random floats
    rep.run_stream(cfg, 3, "f32_random", cfg.n(1_000_000, 100_000_000), |rng, i, rep| {
        let c = [rng.f32_in(0.0, 1.0), rng.f32_in(0.0, 1.0), rng.f32_in(0.0, 1.0)];
        let c = match rng.below(8) {
            0 => [c[0], c[0], c[0]],                         // gray
            1 => [c[0], c[1], c[1]],                         // two equal channels
            2 => [1.0, c[1], c[2]],
            3 => [c[0], 0.0, c[2]],
            4 => [rng.ulp_nudge(c[1]).clamp(0.0, 1.0), c[1], c[2]], // nearly equal
            // near-grays at ordinary magnitudes: a gray plus a chroma of
            // 1e-7..1e-2 in every direction (an "achromatic below ε" shortcut
            // with ε > 1e-4 breaks the stated RGB→HSL→RGB bound here)
            5 => {
                let e = rng.log_f32(1e-7, 1e-2);
                let g = c[0];
                rep.count("f32_random.near_gray");
                [(g + e * (c[1] - 0.5)).clamp(0.0, 1.0), (g + e * (c[2] - 0.5)).clamp(0.0, 1.0), (g + e * (rng.f32_in(0.0, 1.0) - 0.5)).clamp(0.0, 1.0)]
            }
            _ => c,
        };
        let mut hs = Hasher::new();
        hs.f32s(&c);
        rep.case(hs.get(), !(c[0] == c[1] && c[1] == c[2]));
        rgbf_case(rep, c);
        hslf_case(rep, c);
        hue_wrap_case(rep, c[1], c[2]);
        let w = rng.u32();
        alpha_case(rep, w.to_be_bytes(), [c[0], c[1], c[2], rng.f32_in(0.0, 1.0)]);
        rep.add("f32_conversions", 4);
        if i < 2 {
            rep.sample(|| Json::obj().set("triple", f32v(&c)));
        }
    });
    // Stream 4: packing
    let (blocks, per) = if cfg.quick() { (1u64 << 12, 1u64 << 12) } else { (1 << 20, 1 << 12) };
    let full = !cfg.quick();
    // Stream 9: every magnitude of [0,1], not only its bulk: zero, subnormal,
    // log-uniform tiny, ordinary, within a few ulps of 1, exactly 1
    rep.run_stream(cfg, 9, "f32_magnitudes", cfg.n(600_000, 60_000_000), |rng, _, rep| {
        let mut ch = |rng: &mut Rng| -> f32 {
            match rng.below(8) {
                0 => if rng.bool() { 0.0 } else { -0.0 },
                1 => f32::from_bits(1 + rng.below(0x7f_ffff) as u32), // subnormal
                2 | 3 => rng.log_f32(1e-38, 1.0),
                4 => 1.0 - rng.log_f32(6e-8, 1e-2),
                5 => 1.0,
                6 => f32::from_bits(0x3f80_0000 - 1 - rng.below(4) as u32),
                _ => rng.f32_in(0.0, 1.0),
            }
        };
        let c = [ch(rng), ch(rng), ch(rng)];
        let c = match rng.below(8) {
            0 => [c[0], c[0], c[0]],
            1 => [c[0], c[1], c[1]],
            2 => [c[0], c[0], c[2]],
            3 => [c[0], c[1], c[0]],
            4 | 5 => {
                // one channel an ulp away from another (any pair): the hue
                // branches r~g, g~b, r~b at every magnitude
                let (i, j) = [(0, 1), (1, 0), (1, 2), (2, 1), (0, 2), (2, 0)][rng.usize(6)];
                let mut d = c;
                d[i] = rng.ulp_nudge(c[j]).clamp(0.0, 1.0);
                d
            }
            _ => c,
        };
        let mut hs = Hasher::new();
        hs.f32s(&c);
        rep.case(hs.get(), !(c[0] == c[1] && c[1] == c[2]));
        if c[0] == c[1] && c[1] == c[2] {
            rep.count("f32_magnitudes.grays");
            if c[0] < 1e-6 && c[0] > 0.0 {
                rep.count("f32_magnitudes.grays_darker_than_1e-6");
            }
        }
        rgbf_case(rep, c);
        hslf_case(rep, c);
        rep.add("f32_conversions", 2);
    });

    rep.run_stream(cfg, 4, "packing", blocks, |rng, i, rep| {
        for k in 0..per {
            let w = if full { ((i << 12) | k) as u32 } else { (rng.u64() as u32 & 0xFFFF_F000) ^ (((i << 12) | k) as u32).rotate_left(9) };
            if !pack_case(rep, w) {
                break;
            }
        }
        rep.evaluations += per - 1;
        rep.case(i | 2 << 40, true);
        rep.add("packing_words", per);
    });
    if full {
        rep.exhaustive.push("all 2^32 RGBA words: to_rgba_u32 / to_argb_u32 / to_rgb_u32 byte order, to_rgba / to_rgb".into());
    }
    // Stream 5: clamping
    rep.run_stream(cfg, 5, "float_to_u8", cfg.n(300_000, 30_000_000), |rng, _, rep| {
        let mut c = |rng: &mut Rng| match rng.below(10) {
            0 => f32::NAN,
            1 => f32::INFINITY,
            2 => f32::NEG_INFINITY,
            3 => rng.f32_in(-5.0, 0.0),
            4 => rng.f32_in(1.0, 5.0),
            5 => rng.pick(&[0.0f32, 1.0, -0.0, 0.5, 1.0 / 255.0, 254.5 / 255.0]),
            6 => rng.any_f32(),
            _ => rng.f32_in(0.0, 1.0),
        };
        let v = [c(rng), c(rng), c(rng), c(rng)];
        let mut hs = Hasher::new();
        hs.f32s(&v);
        rep.case(hs.get(), true);
        clamp_case(rep, v);
    });
    // Stream 6: saturating add, all 256×511 pairs
    rep.run_stream(cfg, 6, "u8_saturating_add", 256, |_rng, i, rep| {
        let ch = i as u8;
        for d in -255i32..=255 {
            let c: Color4 = rgba(ch, 255 - ch, ch / 2, 7);
            let diff: Vector<[i32; 4], re::math::color::Rgba> = Vector::new([d, -d, d / 2, 0]);
            let got = c.add(&diff).0;
            let exp = [(ch as i32 + d).clamp(0, 255) as u8, ((255 - ch) as i32 - d).clamp(0, 255) as u8, ((ch / 2) as i32 + d / 2).clamp(0, 255) as u8, 7];
            if got != exp {
                rep.violation("color.u8_add_not_saturating", format!("rgba({ch},{},{},7) + ({d},{},{},0) = {got:?}, expected saturation to {exp:?}", 255 - ch, ch / 2, -d, d / 2), Json::obj().set("channel", ch as u32).set("delta", d));
                break;
            }
        }
        // differences far beyond ±255 (scaled or extrapolated differences
        // are legitimate arguments): still saturates, never wraps
        for d in [256i32, -256, 32767, -32768, 32768, -32769, 40000, -40000, 65535, 65536, -65536, 65537, 1 << 24, -(1 << 24), i32::MAX - 255, i32::MIN + 255, i32::MAX, i32::MIN] {
            let c: Color4 = rgba(ch, 255 - ch, 128, 7);
            let diff: Vector<[i32; 4], re::math::color::Rgba> = Vector::new([d, d.checked_neg().unwrap_or(i32::MAX), d / 3, 0]);
            let sat = |c: u8, d: i32| (c as i64 + d as i64).clamp(0, 255) as u8;
            let exp = [sat(ch, d), sat(255 - ch, d.checked_neg().unwrap_or(i32::MAX)), sat(128, d / 3), 7];
            match catch(|| c.add(&diff).0) {
                Ok(got) if got == exp => {}
                other => {
                    rep.violation("color.u8_add_not_saturating", format!("rgba({ch},{},128,7) + ({d},{},{},0) = {other:?}, expected saturation to {exp:?}", 255 - ch, d.checked_neg().unwrap_or(i32::MAX), d / 3), Json::obj().set("channel", ch as u32).set("delta", d));
                    break;
                }
            }
            rep.add("saturating_add_large_deltas", 1);
        }
        // the three-channel colours and the HSL space go through the same
        // generic impl with DIM = 3: exercised as well
        for d in (-255i32..=255).chain([256, -256, 32768, -32769, 65536, i32::MAX, i32::MIN]) {
            let sat = |c: u8, d: i32| (c as i64 + d as i64).clamp(0, 255) as u8;
            let nd = d.checked_neg().unwrap_or(i32::MAX);
            let exp = [sat(ch, d), sat(255 - ch, nd), sat(128, d / 3)];
            let c3: Color3 = rgb(ch, 255 - ch, 128);
            let d3: Vector<[i32; 3], re::math::color::Rgb> = Vector::new([d, nd, d / 3]);
            let h3: Color3<Hsl> = hsl(ch, 255 - ch, 128);
            let dh: Vector<[i32; 3], Hsl> = Vector::new([d, nd, d / 3]);
            let r = catch(|| (c3.add(&d3).0, h3.add(&dh).0));
            match r {
                Ok((a, b)) if a == exp && b == exp => {}
                other => {
                    rep.violation("color.u8_add_not_saturating", format!("rgb/hsl({ch},{},128) + ({d},{nd},{}) = {other:?}, expected saturation to {exp:?}", 255 - ch, d / 3), Json::obj().set("channel", ch as u32).set("delta", d).set("type", "Color3<Rgb> / Color3<Hsl>"));
                    break;
                }
            }
            rep.add("saturating_add_three_channel", 1);
        }
        rep.evaluations += 510;
        rep.case(i | 3 << 40, true);
        rep.add("saturating_add_pairs", 511);
    });
    rep.exhaustive.push("8-bit Affine::add over all 256 × 511 (channel, delta) pairs, plus 18 large deltas up to i32::MIN/MAX per channel value".into());
    rep.floor("f32_conversions", 1_000_000);
    rep.floor("alpha_path_checks", 500_000);
    rep.floor("packing_words", 1 << 24);
    rep.floor("saturating_add_pairs", 256 * 511);
    rep.floor("saturating_add_three_channel", 256 * 511);
    rep.floor("f32_magnitudes.grays_darker_than_1e-6", 10_000);
    rep.floor("f32_hsl_rgb_hsl_compositions_judged", 200_000);
    let _ = hsla(0u8, 0, 0, 0);
}

fn k_is_zero(i: u64) -> bool {
    i % 7 == 0
}
