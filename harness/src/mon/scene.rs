//! Shared scene/canvas plumbing for the rendering monitors (C01, C02, C06,
//! C07, C08): builds targets of every kind over sentinel-filled buffers and
//! calls the real `render()`.

use super::attr::Attr;
use crate::catch;
use re::geom::{vertex, Tri, Vertex};
use re::math::color::{rgba, Color4};
use re::math::mat::Mat4x4;
use re::math::point::Point3;
use re::render::clip::ClipVec;
use re::render::raster::Frag;
use re::render::shader::Shader;
use re::render::target::Framebuf;
use re::render::{render, Context, NdcToScreen, View, ViewToProj};
use re::util::buf::Buf2;

/// Packs an f32 bit pattern into the colour word so that the u32 read back
/// from the colour buffer (`to_argb_u32`) is exactly `bits`.
#[inline]
pub fn pack(bits: u32) -> Color4 {
    let b = bits.to_be_bytes();
    rgba(b[1], b[2], b[3], b[0])
}

#[derive(Clone, Copy, Debug, PartialEq)]
pub enum Tk {
    /// Framebuf of two owned Buf2.
    FbOwned,
    /// Framebuf of two MutSlice2 windows into larger buffers.
    FbWindow,
    /// Colour-only owned Buf2<u32>.
    ColOwned,
    /// Colour-only MutSlice2<u32> window.
    ColWindow,
}

impl Tk {
    pub fn has_depth(self) -> bool {
        matches!(self, Tk::FbOwned | Tk::FbWindow)
    }
    pub fn is_window(self) -> bool {
        matches!(self, Tk::FbWindow | Tk::ColWindow)
    }
    pub fn name(self) -> &'static str {
        match self {
            Tk::FbOwned => "Framebuf<Buf2,Buf2>",
            Tk::FbWindow => "Framebuf<MutSlice2,MutSlice2>",
            Tk::ColOwned => "Buf2<u32>",
            Tk::ColWindow => "MutSlice2<u32>",
        }
    }
}

/// Parent buffers plus the window (in parent coordinates) the target covers.
/// For owned targets the window is the whole buffer.
#[derive(Clone)]
pub struct Canvas {
    pub col: Buf2<u32>,
    pub dep: Buf2<f32>,
    pub win: (u32, u32, u32, u32), // ox, oy, w, h
}

impl Canvas {
    pub fn new(bw: u32, bh: u32, win: (u32, u32, u32, u32), col: impl FnMut(u32, u32) -> u32, dep: impl FnMut(u32, u32) -> f32) -> Self {
        Canvas { col: Buf2::new_with((bw, bh), col), dep: Buf2::new_with((bw, bh), dep), win }
    }
    pub fn dims(&self) -> (u32, u32) {
        (self.col.width(), self.col.height())
    }
}

pub struct ClipScene<A> {
    pub verts: Vec<([f32; 4], A)>,
    pub tris: Vec<[usize; 3]>,
}

thread_local! {
    /// When set, render_clip goes through `Batch::render` instead of the free
    /// function `render` (same inputs; the two must be indistinguishable).
    static BATCH_DOOR: std::cell::Cell<bool> = const { std::cell::Cell::new(false) };
}

/// Selects the entry point render_clip uses on this thread; returns the
/// previous choice.
pub fn set_batch_door(on: bool) -> bool {
    BATCH_DOOR.with(|d| d.replace(on))
}

/// Renders a clip-space scene with a pass-through vertex shader.
pub fn render_clip<A, F>(sc: &ClipScene<A>, tris: &[[usize; 3]], frag: F, ctx: &Context, to_screen: Mat4x4<NdcToScreen>, cv: &mut Canvas, tk: Tk) -> Result<(), String>
where
    A: Attr,
    F: Fn(Frag<A>) -> Option<Color4>,
{
    let verts: Vec<Vertex<ClipVec, A>> = sc.verts.iter().map(|(p, a)| vertex(ClipVec::from(*p), a.clone())).collect();
    let tris: Vec<Tri<usize>> = tris.iter().map(|t| Tri(*t)).collect();
    let shader = Shader::new(|v: Vertex<ClipVec, A>, _: ()| v, frag);
    let (ox, oy, w, h) = cv.win;
    if BATCH_DOOR.with(|d| d.get()) {
        use re::render::batch::Batch;
        return catch(|| match tk {
            Tk::FbOwned => {
                let mut fb = Framebuf { color_buf: &mut cv.col, depth_buf: &mut cv.dep };
                Batch::new().faces(&tris).vertices(&verts).uniform(()).shader(shader).viewport(to_screen).target(&mut fb).context(ctx).render();
            }
            Tk::FbWindow => {
                let mut fb = Framebuf {
                    color_buf: cv.col.slice_mut((ox..ox + w, oy..oy + h)),
                    depth_buf: cv.dep.slice_mut((ox..ox + w, oy..oy + h)),
                };
                Batch::new().faces(&tris).vertices(&verts).uniform(()).shader(shader).viewport(to_screen).target(&mut fb).context(ctx).render();
            }
            Tk::ColOwned => {
                Batch::new().faces(&tris).vertices(&verts).uniform(()).shader(shader).viewport(to_screen).target(&mut cv.col).context(ctx).render();
            }
            Tk::ColWindow => {
                let mut t = cv.col.slice_mut((ox..ox + w, oy..oy + h));
                Batch::new().faces(&tris).vertices(&verts).uniform(()).shader(shader).viewport(to_screen).target(&mut t).context(ctx).render();
            }
        });
    }
    catch(|| match tk {
        Tk::FbOwned => {
            let mut fb = Framebuf { color_buf: &mut cv.col, depth_buf: &mut cv.dep };
            render(&tris, &verts, &shader, (), to_screen, &mut fb, ctx);
        }
        Tk::FbWindow => {
            let mut fb = Framebuf {
                color_buf: cv.col.slice_mut((ox..ox + w, oy..oy + h)),
                depth_buf: cv.dep.slice_mut((ox..ox + w, oy..oy + h)),
            };
            render(&tris, &verts, &shader, (), to_screen, &mut fb, ctx);
        }
        Tk::ColOwned => {
            render(&tris, &verts, &shader, (), to_screen, &mut cv.col, ctx);
        }
        Tk::ColWindow => {
            let mut t = cv.col.slice_mut((ox..ox + w, oy..oy + h));
            render(&tris, &verts, &shader, (), to_screen, &mut t, ctx);
        }
    })
}

/// Renders a view-space scene through a library projection matrix.
pub fn render_view<A, F>(
    verts: &[([f32; 3], A)],
    tris: &[[usize; 3]],
    proj: &Mat4x4<ViewToProj>,
    frag: F,
    ctx: &Context,
    to_screen: Mat4x4<NdcToScreen>,
    cv: &mut Canvas,
    tk: Tk,
) -> Result<(), String>
where
    A: Attr,
    F: Fn(Frag<A>) -> Option<Color4>,
{
    let verts: Vec<Vertex<Point3<View>, A>> = verts.iter().map(|(p, a)| vertex(Point3::new(*p), a.clone())).collect();
    let tris: Vec<Tri<usize>> = tris.iter().map(|t| Tri(*t)).collect();
    let shader = Shader::new(|v: Vertex<Point3<View>, A>, m: &Mat4x4<ViewToProj>| vertex(m.apply(&v.pos), v.attrib), frag);
    let (ox, oy, w, h) = cv.win;
    catch(|| match tk {
        Tk::FbOwned => {
            let mut fb = Framebuf { color_buf: &mut cv.col, depth_buf: &mut cv.dep };
            render(&tris, &verts, &shader, proj, to_screen, &mut fb, ctx);
        }
        Tk::FbWindow => {
            let mut fb = Framebuf {
                color_buf: cv.col.slice_mut((ox..ox + w, oy..oy + h)),
                depth_buf: cv.dep.slice_mut((ox..ox + w, oy..oy + h)),
            };
            render(&tris, &verts, &shader, proj, to_screen, &mut fb, ctx);
        }
        Tk::ColOwned => {
            render(&tris, &verts, &shader, proj, to_screen, &mut cv.col, ctx);
        }
        Tk::ColWindow => {
            let mut t = cv.col.slice_mut((ox..ox + w, oy..oy + h));
            render(&tris, &verts, &shader, proj, to_screen, &mut t, ctx);
        }
    })
}
