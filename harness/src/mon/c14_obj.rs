//! C14 — OBJ parsing is total and faithful.
//!
//! Events: Result<Builder<()>> or panic of parse_obj/read_obj; build().
//! Oracles: totality — no panic, and on Ok every face index < verts.len()
//! and build() succeeds; faithfulness — the generator keeps the mesh it
//! printed (positions whose f32 value is known a priori, faces zero-based)
//! and the parsed builder must equal it exactly, whatever the layout.

use super::iofault::{scratch_path, Chunky};
use super::mutate::{mutate, show};
use crate::{catch, Cfg, Hasher, Json, Report, Rng};
use re_geom::io::{load_obj, parse_obj, read_obj};

type Parsed = (Vec<[f32; 3]>, Vec<[usize; 3]>);

fn parse_both(rep: &mut Report, bytes: &[u8], what: &str) -> Option<Result<Parsed, String>> {
    let cj = || Json::obj().set("what", what).set("input", show(bytes)).set("input_len", bytes.len());
    let mut hs = Hasher::new();
    hs.bytes(bytes);
    let seed = hs.get();
    // which: 0 parse_obj, 1 read_obj from a slice, 2 read_obj from a reader
    // delivering 1..7-byte chunks with injected EINTR, 3 load_obj from a file
    let run = |which: u8| {
        let b = bytes.to_vec();
        catch(move || {
            let r = match which {
                0 => parse_obj(b),
                1 => read_obj(&b[..]),
                2 => read_obj(Chunky::new(&b, seed, None)),
                _ => {
                    let path = scratch_path("in.obj");
                    if std::fs::write(&path, &b).is_err() {
                        // environment problem, not the library's: fall back
                        parse_obj(b)
                    } else {
                        let r = load_obj(&path);
                        let _ = std::fs::remove_file(&path);
                        r
                    }
                }
            };
            r.map(|bld| {
                let faces_ok = bld.mesh.faces.iter().all(|t| t.0.iter().all(|&i| i < bld.mesh.verts.len()));
                let m = bld.build();
                (m.verts.iter().map(|v| v.pos.0).collect::<Vec<_>>(), m.faces.iter().map(|t| t.0).collect::<Vec<_>>(), faces_ok)
            })
            .map_err(|e| format!("{e}"))
        })
    };
    // a reader that fails for good mid-stream must not make the parser panic,
    // and an Ok builder must still build
    if !bytes.is_empty() {
        let k = (seed >> 20) as usize % bytes.len();
        let b = bytes.to_vec();
        let r = catch(move || read_obj(Chunky::new(&b, seed ^ 0x5555, Some(k))).map(|bld| bld.build().faces.len()).is_ok());
        rep.count("reader_faults.hard_failure_midstream");
        if let Err(m) = r {
            rep.violation("obj.parse_panicked", format!("read_obj (or build()) panicked when the reader failed at offset {k}: {m}"), cj().set("reader_fails_at", k));
            return None;
        }
    }
    // the third path alternates between the chunked reader and a real file
    let third = if seed % 8 == 0 { 3 } else { 2 };
    rep.count(if third == 3 { "reader_faults.load_obj_from_file" } else { "reader_faults.short_reads_with_eintr" });
    match (run(0), run(1), run(third)) {
        (Err(m), _, _) | (_, Err(m), _) | (_, _, Err(m)) => {
            rep.violation("obj.parse_panicked", format!("parsing (or build()) panicked: {m}"), cj());
            None
        }
        (Ok(a), Ok(b), Ok(c)) => {
            let eq = |a: &Result<(Vec<[f32; 3]>, Vec<[usize; 3]>, bool), String>, b: &Result<(Vec<[f32; 3]>, Vec<[usize; 3]>, bool), String>| match (a, b) {
                (Ok(x), Ok(y)) => x.0.iter().map(|p| p.map(f32::to_bits)).eq(y.0.iter().map(|p| p.map(f32::to_bits))) && x.1 == y.1,
                (Err(_), Err(_)) => true,
                _ => false,
            };
            if !eq(&a, &b) {
                rep.violation("obj.parse_vs_read_differ", "parse_obj and read_obj disagree on the same bytes".into(), cj());
                return None;
            }
            if !eq(&a, &c) {
                rep.violation("obj.parse_vs_read_differ", format!("{} disagrees with parse_obj on the same bytes", if third == 3 { "load_obj from a file" } else { "read_obj from a reader delivering short chunks with EINTR" }), cj());
                return None;
            }
            match a {
                Ok((v, f, ok)) => {
                    if !ok {
                        rep.violation("obj.face_index_out_of_range", "Ok(builder) contains a face index ≥ the number of vertices".into(), cj());
                        return None;
                    }
                    Some(Ok((v, f)))
                }
                Err(e) => Some(Err(e)),
            }
        }
    }
}

/// A coordinate literal together with the f32 it denotes (known a priori).
fn coord(rng: &mut Rng) -> (String, f32) {
    match rng.below(8) {
        6 => {
            // Long decimals right next to the midpoint of two adjacent f32
            // values (what an exporter printing doubles produces): the
            // correctly rounded f32 is known by construction. Parsing through
            // f64 first (double rounding) gets the wrong neighbour.
            let lo = rng.log_f32(1e-3, 1e4);
            let hi = f32::from_bits(lo.to_bits() + 1);
            let m = (lo as f64 + hi as f64) / 2.0; // exact
            if rng.chance(1, 2) {
                // strictly between the midpoint and its f64 neighbours: the
                // exact (finite) expansion of m with one more digit appended,
                // or with its final 5 replaced by 4999. An f64 cannot tell
                // these from m itself.
                let exact = format!("{m:.70}");
                let exact = exact.trim_end_matches('0');
                let neg = rng.bool();
                let (body, exp) = if rng.bool() || !exact.ends_with('5') {
                    (format!("{exact}{}", rng.pick(b"139") as char), hi)
                } else {
                    (format!("{}4999", &exact[..exact.len() - 1]), lo)
                };
                return (if neg { format!("-{body}") } else { body }, if neg { -exp } else { exp });
            }
            let side = rng.below(3);
            let (x, exp) = match side {
                0 => (f64::from_bits(m.to_bits() + 1), hi),
                1 => (f64::from_bits(m.to_bits() - 1), lo),
                // the tie itself goes to the even mantissa
                _ => (m, if lo.to_bits() & 1 == 0 { lo } else { hi }),
            };
            let neg = rng.bool();
            // The shortest string that reads back as x lies within half an
            // f64 ulp of x, hence on the same side of m as x = m ± 1 ulp; for
            // the tie itself only the exact expansion denotes the tie.
            let body = match if side == 2 { 0 } else { rng.below(3) } {
                0 => format!("{x:.70}"), // exact expansion, zero padded
                1 => format!("{x:e}"),
                _ => format!("{x}"),
            };
            (if neg { format!("-{body}") } else { body }, if neg { -exp } else { exp })
        }
        7 => {
            // the exact decimal expansion of an f32, all digits written out
            let v = rng.log_f32(1e-4, 1e5) * if rng.bool() { -1.0 } else { 1.0 };
            (format!("{:.40}", v as f64), v)
        }
        0 => {
            // dyadic rational: exact decimal expansion, value known exactly
            let k = rng.int(-4096, 4096);
            let m = rng.below(8) as i32;
            let v = k as f64 / (1u32 << m) as f64;
            (format!("{v}"), v as f32)
        }
        1 => {
            // exponent notation of a dyadic
            let k = rng.int(-999, 999);
            let e = rng.int(-3, 6) as i32;
            // k·10^e with e ≥ 0 is an integer; with e < 0 use k/2^j instead
            if e >= 0 {
                let v = k as f64 * 10f64.powi(e);
                (format!("{k}{}{e}", if rng.bool() { "e" } else { "E" }), v as f32)
            } else {
                let v = k as f64 / 8.0;
                (format!("{:e}", v), v as f32)
            }
        }
        2 => {
            let v = rng.any_f32();
            let v = if v.is_finite() { v } else { 1.5 };
            // Display of f32 is the shortest string that round-trips
            (format!("{v}"), v)
        }
        3 => {
            let v = rng.f32_in(-100.0, 100.0);
            (format!("{v:e}"), v)
        }
        4 => {
            let k = rng.int(-50, 50);
            (format!("{k}"), k as f32)
        }
        _ => {
            let k = rng.int(-50, 50);
            (format!("{k}.0"), k as f32)
        }
    }
}

fn ws(rng: &mut Rng, s: &mut String) {
    let n = 1 + rng.below(3);
    for _ in 0..n {
        s.push(rng.pick(&[' ', ' ', '\t']));
    }
}

fn wellformed_case(rng: &mut Rng, rep: &mut Report, idx: u64) {
    let nv = rng.below(if idx % 5 == 0 { 200 } else { 24 }) as usize;
    let nf = if nv == 0 { 0 } else { rng.below(40) as usize };
    let nt = rng.below(6) as usize;
    let nn = rng.below(6) as usize;
    let mut verts: Vec<[f32; 3]> = vec![];
    let mut vlines: Vec<String> = vec![];
    for _ in 0..nv {
        let (a, b, c) = (coord(rng), coord(rng), coord(rng));
        verts.push([a.1, b.1, c.1]);
        let mut l = String::new();
        if rng.chance(1, 4) {
            ws(rng, &mut l);
        }
        l.push('v');
        for t in [a.0, b.0, c.0] {
            ws(rng, &mut l);
            l.push_str(&t);
        }
        if rng.chance(1, 4) {
            ws(rng, &mut l);
        }
        vlines.push(l);
    }
    let mut faces: Vec<[usize; 3]> = vec![];
    let mut flines: Vec<String> = vec![];
    for _ in 0..nf {
        let f = [rng.usize(nv), rng.usize(nv), rng.usize(nv)];
        faces.push(f);
        // index form: v, v/vt, v//vn, v/vt/vn (only forms whose extra indices exist)
        let form = match (nt > 0, nn > 0) {
            (true, true) => rng.below(4),
            (true, false) => rng.below(2),
            (false, true) => rng.pick(&[0, 2]),
            _ => 0,
        };
        let mut l = String::new();
        if rng.chance(1, 4) {
            ws(rng, &mut l);
        }
        l.push('f');
        for i in f {
            ws(rng, &mut l);
            match form {
                0 => l.push_str(&format!("{}", i + 1)),
                1 => l.push_str(&format!("{}/{}", i + 1, 1 + rng.usize(nt))),
                2 => l.push_str(&format!("{}//{}", i + 1, 1 + rng.usize(nn))),
                _ => l.push_str(&format!("{}/{}/{}", i + 1, 1 + rng.usize(nt), 1 + rng.usize(nn))),
            }
        }
        flines.push(l);
    }
    let mut other: Vec<String> = vec![];
    for _ in 0..nt {
        other.push(format!("vt {} {}", coord(rng).0, coord(rng).0));
    }
    for _ in 0..nn {
        other.push(format!("vn {} {} {}", coord(rng).0, coord(rng).0, coord(rng).0));
    }
    // layout: faces before / after / interleaved with their vertices
    let layout = rng.below(3);
    let mut lines: Vec<String> = vec![];
    match layout {
        0 => {
            lines.extend(vlines);
            lines.extend(other);
            lines.extend(flines);
        }
        1 => {
            lines.extend(flines);
            lines.extend(other);
            lines.extend(vlines);
        }
        _ => {
            // interleave, keeping the relative order within each kind
            let mut qs = [vlines.into_iter().peekable(), flines.into_iter().peekable(), other.into_iter().peekable()];
            loop {
                let alive: Vec<usize> = (0..3).filter(|&k| qs[k].peek().is_some()).collect();
                if alive.is_empty() {
                    break;
                }
                let k = alive[rng.usize(alive.len())];
                lines.push(qs[k].next().unwrap());
            }
        }
    }
    // sprinkle blank lines and comments
    let mut text = String::new();
    let crlf = rng.chance(1, 3);
    let long_lines = rng.chance(1, 6);
    if long_lines {
        rep.count("layout.very_long_lines");
    }
    for l in lines {
        while rng.chance(1, 6) {
            match rng.below(3) {
                0 => {}
                1 => text.push_str("# a comment v 1 2 3 f 9 9 9"),
                _ => text.push_str("   #indented comment"),
            }
            text.push_str(if crlf { "\r\n" } else { "\n" });
        }
        if long_lines && rng.chance(1, 3) {
            // lines of several thousand characters: long comments whose
            // tail looks like data, deep indentation, wide padding
            let n = rng.pick(&[300usize, 1020, 1024, 1025, 2048, 5000]);
            match rng.below(3) {
                0 => {
                    text.push('#');
                    for i in 0..n / 8 {
                        text.push_str(if i % 2 == 0 { " v 9 9 9" } else { " f 1 1 1" });
                    }
                    text.push_str(if crlf { "\r\n" } else { "\n" });
                }
                1 => {
                    for _ in 0..n {
                        text.push(' ');
                    }
                }
                _ => {
                    // padding between the fields of this very line
                    let pad: String = std::iter::repeat(' ').take(n).collect();
                    let padded = l.replacen(' ', &pad, 1);
                    text.push_str(&padded);
                    text.push_str(if crlf { "\r\n" } else { "\n" });
                    continue;
                }
            }
        }
        text.push_str(&l);
        text.push_str(if crlf { "\r\n" } else { "\n" });
    }
    if rng.chance(1, 5) && text.ends_with('\n') {
        text.pop(); // no trailing newline
        if crlf {
            text.pop();
        }
    }
    let bytes = text.into_bytes();
    let mut hs = Hasher::new();
    hs.bytes(&bytes);
    rep.case(hs.get(), nv > 0);
    rep.count(["layout.verts_first", "layout.faces_first", "layout.interleaved"][layout as usize]);
    if idx < 2 {
        rep.sample(|| Json::obj().set("input", show(&bytes)));
    }
    let cj = || Json::obj().set("input", show(&bytes)).set("verts", nv).set("faces", nf);
    match parse_both(rep, &bytes, "well-formed OBJ text") {
        None => {}
        Some(Err(e)) => rep.violation("obj.wellformed_rejected", format!("well-formed OBJ rejected: {e}"), cj()),
        Some(Ok((gv, gf))) => {
            if gv.len() != verts.len() || gv.iter().zip(&verts).any(|(a, b)| a.map(f32::to_bits) != b.map(f32::to_bits)) {
                let i = gv.iter().zip(&verts).position(|(a, b)| a.map(f32::to_bits) != b.map(f32::to_bits));
                rep.violation(
                    "obj.vertices_differ",
                    format!("parsed {} vertices, file lists {}; first difference at {:?}: parsed {:?}, written {:?}", gv.len(), verts.len(), i, i.map(|i| gv[i]), i.map(|i| verts[i])),
                    cj(),
                );
            } else if gf != faces {
                let i = gf.iter().zip(&faces).position(|(a, b)| a != b);
                rep.violation("obj.faces_differ", format!("parsed {} faces, file lists {}; first difference at {:?}: parsed {:?}, written (zero-based) {:?}", gf.len(), faces.len(), i, i.map(|i| gf[i]), i.map(|i| faces[i])), cj());
            } else {
                rep.add("faithful.vertices_compared", nv as u64);
                rep.add("faithful.faces_compared", nf as u64);
            }
        }
    }
}

const DICT: &[&[u8]] = &[
    b"0", b"1", b"2", b"3", b"-1", b"-2", b"4294967296", b"18446744073709551615", b"18446744073709551616", b"99999999999999999999999", b"/", b"//", b"1/", b"/1", b"1//", b"0/0/0", b"1/1/1", b"f", b"v", b"vt", b"vn", b"#", b"\n", b"\r\n", b" ", b"1e400", b"nan", b"inf", b"-inf", b"\xff", b"\xc3\xa9", b"g", b"o", b"1.5", b"+1", b"f 1 2 3\n", b"v 0 0 0\n",
];

const SEEDS: &[&[u8]] = &[
    b"v 0 0 0\nv 1 0 0\nv 0 1 0\nf 1 2 3\n",
    b"# c\nvt 0 0\nvn 0 0 1\nv 1e0 2.5 -3\nf 1/1/1 1/1/1 1/1/1\n",
    b"f 1//1 2//1 3//1\nv 0 0 0\nv 1 1 1\nv 2 2 2\nvn 1 0 0\n",
    b"  v 1 2 3 \r\n\r\nf 1/1 1/1 1/1\nvt 0.5 0.5\n",
    b"f 1 2 3\n",
    b"v 0 0 0\nf 0 1 2\n",
    b"v 0 0 0\nvt 0 0\nf 1/0 1/1 1/1\n",
    b"",
    b"v 1 2\n",
    b"f 1 2\nv 0 0 0\n",
];

fn totality_case(rng: &mut Rng, rep: &mut Report, idx: u64) {
    let bytes: Vec<u8> = match rng.below(10) {
        0 => {
            let n = rng.below(64) as usize;
            (0..n).map(|_| rng.u64() as u8).collect()
        }
        1 => {
            // faces with hostile indices, with / without vertices
            let mut o = vec![];
            let nv = rng.below(4);
            for _ in 0..nv {
                o.extend(b"v 0 1 2\n");
            }
            o.extend(b"f");
            for _ in 0..3 {
                o.push(b' ');
                o.extend(DICT[rng.usize(17)]);
            }
            o.push(b'\n');
            o
        }
        2 => {
            let s = SEEDS[rng.usize(SEEDS.len())];
            s[..(idx as usize) % (s.len() + 1)].to_vec()
        }
        _ => {
            let s = SEEDS[rng.usize(SEEDS.len())];
            mutate(rng, s, DICT)
        }
    };
    let mut hs = Hasher::new();
    hs.bytes(&bytes);
    match parse_both(rep, &bytes, "arbitrary / mutated bytes") {
        None => rep.case(hs.get(), true),
        Some(Err(_)) => {
            rep.case(hs.get(), false);
            rep.count("totality.rejected_with_error");
        }
        Some(Ok((v, f))) => {
            rep.case(hs.get(), !f.is_empty());
            rep.count("totality.parsed_ok");
            if !f.is_empty() {
                rep.count("totality.parsed_ok_with_faces");
            }
            let _ = v;
        }
    }
    if idx < 2 {
        rep.sample(|| Json::obj().set("input", show(&bytes)));
    }
}

fn pin(bytes: &[u8]) -> Result<(), String> {
    let mut r2 = Report::new();
    parse_both(&mut r2, bytes, "pin");
    match r2.violations.values().next() {
        None => Ok(()),
        Some(v) => Err(v.firsts[0].detail.clone()),
    }
}

pub fn run(cfg: &Cfg, rep: &mut Report) {
    rep.rule = "faithfulness: random meshes (0..200 vertices, 0..40 triangles) printed with random indentation, blank lines, comments, CR LF, the four index forms and faces before/after/interleaved with vertices; coordinates are literals whose f32 value is known a priori (dyadic rationals in plain and exponent notation, shortest round-trip Display of random f32 bit patterns); totality: mutated seed files with a dictionary of hostile tokens (index 0, negatives, 2^32, 2^64, missing fields, non-ASCII), truncations at every offset, raw random bytes; non-trivial = parses to a non-empty mesh or provokes a violation; distinct by hash of the bytes".into();
    rep.assumptions.push("generated faces are triangles; the parser reads the first three indices of longer faces, which the property does not cover".into());
    rep.pin("F4a.index_zero", pin(b"v 0 0 0\nv 1 0 0\nv 0 1 0\nf 0 1 2\n"));
    rep.pin("F4a.texcoord_index_zero", pin(b"v 0 0 0\nvt 0 0\nf 1/0 1/1 1/1\n"));
    rep.pin("F4b.faces_without_vertices", pin(b"f 1 2 3\n"));

    rep.run_stream(cfg, 0, "wellformed", cfg.n(60_000, 6_000_000), |rng, i, rep| wellformed_case(rng, rep, i));
    rep.run_stream(cfg, 1, "totality", cfg.n(600_000, 60_000_000), |rng, i, rep| totality_case(rng, rep, i));
    rep.floor("faithful.vertices_compared", 500_000);
    rep.floor("faithful.faces_compared", 500_000);
    rep.floor("layout.faces_first", 5_000);
    rep.floor("layout.very_long_lines", 2_000);
    rep.floor("layout.interleaved", 5_000);
    rep.floor("totality.parsed_ok_with_faces", 4_000);
    rep.floor("totality.rejected_with_error", 100_000);
    rep.floor("reader_faults.hard_failure_midstream", 100_000);
    rep.floor("reader_faults.short_reads_with_eintr", 100_000);
    rep.floor("reader_faults.load_obj_from_file", 10_000);
}
