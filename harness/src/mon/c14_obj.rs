//! C14 — OBJ parsing is total and faithful.
//!
//! Events: Result<Builder<()>> or panic of parse_obj/read_obj; build().
//! Oracles: totality — no panic, and on Ok every face index < verts.len()
//! and build() succeeds; faithfulness — the generator keeps the mesh it
//! printed (positions whose f32 value is known a priori, faces zero-based)
//! and the parsed builder must equal it exactly, whatever the layout.

use super::iofault::{scratch_path, Chunky};
use super::mutate::{mutate, show};
use crate::{catch, Cfg, Hasher, Json, Report, Rng};
use re_geom::io::{load_obj, parse_obj, read_obj};

type Parsed = (Vec<[f32; 3]>, Vec<[usize; 3]>);

fn parse_both(rep: &mut Report, bytes: &[u8], what: &str) -> Option<Result<Parsed, String>> {
    let cj = || Json::obj().set("what", what).set("input", show(bytes)).set("input_len", bytes.len());
    let mut hs = Hasher::new();
    hs.bytes(bytes);
    let seed = hs.get();
    // which: 0 parse_obj, 1 read_obj from a slice, 2 read_obj from a reader
    // delivering 1..7-byte chunks with injected EINTR, 3 load_obj from a file
    let run = |which: u8| {
        let b = bytes.to_vec();
        catch(move || {
            let r = match which {
                0 => parse_obj(b),
                1 => read_obj(&b[..]),
                // Read::bytes() on a raw reader asks for one byte at a time;
                // through a BufReader (what load_obj uses) the reader really
                // delivers 1..7-byte chunks
                2 if seed % 2 == 0 => read_obj(std::io::BufReader::with_capacity(16, Chunky::new(&b, seed, None))),
                2 => read_obj(Chunky::new(&b, seed, None)),
                _ => {
                    let path = scratch_path("in.obj");
                    if std::fs::write(&path, &b).is_err() {
                        // environment problem, not the library's: fall back
                        parse_obj(b)
                    } else {
                        let r = load_obj(&path);
                        let _ = std::fs::remove_file(&path);
                        match r {
                            // the scratch file went away or cannot be read:
                            // the environment's fault, not the library's
                            Err(e) if format!("{e}").contains("I/O") || format!("{e:?}").starts_with("Io") => parse_obj(b),
                            r => r,
                        }
                    }
                }
            };
            r.map(|bld| {
                let faces_ok = bld.mesh.faces.iter().all(|t| t.0.iter().all(|&i| i < bld.mesh.verts.len()));
                let m = bld.build();
                (m.verts.iter().map(|v| v.pos.0).collect::<Vec<_>>(), m.faces.iter().map(|t| t.0).collect::<Vec<_>>(), faces_ok)
            })
            .map_err(|e| format!("{e}"))
        })
    };
    // a reader that fails for good mid-stream must not make the parser panic,
    // and an Ok builder must still build
    if !bytes.is_empty() {
        let k = (seed >> 20) as usize % bytes.len();
        let b = bytes.to_vec();
        let r = catch(move || read_obj(Chunky::new(&b, seed ^ 0x5555, Some(k))).map(|bld| bld.build().faces.len()).is_ok());
        rep.count("reader_faults.hard_failure_midstream");
        if let Err(m) = r {
            rep.violation("obj.parse_panicked", format!("read_obj (or build()) panicked when the reader failed at offset {k}: {m}"), cj().set("reader_fails_at", k));
            return None;
        }
    }
    // the third path alternates between the chunked reader and a real file
    let third = if seed % 8 == 0 { 3 } else { 2 };
    rep.count(if third == 3 { "reader_faults.load_obj_from_file" } else { "reader_faults.short_reads_with_eintr" });
    match (run(0), run(1), run(third)) {
        (Err(m), _, _) | (_, Err(m), _) | (_, _, Err(m)) => {
            rep.violation("obj.parse_panicked", format!("parsing (or build()) panicked: {m}"), cj());
            None
        }
        (Ok(a), Ok(b), Ok(c)) => {
            let eq = |a: &Result<(Vec<[f32; 3]>, Vec<[usize; 3]>, bool), String>, b: &Result<(Vec<[f32; 3]>, Vec<[usize; 3]>, bool), String>| match (a, b) {
                (Ok(x), Ok(y)) => x.0.len() == y.0.len() && x.0.iter().zip(&y.0).all(|(p, q)| same_pt(p, q)) && x.1 == y.1,
                (Err(_), Err(_)) => true,
                _ => false,
            };
            if !eq(&a, &b) {
                rep.violation("obj.parse_vs_read_differ", "parse_obj and read_obj disagree on the same bytes".into(), cj());
                return None;
            }
            if !eq(&a, &c) {
                rep.violation("obj.parse_vs_read_differ", format!("{} disagrees with parse_obj on the same bytes", if third == 3 { "load_obj from a file" } else { "read_obj from a reader delivering short chunks with EINTR" }), cj());
                return None;
            }
            match a {
                Ok((v, f, ok)) => {
                    if !ok {
                        rep.violation("obj.face_index_out_of_range", "Ok(builder) contains a face index ≥ the number of vertices".into(), cj());
                        return None;
                    }
                    Some(Ok((v, f)))
                }
                Err(e) => Some(Err(e)),
            }
        }
    }
}

/// Coordinate equality "as written": the same bits, except that the sign of a
/// zero is not a value (−0 and 0 denote the same coordinate).
fn same_coord(a: f32, b: f32) -> bool {
    a.to_bits() == b.to_bits() || (a == 0.0 && b == 0.0)
}
fn same_pt(a: &[f32; 3], b: &[f32; 3]) -> bool {
    (0..3).all(|k| same_coord(a[k], b[k]))
}

/// A coordinate literal together with the f32 it denotes (known a priori).
thread_local! {
    /// Set while a file is being generated that may use spellings beyond
    /// "plain or exponent notation" (a leading '+', a bare trailing or leading
    /// point): such a file may be rejected; if it is accepted the values count.
    static EXOTIC: std::cell::Cell<bool> = const { std::cell::Cell::new(false) };
    static USED_EXOTIC: std::cell::Cell<bool> = const { std::cell::Cell::new(false) };
}

fn coord(rng: &mut Rng) -> (String, f32) {
    match rng.below(10) {
        8 => {
            // spellings of the same number that differ only in syntax
            let k = rng.int(0, 999) as f64;
            let neg = rng.bool();
            let exotic = EXOTIC.with(|e| e.get());
            let form = if exotic { rng.below(9) } else { [0u64, 1, 2, 6, 7, 8][rng.usize(6)] };
            if matches!(form, 3 | 4 | 5) {
                USED_EXOTIC.with(|e| e.set(true));
            }
            let (lit, v): (String, f64) = match form {
                0 => ("0".into(), 0.0),
                1 => ("0.0".into(), 0.0),
                2 => ("0e0".into(), 0.0),
                3 => (format!("{k}."), k),                  // trailing point
                4 => (format!(".{:03}", k as u32), k / 1000.0), // leading point
                5 => (format!("{k}.e1"), k * 10.0),
                6 => (format!("{k}e+2"), k * 100.0),
                7 => (format!("{k}E-02"), k / 100.0),         // zero-padded exponent (as in the library's docs)
                _ => (format!("00{k}.50"), k + 0.5),         // leading zeros
            };
            // −0 keeps its sign bit
            let plus = exotic && !neg && rng.chance(1, 8);
            if plus {
                USED_EXOTIC.with(|e| e.set(true));
            }
            (if neg { format!("-{lit}") } else if plus { format!("+{lit}") } else { lit }, if neg { -(v as f32) } else { v as f32 })
        }
        9 => {
            // exponent notation over the whole finite range, subnormals included
            let v = rng.any_f32();
            let v = if v.is_finite() { v } else { -2.5e-40 };
            (format!("{v:e}"), v)
        }
        6 => {
            // Long decimals right next to the midpoint of two adjacent f32
            // values (what an exporter printing doubles produces): the
            // correctly rounded f32 is known by construction. Parsing through
            // f64 first (double rounding) gets the wrong neighbour.
            let lo = rng.log_f32(1e-3, 1e4);
            let hi = f32::from_bits(lo.to_bits() + 1);
            let m = (lo as f64 + hi as f64) / 2.0; // exact
            if rng.chance(1, 2) {
                // strictly between the midpoint and its f64 neighbours: the
                // exact (finite) expansion of m with one more digit appended,
                // or with its final 5 replaced by 4999. An f64 cannot tell
                // these from m itself.
                let exact = format!("{m:.70}");
                let exact = exact.trim_end_matches('0');
                let neg = rng.bool();
                let (body, exp) = if rng.bool() || !exact.ends_with('5') {
                    (format!("{exact}{}", rng.pick(b"139") as char), hi)
                } else {
                    (format!("{}4999", &exact[..exact.len() - 1]), lo)
                };
                return (if neg { format!("-{body}") } else { body }, if neg { -exp } else { exp });
            }
            let side = rng.below(3);
            let (x, exp) = match side {
                0 => (f64::from_bits(m.to_bits() + 1), hi),
                1 => (f64::from_bits(m.to_bits() - 1), lo),
                // the tie itself goes to the even mantissa
                _ => (m, if lo.to_bits() & 1 == 0 { lo } else { hi }),
            };
            let neg = rng.bool();
            // The shortest string that reads back as x lies within half an
            // f64 ulp of x, hence on the same side of m as x = m ± 1 ulp; for
            // the tie itself only the exact expansion denotes the tie.
            let body = match if side == 2 { 0 } else { rng.below(3) } {
                0 => format!("{x:.70}"), // exact expansion, zero padded
                1 => format!("{x:e}"),
                _ => format!("{x}"),
            };
            (if neg { format!("-{body}") } else { body }, if neg { -exp } else { exp })
        }
        7 => {
            // the exact decimal expansion of an f32, all digits written out
            let v = rng.log_f32(1e-4, 1e5) * if rng.bool() { -1.0 } else { 1.0 };
            (format!("{:.40}", v as f64), v)
        }
        0 => {
            // dyadic rational: exact decimal expansion, value known exactly
            let k = rng.int(-4096, 4096);
            let m = rng.below(8) as i32;
            let v = k as f64 / (1u32 << m) as f64;
            (format!("{v}"), v as f32)
        }
        1 => {
            // exponent notation of a dyadic
            let k = rng.int(-999, 999);
            let e = rng.int(-3, 6) as i32;
            // k·10^e with e ≥ 0 is an integer; with e < 0 use k/2^j instead
            if e >= 0 {
                let v = k as f64 * 10f64.powi(e);
                (format!("{k}{}{e}", if rng.bool() { "e" } else { "E" }), v as f32)
            } else {
                let v = k as f64 / 8.0;
                (format!("{:e}", v), v as f32)
            }
        }
        2 => {
            let v = rng.any_f32();
            let v = if v.is_finite() { v } else { 1.5 };
            // Display of f32 is the shortest string that round-trips
            (format!("{v}"), v)
        }
        3 => {
            let v = rng.f32_in(-100.0, 100.0);
            (format!("{v:e}"), v)
        }
        4 => {
            let k = rng.int(-50, 50);
            (format!("{k}"), k as f32)
        }
        _ => {
            let k = rng.int(-50, 50);
            (format!("{k}.0"), k as f32)
        }
    }
}

fn ws(rng: &mut Rng, s: &mut String) {
    let n = 1 + rng.below(3);
    for _ in 0..n {
        s.push(rng.pick(&[' ', ' ', '\t']));
    }
}

fn wellformed_case(rng: &mut Rng, rep: &mut Report, idx: u64) {
    // one file in eight may use the exotic number spellings
    EXOTIC.with(|e| e.set(idx % 8 == 3));
    USED_EXOTIC.with(|e| e.set(false));
    // now and then a mesh whose indices do not fit 8 or 16 bits
    let big_mesh = idx % 2000 == 777;
    let nv = if big_mesh { rng.pick(&[256usize, 257, 65535, 65536, 70000]) } else { rng.below(if idx % 5 == 0 { 200 } else { 24 }) as usize };
    let nf = if nv == 0 { 0 } else { rng.below(40) as usize };
    if big_mesh {
        rep.count("faithful.meshes_with_indices_beyond_8_or_16_bits");
    }
    let nt = rng.below(6) as usize;
    let nn = rng.below(6) as usize;
    let mut verts: Vec<[f32; 3]> = vec![];
    let mut vlines: Vec<String> = vec![];
    for _ in 0..nv {
        let (a, b, c) = (coord(rng), coord(rng), coord(rng));
        verts.push([a.1, b.1, c.1]);
        let mut l = String::new();
        if rng.chance(1, 4) {
            ws(rng, &mut l);
        }
        l.push('v');
        for t in [a.0, b.0, c.0] {
            ws(rng, &mut l);
            l.push_str(&t);
        }
        if rng.chance(1, 4) {
            ws(rng, &mut l);
        }
        vlines.push(l);
    }
    let mut faces: Vec<[usize; 3]> = vec![];
    let mut flines: Vec<String> = vec![];
    for _ in 0..nf {
        let f = if big_mesh { [nv - 1, rng.usize(nv), if rng.bool() { 0 } else { nv - 2 }] } else { [rng.usize(nv), rng.usize(nv), rng.usize(nv)] };
        faces.push(f);
        // index form: v, v/vt, v//vn, v/vt/vn (only forms whose extra indices exist)
        let form = match (nt > 0, nn > 0) {
            (true, true) => rng.below(4),
            (true, false) => rng.below(2),
            (false, true) => rng.pick(&[0, 2]),
            _ => 0,
        };
        let mut l = String::new();
        if rng.chance(1, 4) {
            ws(rng, &mut l);
        }
        l.push('f');
        for i in f {
            ws(rng, &mut l);
            match form {
                0 => l.push_str(&format!("{}", i + 1)),
                1 => l.push_str(&format!("{}/{}", i + 1, 1 + rng.usize(nt))),
                2 => l.push_str(&format!("{}//{}", i + 1, 1 + rng.usize(nn))),
                _ => l.push_str(&format!("{}/{}/{}", i + 1, 1 + rng.usize(nt), 1 + rng.usize(nn))),
            }
        }
        flines.push(l);
    }
    let mut other: Vec<String> = vec![];
    for _ in 0..nt {
        other.push(format!("vt {} {}", coord(rng).0, coord(rng).0));
    }
    for _ in 0..nn {
        other.push(format!("vn {} {} {}", coord(rng).0, coord(rng).0, coord(rng).0));
    }
    // layout: faces before / after / interleaved with their vertices
    let layout = rng.below(3);
    let mut lines: Vec<String> = vec![];
    match layout {
        0 => {
            lines.extend(vlines);
            lines.extend(other);
            lines.extend(flines);
        }
        1 => {
            lines.extend(flines);
            lines.extend(other);
            lines.extend(vlines);
        }
        _ => {
            // interleave, keeping the relative order within each kind
            let mut qs = [vlines.into_iter().peekable(), flines.into_iter().peekable(), other.into_iter().peekable()];
            loop {
                let alive: Vec<usize> = (0..3).filter(|&k| qs[k].peek().is_some()).collect();
                if alive.is_empty() {
                    break;
                }
                let k = alive[rng.usize(alive.len())];
                lines.push(qs[k].next().unwrap());
            }
        }
    }
    // sprinkle blank lines and comments
    let mut text = String::new();
    let crlf = rng.chance(1, 3);
    let long_lines = rng.chance(1, 6);
    if long_lines {
        rep.count("layout.very_long_lines");
    }
    for l in lines {
        while rng.chance(1, 6) {
            match rng.below(3) {
                0 => {}
                1 => text.push_str(if rng.chance(1, 3) { "# caf\u{1} \u{2}\u{3} v 1 2 3" } else { "# a comment v 1 2 3 f 9 9 9" }),
                _ => text.push_str("   #indented comment"),
            }
            text.push_str(if crlf { "\r\n" } else { "\n" });
        }
        if long_lines && rng.chance(1, 3) {
            // lines of several thousand characters: long comments whose
            // tail looks like data, deep indentation, wide padding
            // (a budget keeps the whole file below a few MB: the very long
            // lengths only while the text is still short)
            let n = if text.len() < 150_000 && rng.chance(1, 10) { rng.pick(&[8191usize, 8192, 8193, 65535, 65536, 70000]) } else if text.len() < 400_000 { rng.pick(&[300usize, 1020, 1024, 1025, 2048, 5000, 4095, 4096, 4097]) } else { 40 };
            match rng.below(3) {
                0 => {
                    text.push('#');
                    for i in 0..n / 8 {
                        text.push_str(if i % 2 == 0 { " v 9 9 9" } else { " f 1 1 1" });
                    }
                    text.push_str(if crlf { "\r\n" } else { "\n" });
                }
                1 => {
                    for _ in 0..n {
                        text.push(' ');
                    }
                }
                _ => {
                    // padding between the fields of this very line
                    let pad: String = std::iter::repeat(' ').take(n).collect();
                    let padded = l.replacen(' ', &pad, 1);
                    text.push_str(&padded);
                    text.push_str(if crlf { "\r\n" } else { "\n" });
                    continue;
                }
            }
        }
        text.push_str(&l);
        text.push_str(if crlf { "\r\n" } else { "\n" });
    }
    if rng.chance(1, 5) && text.ends_with('\n') {
        text.pop(); // no trailing newline
        if crlf {
            text.pop();
        }
    }
    // comments as exporters write them: UTF-8, Latin-1, stray control bytes
    let mut bytes: Vec<u8> = Vec::with_capacity(text.len());
    for b in text.into_bytes() {
        match b {
            1 => bytes.extend_from_slice(b"\xc3\xa9"),
            2 => bytes.push(0xff),
            3 => bytes.push(0x00),
            _ => bytes.push(b),
        }
    }
    let mut hs = Hasher::new();
    hs.bytes(&bytes);
    rep.case(hs.get(), nv > 0);
    rep.count(["layout.verts_first", "layout.faces_first", "layout.interleaved"][layout as usize]);
    if idx < 2 {
        rep.sample(|| Json::obj().set("input", show(&bytes)));
    }
    let cj = || Json::obj().set("input", show(&bytes)).set("verts", nv).set("faces", nf);
    let used_exotic = USED_EXOTIC.with(|e| e.get());
    EXOTIC.with(|e| e.set(false));
    if used_exotic {
        rep.count("wellformed.files_with_exotic_number_spellings");
    }
    match parse_both(rep, &bytes, "well-formed OBJ text") {
        None => {}
        Some(Err(_)) if used_exotic => rep.count("wellformed.file_with_exotic_number_spellings_rejected(accepted)"),
        Some(Err(e)) => rep.violation("obj.wellformed_rejected", format!("well-formed OBJ rejected: {e}"), cj()),
        Some(Ok((gv, gf))) => {
            if gv.len() != verts.len() || gv.iter().zip(&verts).any(|(a, b)| !same_pt(a, b)) {
                let i = gv.iter().zip(&verts).position(|(a, b)| !same_pt(a, b));
                rep.violation(
                    "obj.vertices_differ",
                    format!("parsed {} vertices, file lists {}; first difference at {:?}: parsed {:?}, written {:?}", gv.len(), verts.len(), i, i.map(|i| gv[i]), i.map(|i| verts[i])),
                    cj(),
                );
            } else if gf != faces {
                let i = gf.iter().zip(&faces).position(|(a, b)| a != b);
                rep.violation("obj.faces_differ", format!("parsed {} faces, file lists {}; first difference at {:?}: parsed {:?}, written (zero-based) {:?}", gf.len(), faces.len(), i, i.map(|i| gf[i]), i.map(|i| faces[i])), cj());
            } else {
                rep.add("faithful.vertices_compared", nv as u64);
                rep.add("faithful.faces_compared", nf as u64);
            }
        }
    }
}

const DICT: &[&[u8]] = &[
    b"0", b"1", b"2", b"3", b"-1", b"-2", b"4294967296", b"18446744073709551615", b"18446744073709551616", b"99999999999999999999999", b"/", b"//", b"1/", b"/1", b"1//", b"0/0/0", b"1/1/1", b"f", b"v", b"vt", b"vn", b"#", b"\n", b"\r\n", b" ", b"1e400", b"nan", b"inf", b"-inf", b"\xff", b"\xc3\xa9", b"g", b"o", b"1.5", b"+1", b"f 1 2 3\n", b"v 0 0 0\n",
];

const SEEDS: &[&[u8]] = &[
    b"v 0 0 0\nv 1 0 0\nv 0 1 0\nf 1 2 3\n",
    b"# c\nvt 0 0\nvn 0 0 1\nv 1e0 2.5 -3\nf 1/1/1 1/1/1 1/1/1\n",
    b"f 1//1 2//1 3//1\nv 0 0 0\nv 1 1 1\nv 2 2 2\nvn 1 0 0\n",
    b"  v 1 2 3 \r\n\r\nf 1/1 1/1 1/1\nvt 0.5 0.5\n",
    b"f 1 2 3\n",
    b"v 0 0 0\nf 0 1 2\n",
    b"v 0 0 0\nvt 0 0\nf 1/0 1/1 1/1\n",
    b"",
    b"v 1 2\n",
    b"f 1 2\nv 0 0 0\n",
];

/// A small independent reader of the OBJ subset the property covers. It is
/// deliberately strict: it returns Some(mesh) only for input that is
/// well-formed by a conservative grammar (lines separated by LF with an
/// optional CR; blank lines; `#` comment lines; `v x y z`, `vt u v [w]`,
/// `vn x y z`, `f a b c` with a | a/b | a//c | a/b/c, every index ≥ 1 and
/// within the counts of the whole file; numbers in plain or exponent
/// notation). For anything else it says None and nothing is judged.
fn reference_obj(bytes: &[u8]) -> Option<Parsed> {
    fn num(t: &str) -> Option<f32> {
        let b = t.as_bytes();
        let mut i = 0;
        // conservative: [-]digits[.digits][e[±]digits] — a leading '+', a bare
        // trailing or leading point are left unjudged
        if i < b.len() && b[i] == b'-' {
            i += 1;
        }
        let d0 = i;
        while i < b.len() && b[i].is_ascii_digit() {
            i += 1;
        }
        if i == d0 {
            return None;
        }
        if i < b.len() && b[i] == b'.' {
            i += 1;
            let f0 = i;
            while i < b.len() && b[i].is_ascii_digit() {
                i += 1;
            }
            if i == f0 {
                return None;
            }
        }
        if i < b.len() && (b[i] == b'e' || b[i] == b'E') {
            i += 1;
            if i < b.len() && (b[i] == b'-' || b[i] == b'+') {
                i += 1;
            }
            let e0 = i;
            while i < b.len() && b[i].is_ascii_digit() {
                i += 1;
            }
            if i == e0 {
                return None;
            }
        }
        if i != b.len() {
            return None;
        }
        // a literal beyond the f32 range has no f32 "as written": unjudged
        t.parse::<f32>().ok().filter(|x| x.is_finite())
    }
    let text = std::str::from_utf8(bytes).ok()?;
    if !text.is_ascii() {
        return None;
    }
    let (mut v, mut f): (Vec<[f32; 3]>, Vec<[usize; 3]>) = (vec![], vec![]);
    let (mut nt, mut nn) = (0usize, 0usize);
    let (mut max_t, mut max_n) = (0usize, 0usize);
    for line in text.split('\n') {
        let line = line.strip_suffix('\r').unwrap_or(line);
        if line.contains('\r') || line.contains('\x0b') || line.contains('\x0c') {
            return None;
        }
        let mut it = line.split([' ', '\t']).filter(|t| !t.is_empty());
        let Some(item) = it.next() else { continue };
        if item.starts_with('#') {
            continue;
        }
        let rest: Vec<&str> = it.collect();
        match item {
            "v" | "vn" => {
                if rest.len() != 3 {
                    return None;
                }
                let c = [num(rest[0])?, num(rest[1])?, num(rest[2])?];
                if item == "v" {
                    v.push(c);
                } else {
                    nn += 1;
                }
            }
            "vt" => {
                if rest.len() != 2 {
                    return None;
                }
                num(rest[0])?;
                num(rest[1])?;
                nt += 1;
            }
            "f" => {
                if rest.len() != 3 {
                    return None;
                }
                let mut tri = [0usize; 3];
                for (k, t) in rest.iter().enumerate() {
                    let parts: Vec<&str> = t.split('/').collect();
                    let idx = |p: &str| -> Option<usize> {
                        if p.is_empty() || p.len() > 9 || !p.bytes().all(|c| c.is_ascii_digit()) {
                            return None;
                        }
                        let i: usize = p.parse().ok()?;
                        (i >= 1).then_some(i)
                    };
                    match parts.as_slice() {
                        [a] => tri[k] = idx(a)?,
                        [a, b] => {
                            tri[k] = idx(a)?;
                            max_t = max_t.max(idx(b)?);
                        }
                        [a, b, c] => {
                            tri[k] = idx(a)?;
                            if !b.is_empty() {
                                max_t = max_t.max(idx(b)?);
                            }
                            max_n = max_n.max(idx(c)?);
                        }
                        _ => return None,
                    }
                }
                f.push(tri);
            }
            _ => return None,
        }
    }
    if f.iter().flatten().any(|&i| i > v.len()) || max_t > nt || max_n > nn {
        return None;
    }
    Some((v, f.into_iter().map(|t| t.map(|i| i - 1)).collect()))
}

fn totality_case(rng: &mut Rng, rep: &mut Report, idx: u64) {
    let bytes: Vec<u8> = match rng.below(10) {
        0 => {
            let n = rng.below(64) as usize;
            (0..n).map(|_| rng.u64() as u8).collect()
        }
        1 => {
            // faces with hostile indices, with / without vertices
            let mut o = vec![];
            let nv = rng.below(4);
            for _ in 0..nv {
                o.extend(b"v 0 1 2\n");
            }
            o.extend(b"f");
            for _ in 0..3 {
                o.push(b' ');
                o.extend(DICT[rng.usize(17)]);
            }
            o.push(b'\n');
            o
        }
        2 => {
            let s = SEEDS[rng.usize(SEEDS.len())];
            s[..(idx as usize) % (s.len() + 1)].to_vec()
        }
        _ => {
            let s = SEEDS[rng.usize(SEEDS.len())];
            mutate(rng, s, DICT)
        }
    };
    let mut hs = Hasher::new();
    hs.bytes(&bytes);
    match parse_both(rep, &bytes, "arbitrary / mutated bytes") {
        None => rep.case(hs.get(), true),
        Some(Err(e)) => {
            rep.case(hs.get(), false);
            rep.count("totality.rejected_with_error");
            // mutated input that is still well-formed must still be read
            if reference_obj(&bytes).is_some() {
                rep.violation("obj.wellformed_rejected", format!("input that the reference reader finds well-formed is rejected: {e}"), Json::obj().set("input", show(&bytes)));
            }
        }
        Some(Ok((v, f))) => {
            rep.case(hs.get(), !f.is_empty());
            rep.count("totality.parsed_ok");
            if !f.is_empty() {
                rep.count("totality.parsed_ok_with_faces");
            }
            // … and read faithfully
            if let Some((rv, rf)) = reference_obj(&bytes) {
                rep.count("totality.cross_checked_with_reference_reader");
                if rv.len() != v.len() || rv.iter().zip(&v).any(|(a, b)| !same_pt(a, b)) {
                    rep.violation("obj.vertices_differ", format!("mutated but well-formed input: parsed {} vertices {:?}…, the reference reader finds {} {:?}…", v.len(), &v[..v.len().min(3)], rv.len(), &rv[..rv.len().min(3)]), Json::obj().set("input", show(&bytes)));
                } else if rf != f {
                    rep.violation("obj.faces_differ", format!("mutated but well-formed input: parsed faces {:?}…, the reference reader finds {:?}…", &f[..f.len().min(3)], &rf[..rf.len().min(3)]), Json::obj().set("input", show(&bytes)));
                }
            } else {
                rep.count("totality.accepted_but_outside_the_reference_grammar(unjudged)");
            }
        }
    }
    if idx < 2 {
        rep.sample(|| Json::obj().set("input", show(&bytes)));
    }
}

/// Pinned witness: no panic, and — these inputs refer to vertices or
/// attributes that do not exist — an error, not a mesh.
fn pin(bytes: &[u8]) -> Result<(), String> {
    let mut r2 = Report::new();
    let r = parse_both(&mut r2, bytes, "pin");
    match r2.violations.values().next() {
        None => match r {
            Some(Ok((v, f))) => Err(format!("accepted as a mesh of {} vertices and faces {:?}", v.len(), f)),
            _ => Ok(()),
        },
        Some(v) => Err(v.firsts[0].detail.clone()),
    }
}

/// Error, or a builder all of whose face indices refer to existing vertices.
fn pin_valid_or_err(bytes: &[u8]) -> Result<(), String> {
    let mut r2 = Report::new();
    let r = parse_both(&mut r2, bytes, "pin");
    match r2.violations.values().next() {
        None => match r {
            Some(Ok((v, f))) if f.iter().flatten().any(|i| *i >= v.len()) => Err(format!("accepted with face indices {:?} beyond its {} vertices", f, v.len())),
            _ => Ok(()),
        },
        Some(v) => Err(v.firsts[0].detail.clone()),
    }
}

pub fn run(cfg: &Cfg, rep: &mut Report) {
    rep.rule = "faithfulness: random meshes (0..200 vertices, 0..40 triangles) printed with random indentation, blank lines, comments, CR LF, the four index forms and faces before/after/interleaved with vertices; coordinates are literals whose f32 value is known a priori (dyadic rationals in plain and exponent notation, shortest round-trip Display of random f32 bit patterns); totality: mutated seed files with a dictionary of hostile tokens (index 0, negatives, 2^32, 2^64, missing fields, non-ASCII), truncations at every offset, raw random bytes; non-trivial = parses to a non-empty mesh or provokes a violation; distinct by hash of the bytes".into();
    rep.assumptions.push("well-formed text uses LF or CR LF line ends and spaces or tabs between fields (what exporters write); the statement names blank lines, comments and indentation, and a reader that split on single spaces only would be reported by this monitor".into());
    rep.assumptions.push("generated faces are triangles; the parser reads the first three indices of longer faces, which the property does not cover".into());
    rep.pin("F4a.index_zero", pin(b"v 0 0 0\nv 1 0 0\nv 0 1 0\nf 0 1 2\n"));
    // (texcoord/normal indices are parsed but not returned: an error, or a
    // builder whose position indices are valid, both satisfy the statement)
    rep.pin("F4a.texcoord_index_zero", pin_valid_or_err(b"v 0 0 0\nvt 0 0\nf 1/0 1/1 1/1\n"));
    rep.pin("F4b.faces_without_vertices", pin(b"f 1 2 3\n"));

    rep.run_stream(cfg, 0, "wellformed", cfg.n(60_000, 6_000_000), |rng, i, rep| wellformed_case(rng, rep, i));
    rep.run_stream(cfg, 1, "totality", cfg.n(600_000, 60_000_000), |rng, i, rep| totality_case(rng, rep, i));
    rep.floor("faithful.vertices_compared", 500_000);
    rep.floor("faithful.faces_compared", 500_000);
    rep.floor("layout.faces_first", 5_000);
    rep.floor("layout.very_long_lines", 2_000);
    rep.floor("layout.interleaved", 5_000);
    rep.floor("totality.parsed_ok_with_faces", 1_500);
    rep.floor("totality.rejected_with_error", 100_000);
    rep.floor("reader_faults.hard_failure_midstream", 100_000);
    rep.floor("reader_faults.short_reads_with_eintr", 100_000);
    rep.floor("reader_faults.load_obj_from_file", 10_000);
    rep.floor("totality.cross_checked_with_reference_reader", 5_000);
    rep.floor("faithful.meshes_with_indices_beyond_8_or_16_bits", 5);
}
