//! Hostile `Read` implementations and scratch files for the codec monitors
//! (C13, C14): the same bytes delivered in random short chunks with injected
//! `Interrupted` errors (which `Read::bytes` must retry), a reader that fails
//! for good at a chosen offset, and real files in a scratch directory.

use std::io::{self, Read, Write};
use std::path::PathBuf;

pub struct Chunky<'a> {
    data: &'a [u8],
    pos: usize,
    state: u64,
    /// fail with a hard error once `pos` reaches this offset
    fail_at: Option<usize>,
    pub interrupts: u64,
    pub reads: u64,
}

impl<'a> Chunky<'a> {
    pub fn new(data: &'a [u8], seed: u64, fail_at: Option<usize>) -> Self {
        Chunky { data, pos: 0, state: seed | 1, fail_at, interrupts: 0, reads: 0 }
    }
    fn next(&mut self) -> u64 {
        // splitmix-style step; quality is irrelevant, determinism is not
        self.state = self.state.wrapping_add(0x9e3779b97f4a7c15);
        crate::mix64(self.state)
    }
}

impl Read for Chunky<'_> {
    fn read(&mut self, buf: &mut [u8]) -> io::Result<usize> {
        self.reads += 1;
        if let Some(k) = self.fail_at {
            if self.pos >= k {
                return Err(io::Error::new(io::ErrorKind::Other, "injected I/O failure"));
            }
        }
        let r = self.next();
        if r % 5 == 0 {
            self.interrupts += 1;
            return Err(io::Error::new(io::ErrorKind::Interrupted, "injected EINTR"));
        }
        let mut n = (1 + (r >> 8) % 7) as usize;
        n = n.min(buf.len()).min(self.data.len() - self.pos);
        if let Some(k) = self.fail_at {
            n = n.min(k - self.pos);
        }
        buf[..n].copy_from_slice(&self.data[self.pos..self.pos + n]);
        self.pos += n;
        Ok(n)
    }
}

/// A per-thread scratch file path. The directory is RFMON_JOURNAL_DIR when
/// the driver set one (inside /verif/replay, git-ignored), else the system
/// temporary directory; files are removed by the caller after use.
pub fn scratch_path(tag: &str) -> PathBuf {
    let dir = std::env::var("RFMON_JOURNAL_DIR").map(PathBuf::from).unwrap_or_else(|_| std::env::temp_dir());
    let tid = format!("{:?}", std::thread::current().id());
    let tid: String = tid.chars().filter(|c| c.is_ascii_digit()).collect();
    dir.join(format!("rfmon-io-{}-{}-{}", std::process::id(), tid, tag))
}

/// A writer that accepts 1..7 bytes per call and now and then reports EINTR:
/// what `write_all` exists for.
pub struct ChunkyWriter {
    pub out: Vec<u8>,
    state: u64,
    pub interrupts: u64,
    pub writes: u64,
}

impl ChunkyWriter {
    pub fn new(seed: u64) -> Self {
        ChunkyWriter { out: vec![], state: seed | 1, interrupts: 0, writes: 0 }
    }
}

impl Write for ChunkyWriter {
    fn write(&mut self, buf: &[u8]) -> io::Result<usize> {
        self.writes += 1;
        self.state = self.state.wrapping_add(0x9e3779b97f4a7c15);
        let r = crate::mix64(self.state);
        if r % 5 == 0 {
            self.interrupts += 1;
            return Err(io::Error::new(io::ErrorKind::Interrupted, "injected EINTR"));
        }
        let n = ((1 + (r >> 8) % 7) as usize).min(buf.len());
        self.out.extend_from_slice(&buf[..n]);
        Ok(n)
    }
    fn flush(&mut self) -> io::Result<()> {
        Ok(())
    }
}
