//! C11 — 2D buffers and views act as windows onto a plain 2D array.
//!
//! Event: return value or panic of every public Buf2/Slice2/MutSlice2
//! operation in a history; the whole backing store after every operation.
//! Oracle (history + executable model): a plain Vec<u64> plus, for the view
//! reached through a path of slicings, the list of backing indices of its
//! cells. Every written value is a fresh unique id, so a read identifies the
//! write it observed and a stray write is attributable. Every operation is
//! performed by re-deriving the view from the root along its path, so the
//! borrow ends with the operation and the *whole* store can be compared with
//! the model immediately afterwards (no unsafe peeking).

use crate::{catch, Cfg, Hasher, Json, Report, Rng};
use re::math::vec::vec2;
use re::util::buf::{AsMutSlice2, AsSlice2, Buf2, MutSlice2, Slice2};
use std::ops::Bound;

macro_rules! exec_op {
    ($v:ident, $opc:expr, $id0:expr, $srck:expr) => {{
        let id0: u64 = $id0;
        match $opc {
            Op::Get(x, y) => Obs::Val($v.get([x, y]).copied()),
            Op::GetMut(x, y) => Obs::Val($v.get_mut([x, y]).map(|c| {
                *c = id0;
                id0
            })),
            Op::IndexPt(x, y) => Obs::Val(Some($v[[x, y]])),
            Op::IndexPtMut(x, y) => {
                $v[[x, y]] = id0;
                Obs::Unit
            }
            Op::IndexRow(y) => Obs::Row($v[y].to_vec()),
            Op::IndexRowMutWrite(y, x) => {
                let row = &mut $v[y];
                let n = row.len() as u32;
                if x < n {
                    row[x as usize] = id0;
                }
                Obs::Dims(n, 0, false)
            }
            Op::Rows => Obs::Rows($v.rows().map(|r| r.to_vec()).collect()),
            Op::RowsMutWrite => {
                let mut k = 0;
                let mut shape = vec![];
                for r in $v.rows_mut() {
                    shape.push(vec![r.len() as u64]);
                    for c in r.iter_mut() {
                        *c = id0 + k;
                        k += 1;
                    }
                }
                Obs::Rows(shape)
            }
            Op::Iter => Obs::Flat($v.iter().copied().collect()),
            Op::IterMutWrite => {
                let mut k = 0;
                for c in $v.iter_mut() {
                    *c = id0 + k;
                    k += 1;
                }
                Obs::Val(Some(k))
            }
            Op::Fill => {
                $v.fill(id0);
                Obs::Unit
            }
            Op::FillWith => {
                let w = $v.width() as u64;
                $v.fill_with(|x, y| id0 + y as u64 * w.max(1) + x as u64);
                Obs::Unit
            }
            Op::CopyFrom { dw, dh } => {
                let (w, h) = $v.dims();
                let (sw, sh) = ((w as i64 + dw as i64).max(0) as u32, (h as i64 + dh as i64).max(0) as u32);
                // source value at (x, y) is always id0 + y*(sw+2) + x + 1;
                // the kind of source object rotates
                let val = |x: u32, y: u32| id0 + (y * (sw + 2) + x + 1) as u64;
                match $srck % 6 {
                    0 => {
                        // a strided window of another buffer
                        let src = Buf2::new_with((sw + 2, sh + 1), |x, y| id0 + (y * (sw + 2) + x) as u64);
                        $v.copy_from(src.slice((1..1 + sw, 0..sh)));
                    }
                    1 => {
                        // an owned, contiguous buffer by value
                        let src = Buf2::new_with((sw, sh), val);
                        $v.copy_from(src);
                    }
                    2 => {
                        // a reference to an owned buffer
                        let src = Buf2::new_with((sw, sh), val);
                        $v.copy_from(&src);
                    }
                    3 => {
                        // a mutable view of another buffer
                        let mut src = Buf2::new_with((sw + 1, sh + 2), |x, y| if y == 0 { 7 } else { val(x, y - 1) });
                        $v.copy_from(src.slice_mut((0..sw, 1..1 + sh)));
                    }
                    4 => {
                        // a contiguous multi-row view (stride == width) over data with a
                        // surplus tail of up to two rows: what a whole-slice fast path
                        // between two contiguous views would copy too much of
                        let len = (sw * sh + [1, sw.max(1), 2 * sw.max(1) + 1][($srck / 6 % 3) as usize]) as usize;
                        let data: Vec<u64> = (0..len as u32).map(|i| if sw > 0 && i < sw * sh { val(i % sw, i / sw) } else { 9 }).collect();
                        $v.copy_from(Slice2::new((sw, sh), sw, &data[..]));
                    }
                    _ => {
                        // Slice2::new over data with a large stride and surplus tail
                        let stride = sw + 5;
                        let len = if sw == 0 || sh == 0 { 3 } else { (sh - 1) * stride + sw + 3 } as usize;
                        let data: Vec<u64> = (0..len as u32).map(|i| if stride > 0 && i % stride < sw { val(i % stride, i / stride) } else { 9 }).collect();
                        $v.copy_from(Slice2::new((sw, sh), stride, &data[..]));
                    }
                }
                Obs::Unit
            }
            Op::Dims => Obs::Shape($v.width(), $v.height(), $v.is_empty(), $v.stride(), $v.is_contiguous()),
        }
    }};
}

/// The ways a rectangle can be spelled at a slicing call.
#[derive(Clone, Copy, Debug, PartialEq)]
pub enum Form {
    /// (l..r, t..b)
    Excl(u32, u32, u32, u32),
    /// (l..=r-1, t..=b-1); only for non-empty extents
    Incl(u32, u32, u32, u32),
    /// (..r, ..b)
    To(u32, u32),
    /// (l.., t..)
    From(u32, u32),
    /// (.., ..)
    FullPair,
    /// ..
    Full,
    /// vec2(l,t)..vec2(r,b)
    Vecs(u32, u32, u32, u32),
    /// (l..r, ..) and (.., t..b)
    HOnly(u32, u32),
    VOnly(u32, u32),
    /// (..=r-1, ..=b-1); only for non-empty extents
    ToIncl(u32, u32),
    /// (l..=r-1, t..b) and (l..r, t..=b-1): one axis inclusive
    MixIE(u32, u32, u32, u32),
    MixEI(u32, u32, u32, u32),
    /// (l.., ..b) and (..r, t..)
    FromTo(u32, u32),
    ToFrom(u32, u32),
    /// ((Excluded(l-1), Excluded(r)), (Excluded(t-1), Included(b-1))):
    /// explicit Bound pairs with an *excluded start*; fields are the bound
    /// values as written
    Bounds(u32, u32, u32, u32),
}

impl Form {
    /// Resolved (l, t, r, b) against a view of (w, h); None if the spelling
    /// itself overflows u32 (inclusive end at u32::MAX).
    fn resolve(&self, w: u32, h: u32) -> Option<(u64, u64, u64, u64)> {
        Some(match *self {
            Form::Excl(l, t, r, b) | Form::Vecs(l, t, r, b) => (l as u64, t as u64, r as u64, b as u64),
            Form::Incl(l, t, r, b) => (l as u64, t as u64, r as u64 + 1, b as u64 + 1),
            Form::To(r, b) => (0, 0, r as u64, b as u64),
            Form::From(l, t) => (l as u64, t as u64, w as u64, h as u64),
            Form::FullPair | Form::Full => (0, 0, w as u64, h as u64),
            Form::HOnly(l, r) => (l as u64, 0, r as u64, h as u64),
            Form::VOnly(t, b) => (0, t as u64, w as u64, b as u64),
            Form::ToIncl(r, b) => (0, 0, r as u64 + 1, b as u64 + 1),
            Form::MixIE(l, t, r, b) => (l as u64, t as u64, r as u64 + 1, b as u64),
            Form::MixEI(l, t, r, b) => (l as u64, t as u64, r as u64, b as u64 + 1),
            Form::FromTo(l, b) => (l as u64, 0, w as u64, b as u64),
            Form::ToFrom(r, t) => (0, t as u64, r as u64, h as u64),
            // excluded starts: left = xl + 1, top = xt + 1; a start of
            // u32::MAX cannot be resolved (must panic)
            Form::Bounds(xl, xt, r, bi) => {
                if xl == u32::MAX || xt == u32::MAX {
                    return None;
                }
                (xl as u64 + 1, xt as u64 + 1, r as u64, bi as u64 + 1)
            }
        })
    }
    /// In-bounds by the rule "left ≤ right ≤ width and top ≤ bottom ≤
    /// height" (empty ranges allowed anywhere up to and including the end).
    fn in_bounds(&self, w: u32, h: u32) -> Option<(u32, u32, u32, u32)> {
        let (l, t, r, b) = self.resolve(w, h)?;
        if l <= r && r <= w as u64 && t <= b && b <= h as u64 {
            Some((l as u32, t as u32, r as u32, b as u32))
        } else {
            None
        }
    }
}

fn slice_mut_form<'a>(v: &'a mut MutSlice2<u64>, f: Form) -> MutSlice2<'a, u64> {
    match f {
        Form::Excl(l, t, r, b) => v.slice_mut((l..r, t..b)),
        Form::Incl(l, t, r, b) => v.slice_mut((l..=r, t..=b)),
        Form::To(r, b) => v.slice_mut((..r, ..b)),
        Form::From(l, t) => v.slice_mut((l.., t..)),
        Form::FullPair => v.slice_mut((.., ..)),
        Form::Full => v.slice_mut(..),
        Form::Vecs(l, t, r, b) => v.slice_mut(vec2(l, t)..vec2(r, b)),
        Form::HOnly(l, r) => v.slice_mut((l..r, ..)),
        Form::VOnly(t, b) => v.slice_mut((.., t..b)),
        Form::ToIncl(r, b) => v.slice_mut((..=r, ..=b)),
        Form::MixIE(l, t, r, b) => v.slice_mut((l..=r, t..b)),
        Form::MixEI(l, t, r, b) => v.slice_mut((l..r, t..=b)),
        Form::FromTo(l, b) => v.slice_mut((l.., ..b)),
        Form::ToFrom(r, t) => v.slice_mut((..r, t..)),
        Form::Bounds(xl, xt, r, bi) => v.slice_mut(((Bound::Excluded(xl), Bound::Excluded(r)), (Bound::Excluded(xt), Bound::Included(bi)))),
    }
}

fn slice_mut_form_buf(v: &mut Buf2<u64>, f: Form) -> MutSlice2<'_, u64> {
    match f {
        Form::Excl(l, t, r, b) => v.slice_mut((l..r, t..b)),
        Form::Incl(l, t, r, b) => v.slice_mut((l..=r, t..=b)),
        Form::To(r, b) => v.slice_mut((..r, ..b)),
        Form::From(l, t) => v.slice_mut((l.., t..)),
        Form::FullPair => v.slice_mut((.., ..)),
        Form::Full => v.slice_mut(..),
        Form::Vecs(l, t, r, b) => v.slice_mut(vec2(l, t)..vec2(r, b)),
        Form::HOnly(l, r) => v.slice_mut((l..r, ..)),
        Form::VOnly(t, b) => v.slice_mut((.., t..b)),
        Form::ToIncl(r, b) => v.slice_mut((..=r, ..=b)),
        Form::MixIE(l, t, r, b) => v.slice_mut((l..=r, t..b)),
        Form::MixEI(l, t, r, b) => v.slice_mut((l..r, t..=b)),
        Form::FromTo(l, b) => v.slice_mut((l.., ..b)),
        Form::ToFrom(r, t) => v.slice_mut((..r, t..)),
        Form::Bounds(xl, xt, r, bi) => v.slice_mut(((Bound::Excluded(xl), Bound::Excluded(r)), (Bound::Excluded(xt), Bound::Included(bi)))),
    }
}

fn form_kind(f: &Form) -> &'static str {
    match f {
        Form::Excl(..) => "Excl",
        Form::Incl(..) => "Incl",
        Form::To(..) => "To",
        Form::From(..) => "From",
        Form::FullPair => "FullPair",
        Form::Full => "Full",
        Form::Vecs(..) => "Vecs",
        Form::HOnly(..) => "HOnly",
        Form::VOnly(..) => "VOnly",
        Form::ToIncl(..) => "ToIncl",
        Form::MixIE(..) => "MixIE",
        Form::MixEI(..) => "MixEI",
        Form::FromTo(..) => "FromTo",
        Form::ToFrom(..) => "ToFrom",
        Form::Bounds(..) => "Bounds(excluded start)",
    }
}
#[derive(Clone, Debug)]
pub enum Root {
    /// Buf2::new_with((w,h))
    Owned { w: u32, h: u32 },
    /// MutSlice2::new((w,h), stride, &mut data[..len])
    Direct { w: u32, h: u32, stride: u32, len: usize },
}

#[derive(Clone, Debug)]
pub enum Op {
    Get(u32, u32),
    GetMut(u32, u32),
    IndexPt(u32, u32),
    IndexPtMut(u32, u32),
    IndexRow(usize),
    IndexRowMutWrite(usize, u32),
    Rows,
    RowsMutWrite,
    Iter,
    IterMutWrite,
    Fill,
    FillWith,
    CopyFrom { dw: i32, dh: i32 },
    Dims,
}

/// The statement speaks of width, height and emptiness. stride() and
/// is_contiguous() follow from the geometry only for views of two or more
/// non-empty rows (row y+1 starts stride() elements after row y; contiguous
/// iff stride == width); for one-row and empty views the stride addresses
/// nothing and is left free (a one-row view may report stride == width).
fn shape_norm(o: &Obs) -> Obs {
    match o {
        Obs::Shape(w, h, e, _, _) if *h < 2 || *w == 0 => Obs::Shape(*w, *h, *e, 0, true),
        // is_contiguous() only gates fast paths (a conservative answer is
        // harmless and the statement does not mention it): never compared
        Obs::Shape(w, h, e, s, _) => Obs::Shape(*w, *h, *e, *s, true),
        other => other.clone(),
    }
}

#[derive(Clone, Debug, PartialEq)]
pub enum Obs {
    Val(Option<u64>),
    Row(Vec<u64>),
    Rows(Vec<Vec<u64>>),
    Flat(Vec<u64>),
    Dims(u32, u32, bool),
    /// width, height, is_empty, stride, is_contiguous
    Shape(u32, u32, bool, u32, bool),
    Unit,
}

struct Store {
    root: Root,
    owned: Option<Buf2<u64>>,
    raw: Vec<u64>,
}

impl Store {
    fn new(root: Root) -> Result<Self, String> {
        match root {
            Root::Owned { w, h } => {
                let b = catch(|| Buf2::new_with((w, h), |x, y| 1_000_000 + (y * w + x) as u64))?;
                Ok(Store { root, owned: Some(b), raw: vec![] })
            }
            Root::Direct { len, .. } => Ok(Store { root, owned: None, raw: (0..len as u64).map(|i| 2_000_000 + i).collect() }),
        }
    }
    fn data(&self) -> &[u64] {
        match &self.owned {
            Some(b) => b.data(),
            None => &self.raw,
        }
    }
    fn root_dims(&self) -> (u32, u32, u32) {
        match self.root {
            Root::Owned { w, h } => (w, h, w),
            Root::Direct { w, h, stride, .. } => (w, h, stride),
        }
    }
}

/// Walks `path` with slice_mut from the root and applies `f` to the final
/// view. Everything happens inside `catch`. With `direct`, an owned root is
/// used as the receiver itself (`fb` for an empty path, Buf2::slice_mut for the
/// first hop); otherwise it is first borrowed with as_mut_slice2().
fn with_mut<R>(st: &mut Store, path: &[Form], direct: bool, f: &mut dyn FnMut(&mut MutSlice2<u64>) -> R, fb: &mut dyn FnMut(&mut Buf2<u64>) -> R) -> Result<R, String> {
    fn rec<R>(v: &mut MutSlice2<u64>, path: &[Form], f: &mut dyn FnMut(&mut MutSlice2<u64>) -> R) -> R {
        match path.split_first() {
            None => f(v),
            Some((p, rest)) => {
                let mut s = slice_mut_form(v, *p);
                rec(&mut s, rest, f)
            }
        }
    }
    let root = st.root.clone();
    catch(move || match (&mut st.owned, root) {
        (Some(b), _) if direct => match path.split_first() {
            None => fb(b),
            Some((p, rest)) => {
                let mut s = slice_mut_form_buf(b, *p);
                rec(&mut s, rest, f)
            }
        },
        (Some(b), _) => {
            // alternate between the inherent method and the trait on &mut Buf2
            let mut v = if path.len() % 2 == 0 { b.as_mut_slice2() } else { AsMutSlice2::as_mut_slice2(b) };
            rec(&mut v, path, f)
        }
        (None, Root::Direct { w, h, stride, .. }) => {
            let mut v = MutSlice2::new((w, h), stride, &mut st.raw[..]);
            rec(&mut v, path, f)
        }
        _ => unreachable!(),
    })
}

/// Same with immutable slicing.
fn with_ro<R>(st: &Store, path: &[Form], f: &mut dyn FnMut(&Slice2<u64>) -> R) -> Result<R, String> {
    fn rec<R>(v: &Slice2<u64>, path: &[Form], f: &mut dyn FnMut(&Slice2<u64>) -> R) -> R {
        match path.split_first() {
            None => f(v),
            Some((p, rest)) => {
                let s: Slice2<u64> = match *p {
                    Form::Excl(l, t, r, b) => v.slice((l..r, t..b)),
                    Form::Incl(l, t, r, b) => v.slice((l..=r, t..=b)),
                    Form::To(r, b) => v.slice((..r, ..b)),
                    Form::From(l, t) => v.slice((l.., t..)),
                    Form::FullPair => v.slice((.., ..)),
                    Form::Full => v.slice(..),
                    Form::Vecs(l, t, r, b) => v.slice(vec2(l, t)..vec2(r, b)),
                    Form::HOnly(l, r) => v.slice((l..r, ..)),
                    Form::VOnly(t, b) => v.slice((.., t..b)),
                    Form::ToIncl(r, b) => v.slice((..=r, ..=b)),
                    Form::MixIE(l, t, r, b) => v.slice((l..=r, t..b)),
                    Form::MixEI(l, t, r, b) => v.slice((l..r, t..=b)),
                    Form::FromTo(l, b) => v.slice((l.., ..b)),
                    Form::ToFrom(r, t) => v.slice((..r, t..)),
                    Form::Bounds(xl, xt, r, bi) => v.slice(((Bound::Excluded(xl), Bound::Excluded(r)), (Bound::Excluded(xt), Bound::Included(bi)))),
                };
                rec(&s, rest, f)
            }
        }
    }
    catch(|| match (&st.owned, &st.root) {
        (Some(b), _) => {
            let v = b.as_slice2();
            rec(&v, path, f)
        }
        (None, Root::Direct { w, h, stride, .. }) => {
            let v = Slice2::new((*w, *h), *stride, &st.raw[..]);
            rec(&v, path, f)
        }
        _ => unreachable!(),
    })
}

/// The model of a view: backing indices of its cells, or the level at which
/// the path goes out of bounds (→ slicing must panic).
struct ViewModel {
    cells: Vec<Vec<usize>>,
    w: u32,
    h: u32,
}

/// True if the path fails at its last hop only because that hop's range is
/// reversed (start beyond end on some axis) while all four bounds lie inside
/// the view it is applied to.
fn reversed_in_bounds_hop(st: &Store, path: &[Form]) -> bool {
    let (w, h, _) = st.root_dims();
    let (mut cw, mut ch) = (w, h);
    for (k, p) in path.iter().enumerate() {
        match p.in_bounds(cw, ch) {
            Some((l, t, r, b)) => {
                cw = r - l;
                ch = b - t;
            }
            None => {
                let Some((l, t, r, b)) = p.resolve(cw, ch) else { return false };
                // reversed with all bounds inside, or empty on some axis (l ≥ r
                // or t ≥ b) wherever it lies: no cell is addressed
                let inside = l <= cw as u64 && r <= cw as u64 && t <= ch as u64 && b <= ch as u64;
                let empty = l >= r || t >= b;
                return k + 1 == path.len() && ((inside && (l > r || t > b)) || empty);
            }
        }
    }
    false
}

fn model_view(st: &Store, path: &[Form]) -> Option<ViewModel> {
    let (w, h, stride) = st.root_dims();
    let mut cells: Vec<Vec<usize>> = (0..h).map(|y| (0..w).map(|x| (y * stride + x) as usize).collect()).collect();
    let (mut cw, mut ch) = (w, h);
    for p in path {
        let (l, t, r, b) = p.in_bounds(cw, ch)?;
        cells = (t..b).map(|y| (l..r).map(|x| cells[y as usize][x as usize]).collect()).collect();
        cw = r - l;
        ch = b - t;
    }
    Some(ViewModel { cells, w: cw, h: ch })
}

pub struct Hist {
    st: Store,
    model: Vec<u64>,
    next_id: u64,
    steps: u64,
}

fn jcase(root: &Root, path: &[Form], op: &Op) -> Json {
    Json::obj().set("root", format!("{root:?}")).set("path", format!("{path:?}")).set("op", format!("{op:?}"))
}

impl Hist {
    pub fn new(root: Root) -> Result<Self, String> {
        let st = Store::new(root.clone())?;
        // the model is initialised independently of the library: new_with
        // must have called its function with (x, y) in row-major order
        let model: Vec<u64> = match root {
            Root::Owned { w, h } => (0..h as u64).flat_map(|y| (0..w as u64).map(move |x| 1_000_000 + y * w as u64 + x)).collect(),
            Root::Direct { len, .. } => (0..len as u64).map(|i| 2_000_000 + i).collect(),
        };
        let mut hist = Hist { st, model, next_id: 1, steps: 0 };
        if hist.st.data() != &hist.model[..] {
            return Err(format!("initial contents differ from f(x, y) in row-major order: {:?}…", &hist.st.data()[..hist.st.data().len().min(6)]));
        }
        hist.steps = 0;
        Ok(hist)
    }

    /// Executes one operation through the mutable path (and, for reads, the
    /// immutable path too), judges result and store. Returns false on a
    /// violation.
    pub fn step(&mut self, rep: &mut Report, path: &[Form], op: &Op) -> bool {
        let root = self.st.root.clone();
        let vm = model_view(&self.st, path);
        let id0 = self.next_id;
        self.next_id += 1024;
        let opc = op.clone();
        let srck = self.steps;
        let mut exec = |v: &mut MutSlice2<u64>| -> Obs { exec_op!(v, opc.clone(), id0, srck) };
        // Owned roots: every other step operates on the Buf2 itself (empty
        // path) or takes the first hop with Buf2::slice_mut, instead of going
        // through as_mut_slice2() first
        let direct = self.steps % 2 == 1;
        self.steps += 1;
        let opc2 = op.clone();
        let mut exec_buf = |b: &mut Buf2<u64>| -> Obs { exec_op!(b, opc2.clone(), id0, srck) };
        let got = with_mut(&mut self.st, path, direct, &mut exec, &mut exec_buf);
        rep.count(&format!("op.{}", op_name(op)));
        rep.count(&format!("path.depth_{}", path.len()));
        for f in path {
            rep.count(&format!("form.{}", form_kind(f)));
        }
        if direct && matches!(root, Root::Owned { .. }) {
            rep.count(if path.is_empty() { "receiver.Buf2_itself" } else { "receiver.Buf2::slice_mut_first_hop" });
        }
        if let Some(vm) = &vm {
            if !path.is_empty() && (vm.w == 0 || vm.h == 0) {
                rep.count("view.zero_width_or_height(derived)");
            }
            if matches!(root, Root::Direct { .. }) && !path.is_empty() {
                rep.count("view.nested_slice_of_direct_root");
            }
        }
        if let Op::CopyFrom { dw, dh } = op {
            rep.count(if *dw == 0 && *dh == 0 { "copy_from.matching_dims" } else { "copy_from.mismatching_dims" });
        }

        // ---- expectation
        let fail = |rep: &mut Report, sig: &str, msg: String| {
            rep.violation(sig, msg, jcase(&root, path, op));
            false
        };
        if vm.is_none() && reversed_in_bounds_hop(&self.st, path) {
            // A range whose start lies beyond its end but whose bounds all lie
            // inside the view is not "an access outside the view's bounds":
            // the statement does not say it must panic. Accepted: a panic, or
            // an empty view (no cell addressed); either way nothing is written.
            rep.count("reversed_or_empty_slicing_addressing_no_cell(panic or empty view accepted)");
            let ro = with_ro(&self.st, path, &mut |v: &Slice2<u64>| v.dims());
            if let Ok((w, h)) = ro {
                if w != 0 && h != 0 {
                    return fail(rep, "buf.reversed_slice_not_empty", format!("slice() with a reversed in-bounds range returned a {w}x{h} view"));
                }
            }
            if let Ok(o) = &got {
                let empty = match o {
                    Obs::Shape(w, h, e, _, _) => (*w == 0 || *h == 0) && *e,
                    Obs::Val(v) => v.is_none(),
                    Obs::Rows(r) => r.iter().all(|x| x.is_empty()),
                    Obs::Flat(f) => f.is_empty(),
                    _ => true,
                };
                if !empty {
                    return fail(rep, "buf.reversed_slice_not_empty", format!("an operation on a view sliced with a reversed in-bounds range observed {o:?}"));
                }
            }
            return self.store_check(rep, &root, path, op);
        }
        let Some(vm) = vm else {
            rep.count("expected_panics.slice_out_of_bounds");
            // the immutable slicing path must reject it as well
            let ro = with_ro(&self.st, path, &mut |v: &Slice2<u64>| v.dims());
            if let Ok(d) = ro {
                return fail(rep, "buf.oob_slice_accepted", format!("slice() (immutable) outside the view's bounds did not panic (dims {d:?})"));
            }
            return match got {
                Err(_) => self.store_check(rep, &root, path, op),
                Ok(o) => fail(rep, "buf.oob_slice_accepted", format!("slicing outside the view's bounds did not panic (result {o:?})")),
            };
        };
        let (w, h) = (vm.w, vm.h);
        let m = &mut self.model;
        let cell = |x: u32, y: u32| vm.cells[y as usize][x as usize];
        let inb = |x: u32, y: u32| x < w && y < h;
        // expected observation (None = must panic); model writes applied here
        let mut unjudged = false;
        let exp: Option<Obs> = match *op {
            Op::Get(x, y) => Some(Obs::Val(inb(x, y).then(|| m[cell(x, y)]))),
            Op::GetMut(x, y) => Some(Obs::Val(inb(x, y).then(|| {
                m[cell(x, y)] = id0;
                id0
            }))),
            Op::IndexPt(x, y) => inb(x, y).then(|| Obs::Val(Some(m[cell(x, y)]))),
            Op::IndexPtMut(x, y) => inb(x, y).then(|| {
                m[cell(x, y)] = id0;
                Obs::Unit
            }),
            Op::IndexRow(y) => {
                if w == 0 && (y as u64) < h as u64 {
                    unjudged = true; // row indexing on a zero-width view: not specified
                    None
                } else {
                    ((y as u64) < h as u64).then(|| Obs::Row(vm.cells[y].iter().map(|&i| m[i]).collect()))
                }
            }
            Op::IndexRowMutWrite(y, x) => {
                if w == 0 && (y as u64) < h as u64 {
                    unjudged = true;
                    None
                } else {
                    ((y as u64) < h as u64).then(|| {
                        if x < w {
                            m[cell(x, y as u32)] = id0;
                        }
                        Obs::Dims(w, 0, false)
                    })
                }
            }
            Op::Rows => Some(Obs::Rows(vm.cells.iter().map(|r| r.iter().map(|&i| m[i]).collect()).collect())),
            Op::RowsMutWrite => {
                let mut k = 0;
                for r in &vm.cells {
                    for &i in r {
                        m[i] = id0 + k;
                        k += 1;
                    }
                }
                Some(Obs::Rows(vm.cells.iter().map(|r| vec![r.len() as u64]).collect()))
            }
            Op::Iter => Some(Obs::Flat(vm.cells.iter().flatten().map(|&i| m[i]).collect())),
            Op::IterMutWrite => {
                let mut k = 0;
                for r in &vm.cells {
                    for &i in r {
                        m[i] = id0 + k;
                        k += 1;
                    }
                }
                Some(Obs::Val(Some(k)))
            }
            Op::Fill => {
                for r in &vm.cells {
                    for &i in r {
                        m[i] = id0;
                    }
                }
                Some(Obs::Unit)
            }
            Op::FillWith => {
                for (y, r) in vm.cells.iter().enumerate() {
                    for (x, &i) in r.iter().enumerate() {
                        m[i] = id0 + y as u64 * (w as u64).max(1) + x as u64;
                    }
                }
                Some(Obs::Unit)
            }
            Op::CopyFrom { dw, dh } => {
                let (sw, sh) = ((w as i64 + dw as i64).max(0) as u32, (h as i64 + dh as i64).max(0) as u32);
                if (sw, sh) != (w, h) {
                    None // dimension mismatch must panic
                } else {
                    for (y, r) in vm.cells.iter().enumerate() {
                        for (x, &i) in r.iter().enumerate() {
                            m[i] = id0 + (y as u32 * (sw + 2) + x as u32 + 1) as u64;
                        }
                    }
                    Some(Obs::Unit)
                }
            }
            Op::Dims => {
                let (_, _, stride) = self.st.root_dims();
                // documented: contiguous iff width == stride, height ≤ 1, or empty
                Some(Obs::Shape(w, h, w == 0 || h == 0, stride, stride == w || h <= 1 || w == 0))
            }
        };
        if unjudged {
            rep.count("unjudged.row_index_on_zero_width_view");
            // whatever happened, it must not have written anything
            return self.store_check(rep, &root, path, op);
        }
        let zero_w_rows = w == 0 && matches!(op, Op::Rows | Op::RowsMutWrite);
        let ok = match (&got, &exp) {
            (Err(_), None) => {
                rep.count("expected_panics.access_out_of_bounds");
                true
            }
            (Ok(_), None) => return fail(rep, "buf.oob_access_accepted", format!("out-of-bounds access / mismatching copy did not panic: view {w}x{h}, got {got:?}")),
            (Err(e), Some(_)) => {
                return fail(
                    rep,
                    &format!("buf.in_bounds_{}_panicked", op_name(op)),
                    format!("in-bounds {} on a {w}x{h} view panicked: {e}", op_name(op)),
                )
            }
            (Ok(g), Some(e)) => {
                if zero_w_rows {
                    // zero-width views: at most height() rows, all empty
                    match g {
                        Obs::Rows(rows) => rows.len() <= h as usize && rows.iter().all(|r| r.is_empty() || r == &vec![0u64]),
                        _ => false,
                    }
                } else {
                    shape_norm(g) == shape_norm(e)
                }
            }
        };
        if !ok {
            return fail(
                rep,
                &format!("buf.{}_wrong_result", op_name(op)),
                format!("{} on a {w}x{h} view returned {:?}; the 2D-array model predicts {:?}", op_name(op), got.as_ref().ok(), exp.as_ref()),
            );
        }
        // reads must agree through the immutable path as well
        if matches!(op, Op::Get(..) | Op::IndexPt(..) | Op::IndexRow(..) | Op::Rows | Op::Iter | Op::Dims) {
            let opc = op.clone();
            let got_ro = with_ro(&self.st, path, &mut |v: &Slice2<u64>| match opc {
                Op::Get(x, y) => Obs::Val(v.get([x, y]).copied()),
                Op::IndexPt(x, y) => Obs::Val(Some(v[[x, y]])),
                Op::IndexRow(y) => Obs::Row(v[y].to_vec()),
                Op::Rows => Obs::Rows(v.rows().map(|r| r.to_vec()).collect()),
                Op::Iter => Obs::Flat(v.iter().copied().collect()),
                _ => Obs::Shape(v.width(), v.height(), v.is_empty(), v.stride(), v.is_contiguous()),
            });
            let same = match (&got, &got_ro) {
                (Ok(_), Ok(Obs::Rows(rows))) if zero_w_rows => rows.len() <= h as usize && rows.iter().all(|r| r.is_empty()),
                (Ok(a), Ok(b)) => shape_norm(a) == shape_norm(b),
                (Err(_), Err(_)) => true,
                _ => false,
            };
            if !same {
                return fail(rep, "buf.immutable_path_differs", format!("the same read through slice() gives {got_ro:?} but through slice_mut() gives {got:?}"));
            }
            rep.count("reads_cross_checked_through_immutable_path");
        }
        self.store_check(rep, &root, path, op)
    }

    /// After every operation the whole backing store must equal the model.
    fn store_check(&mut self, rep: &mut Report, root: &Root, path: &[Form], op: &Op) -> bool {
        let data = self.st.data();
        if data != &self.model[..] {
            let i = data.iter().zip(&self.model).position(|(a, b)| a != b).unwrap_or(0);
            let (_, _, stride) = self.st.root_dims();
            let msg = format!(
                "after {}: backing cell {i} (x={}, y={}) holds {} but the model holds {} — a write landed outside the addressed cells (or was lost)",
                op_name(op),
                if stride > 0 { i as u32 % stride } else { 0 },
                if stride > 0 { i as u32 / stride } else { 0 },
                data[i],
                self.model[i]
            );
            rep.violation(&format!("buf.{}_stray_or_lost_write", op_name(op)), msg, jcase(root, path, op));
            // resynchronise so that one defect does not cascade
            self.model = data.to_vec();
            return false;
        }
        rep.count("whole_store_comparisons");
        true
    }
}

fn op_name(op: &Op) -> &'static str {
    match op {
        Op::Get(..) => "get",
        Op::GetMut(..) => "get_mut",
        Op::IndexPt(..) => "index_point",
        Op::IndexPtMut(..) => "index_point_mut",
        Op::IndexRow(..) => "index_row",
        Op::IndexRowMutWrite(..) => "index_row_mut",
        Op::Rows => "rows",
        Op::RowsMutWrite => "rows_mut",
        Op::Iter => "iter",
        Op::IterMutWrite => "iter_mut",
        Op::Fill => "fill",
        Op::FillWith => "fill_with",
        Op::CopyFrom { .. } => "copy_from",
        Op::Dims => "dims",
    }
}

/// All ops once for a view of (w,h), including just-out-of-bounds ones.
fn all_ops(w: u32, h: u32) -> Vec<Op> {
    let mut v = vec![Op::Dims, Op::Rows, Op::Iter, Op::RowsMutWrite, Op::IterMutWrite, Op::Fill, Op::FillWith, Op::CopyFrom { dw: 0, dh: 0 }, Op::CopyFrom { dw: 1, dh: 0 }, Op::CopyFrom { dw: 0, dh: -1 }];
    for (x, y) in [(0, 0), (w.saturating_sub(1), h.saturating_sub(1)), (w, 0), (0, h), (w, h), (w / 2, h / 2), (u32::MAX, 0), (0, u32::MAX)] {
        v.push(Op::Get(x, y));
        v.push(Op::GetMut(x, y));
        v.push(Op::IndexPt(x, y));
        v.push(Op::IndexPtMut(x, y));
    }
    for y in [0usize, h.saturating_sub(1) as usize, h as usize, h as usize + 1, 1usize << 32, (1usize << 32) + h.saturating_sub(1) as usize, usize::MAX] {
        v.push(Op::IndexRow(y));
        v.push(Op::IndexRowMutWrite(y, 0));
        v.push(Op::IndexRowMutWrite(y, w.saturating_sub(1)));
    }
    v
}

fn rects_1d(n: u32) -> Vec<(u32, u32)> {
    let mut v = vec![];
    for l in 0..=n {
        for r in l..=n {
            v.push((l, r));
        }
    }
    v
}

/// A spelling for (l,t,r,b) in a view of (w,h), rotating through the forms
/// that can express it.
fn spell(l: u32, t: u32, r: u32, b: u32, w: u32, h: u32, k: u64) -> Form {
    let mut opts = vec![Form::Excl(l, t, r, b), Form::Vecs(l, t, r, b)];
    if r > l && b > t {
        opts.push(Form::Incl(l, t, r - 1, b - 1));
    }
    if l == 0 && t == 0 {
        opts.push(Form::To(r, b));
    }
    if r == w && b == h {
        opts.push(Form::From(l, t));
    }
    if (l, t, r, b) == (0, 0, w, h) {
        opts.push(Form::FullPair);
        opts.push(Form::Full);
    }
    if t == 0 && b == h {
        opts.push(Form::HOnly(l, r));
    }
    if l == 0 && r == w {
        opts.push(Form::VOnly(t, b));
    }
    if l == 0 && t == 0 && r > 0 && b > 0 {
        opts.push(Form::ToIncl(r - 1, b - 1));
    }
    if r > l {
        opts.push(Form::MixIE(l, t, r - 1, b));
    }
    if b > t {
        opts.push(Form::MixEI(l, t, r, b - 1));
    }
    if r == w && t == 0 {
        opts.push(Form::FromTo(l, b));
    }
    if l == 0 && b == h {
        opts.push(Form::ToFrom(r, t));
    }
    if l >= 1 && t >= 1 && b > t {
        opts.push(Form::Bounds(l - 1, t - 1, r, b - 1));
    }
    opts[(k % opts.len() as u64) as usize]
}

fn exhaustive_small(rep: &mut Report, w: u32, h: u32, r1: usize, rng: &mut Rng) {
    // r1 indexes the first-level rectangle; second level enumerated inside
    let hs = rects_1d(w);
    let vs = rects_1d(h);
    let (l1, rr1) = hs[r1 % hs.len()];
    let (t1, b1) = vs[r1 / hs.len()];
    let (w1, h1) = (rr1 - l1, b1 - t1);
    let Ok(mut hist) = Hist::new(Root::Owned { w, h }) else {
        rep.violation("buf.constructor_panicked", format!("Buf2::new_with(({w},{h})) panicked"), Json::obj().set("dims", format!("{w}x{h}")));
        return;
    };
    let mut k = rng.u64();
    let p1 = spell(l1, t1, rr1, b1, w, h, k);
    // level 0 ops once per (w,h): only when the first rect is the first one
    if r1 == 0 {
        for op in all_ops(w, h) {
            if !hist.step(rep, &[], &op) {
                return;
            }
        }
    }
    for op in all_ops(w1, h1) {
        if !hist.step(rep, &[p1], &op) {
            return;
        }
    }
    for (l2, r2) in rects_1d(w1) {
        for (t2, b2) in rects_1d(h1) {
            k = k.wrapping_add(1);
            let p2 = spell(l2, t2, r2, b2, w1, h1, k);
            let (w2, h2) = (r2 - l2, b2 - t2);
            for op in all_ops(w2, h2) {
                if !hist.step(rep, &[p1, p2], &op) {
                    return;
                }
            }
        }
    }
    // out-of-bounds slicings must panic; reversed in-bounds ones panic or
    // yield an empty view (see step)
    let mut bads = vec![
        Form::Excl(0, 0, w1 + 1, h1),
        Form::Excl(0, 0, w1, h1 + 1),
        Form::Excl(w1 + 1, 0, w1 + 1, h1),
        Form::Excl(0, h1 + 1, w1, h1 + 1),
        Form::Incl(0, 0, w1, h1.saturating_sub(1)),
        Form::Incl(0, 0, w1.saturating_sub(1), h1),
        Form::To(w1 + 1, h1),
        Form::To(w1, h1 + 1),
        Form::From(w1 + 1, 0),
        Form::From(0, h1 + 1),
        Form::Vecs(0, 0, w1, h1 + 1),
        Form::Vecs(0, 0, w1 + 1, h1),
        Form::Incl(0, 0, u32::MAX, 0),
        Form::Incl(0, 0, 0, u32::MAX),
        Form::HOnly(0, w1 + 1),
        Form::VOnly(0, h1 + 1),
        Form::ToIncl(w1, h1.saturating_sub(1)),
        Form::ToIncl(w1.saturating_sub(1), h1),
        Form::MixIE(0, 0, w1, h1),
        Form::MixEI(0, 0, w1, h1),
        Form::FromTo(w1 + 1, h1),
        Form::FromTo(0, h1 + 1),
        Form::ToFrom(w1 + 1, 0),
        Form::ToFrom(w1, h1 + 1),
        // excluded start at u32::MAX cannot be resolved
        Form::Bounds(u32::MAX, 0, w1, 0),
        Form::Bounds(0, u32::MAX, w1, 0),
        // excluded start w1 means left = w1 + 1 > right
        Form::Bounds(w1, 0, w1, h1),
        // out of bounds with a non-zero origin
        Form::Excl(1, 1, w1 + 1, h1.max(1)),
        Form::Excl(1, 1, w1.max(1), h1 + 1),
    ];
    #[allow(clippy::reversed_empty_ranges)]
    {
        if w1 >= 1 {
            bads.push(Form::Excl(w1, 0, w1 - 1, h1));
            bads.push(Form::Vecs(w1, 0, w1 - 1, h1));
            bads.push(Form::HOnly(w1, w1 - 1));
        }
        if h1 >= 1 {
            bads.push(Form::Excl(0, h1, w1, h1 - 1));
            bads.push(Form::Vecs(0, h1, w1, h1 - 1));
            bads.push(Form::VOnly(h1, h1 - 1));
        }
        if w1 >= 2 {
            // reversed inclusive: 2..=0 resolves to left 2 > right 1
            bads.push(Form::Incl(2, 0, 0, h1.saturating_sub(1)));
        }
    }
    for bad in bads {
        if bad.in_bounds(w1, h1).is_some() {
            continue; // (a spelling that happens to be valid for this size)
        }
        if !hist.step(rep, &[p1, bad], &Op::Dims) {
            return;
        }
    }
}

fn gen_form(rng: &mut Rng, w: u32, h: u32) -> Form {
    if rng.chance(1, 12) {
        // out of bounds
        let e = 1 + rng.below(3) as u32;
        let f = match rng.below(12) {
            0 => Form::Excl(0, 0, w + e, h),
            1 => Form::Excl(0, 0, w, h + e),
            2 => Form::From(w + e, 0),
            3 => Form::From(0, h + e),
            4 => Form::Incl(0, 0, w, h.saturating_sub(1)),
            5 => Form::Incl(0, 0, w.saturating_sub(1), h),
            6 => Form::Excl(w + e, 0, w + e, h),
            7 => Form::Excl(0, h + e, w, h + e),
            8 => Form::VOnly(0, h + e),
            9 => Form::HOnly(0, w + e),
            10 => Form::Vecs(rng.below(w as u64 + 1) as u32, 0, w + e, h),
            _ => Form::Bounds(u32::MAX, 0, w, 0),
        };
        return f;
    }
    let l = rng.below(w as u64 + 1) as u32;
    let r = l + rng.below((w - l) as u64 + 1) as u32;
    let t = rng.below(h as u64 + 1) as u32;
    let b = t + rng.below((h - t) as u64 + 1) as u32;
    let (l, r) = if rng.chance(1, 6) { (0, w) } else { (l, r) };
    let (t, b) = if rng.chance(1, 6) { (0, h) } else { (t, b) };
    spell(l, t, r, b, w, h, rng.u64())
}

fn gen_op(rng: &mut Rng, w: u32, h: u32) -> Op {
    let x = rng.below(w as u64 + 2) as u32;
    let y = rng.below(h as u64 + 2) as u32;
    match rng.below(16) {
        0 => Op::Get(x, y),
        1 => Op::GetMut(x, y),
        2 => Op::IndexPt(x, y),
        3 | 4 => Op::IndexPtMut(x, y),
        5 => Op::IndexRow(y as usize),
        6 => Op::IndexRowMutWrite(y as usize, x),
        7 => Op::Rows,
        8 => Op::RowsMutWrite,
        9 => Op::Iter,
        10 => Op::IterMutWrite,
        11 | 12 => Op::Fill,
        13 => Op::FillWith,
        14 => Op::CopyFrom { dw: if rng.chance(1, 5) { rng.int(-1, 1) as i32 } else { 0 }, dh: if rng.chance(1, 5) { rng.int(-1, 1) as i32 } else { 0 } },
        _ => Op::Dims,
    }
}

fn random_history(rng: &mut Rng, rep: &mut Report, idx: u64) {
    random_history_sized(rng, rep, idx, &[3, 6, 12, 24])
}

fn random_history_sized(rng: &mut Rng, rep: &mut Report, idx: u64, sizes: &[u32]) {
    let maxd = rng.pick(sizes);
    let (w, h) = (rng.below(maxd as u64 + 1) as u32, rng.below(maxd as u64 + 1) as u32);
    let root = if rng.chance(1, 3) {
        // direct construction: stride ≥ width, surplus backing data
        let stride = w + rng.below(4) as u32;
        let need = if w == 0 || h == 0 { 0 } else { ((h - 1) * stride + w) as usize };
        Root::Direct { w, h, stride, len: need + rng.below(6) as usize }
    } else {
        Root::Owned { w, h }
    };
    let mut hs = Hasher::new();
    hs.bytes(format!("{root:?}").as_bytes());
    let mut hist = match Hist::new(root.clone()) {
        Ok(h) => h,
        Err(m) => {
            rep.violation("buf.constructor_panicked", format!("constructor panicked for a valid shape: {m}"), Json::obj().set("root", format!("{root:?}")));
            return;
        }
    };
    // Direct roots: the constructor itself runs at every step; a root whose
    // constructor rejects valid dims shows up as in-bounds panics.
    let nops = rng.int(20, 120);
    let mut log: Vec<String> = vec![];
    for _ in 0..nops {
        // build a path of depth 0..3
        let depth = rng.below(4) as usize;
        let mut path = vec![];
        let (mut cw, mut ch) = (w, h);
        for _ in 0..depth {
            let f = gen_form(rng, cw, ch);
            path.push(f);
            match f.in_bounds(cw, ch) {
                Some((l, t, r, b)) => {
                    cw = r - l;
                    ch = b - t;
                }
                None => break,
            }
        }
        let op = gen_op(rng, cw, ch);
        hs.bytes(format!("{path:?}{op:?}").as_bytes());
        if log.len() < 6 {
            log.push(format!("{path:?} {op:?}"));
        }
        if !hist.step(rep, &path, &op) {
            break;
        }
    }
    rep.case(hs.get(), true);
    rep.count(match root {
        Root::Owned { .. } => "root.Buf2",
        Root::Direct { .. } => "root.MutSlice2::new(strided,surplus)",
    });
    if w == 0 || h == 0 {
        rep.count("root.zero_width_or_height");
    }
    if idx < 2 {
        rep.sample(|| Json::obj().set("root", format!("{root:?}")).set("first_ops", log.clone()));
    }
}

/// Constructors must reject exactly the shapes the data cannot hold.
fn constructor_case(rng: &mut Rng, rep: &mut Report) {
    let (w, h) = (rng.below(7) as u32, rng.below(7) as u32);
    let stride = rng.below(9) as u32;
    let len = rng.below(50) as usize;
    let mut hs = Hasher::new();
    hs.u64(w as u64).u64(h as u64).u64(stride as u64).u64(len as u64);
    rep.case(hs.get(), true);
    let need = if w == 0 || h == 0 { 0 } else { (h as usize - 1) * stride as usize + w as usize };
    let fits = w <= stride && need <= len;
    // "reject dimensions the data cannot hold": a view of at most one
    // non-empty row whose data does hold it (need ≤ len) although width >
    // stride is held by the data — the stride addresses nothing there — and
    // the documented contract rejects it: either outcome is accepted. Likewise
    // an empty view (no cell at all) may be accepted or rejected on its stride.
    let either = need <= len && ((w > stride && (h <= 1 || w == 0)) || w == 0 || h == 0);
    let data: Vec<u64> = (0..len as u64).collect();
    let r = catch(|| Slice2::new((w, h), stride, &data[..]).dims());
    let mut data2 = data.clone();
    let r2 = catch(|| MutSlice2::new((w, h), stride, &mut data2[..]).dims());
    rep.count("constructor.cases");
    let cj = || Json::obj().set("dims", format!("({w},{h})")).set("stride", stride).set("data_len", len);
    for (r, name) in [(r, "Slice2::new"), (r2, "MutSlice2::new")] {
        if either {
            rep.count("constructor.outcome_left_free(one-row or empty view)");
            if let Ok(d) = r {
                if d != (w, h) {
                    rep.violation("buf.constructor_wrong_dims", format!("{name} reports dims {d:?}"), cj());
                }
            }
            continue;
        }
        match (r, fits) {
            (Ok(d), true) => {
                if d != (w, h) {
                    rep.violation("buf.constructor_wrong_dims", format!("{name} reports dims {d:?}"), cj());
                }
            }
            (Err(_), false) => rep.count("expected_panics.constructor_rejects"),
            (Ok(_), false) => rep.violation("buf.constructor_accepts_too_small_data", format!("{name}(({w},{h}), {stride}, len {len}) accepted although the data cannot hold it (needs {need}, width ≤ stride: {})", w <= stride), cj()),
            (Err(m), true) => rep.violation("buf.constructor_rejects_valid", format!("{name}(({w},{h}), {stride}, len {len}) panicked although the data holds the view (needs {need}): {m}"), cj()),
        }
    }
    // Dimensions whose size arithmetic wraps in 32 bits must be rejected
    // over small data, whatever the stride (no large allocation involved).
    if rng.chance(1, 8) {
        const BIG: [u32; 6] = [0xFFFF, 0x1_0000, 0x1_0001, 0x7FFF_FFFF, 0x8000_0000, u32::MAX];
        let (bw, bh, bs) = match rng.below(4) {
            0 => (rng.pick(&[1u32, 2, 3]), rng.pick(&BIG), rng.pick(&BIG)),
            1 => (rng.pick(&BIG), rng.pick(&[2u32, 3, 5]), rng.pick(&BIG)),
            2 => (rng.pick(&BIG), rng.pick(&BIG), u32::MAX),
            _ => (2, 0x1_0001, 0x1_0000), // (h-1)*stride + w = 2^32 + 2
        };
        let need = (bh as u128 - 1) * bs as u128 + bw as u128;
        if bw <= bs && need > len as u128 {
            rep.count("constructor.must_reject_huge_dims");
            let r = catch(|| Slice2::new((bw, bh), bs, &data[..]).dims());
            let mut d3 = data.clone();
            let r2 = catch(|| MutSlice2::new((bw, bh), bs, &mut d3[..]).dims());
            for (r, name) in [(r, "Slice2::new"), (r2, "MutSlice2::new")] {
                if r.is_ok() {
                    rep.violation("buf.constructor_accepts_too_small_data", format!("{name}(({bw},{bh}), stride {bs}, len {len}) accepted although the view needs {need} elements"), Json::obj().set("dims", format!("({bw},{bh})")).set("stride", bs).set("data_len", len));
                }
            }
        }
        // w*h beyond isize must be refused before anything is allocated
        let r = catch(|| Buf2::new_from((u32::MAX, u32::MAX), std::iter::repeat(0u8)).dims());
        if cfg!(target_pointer_width = "64") {
            // 2^64 - 2^33 + 1 > isize::MAX
            if r.is_ok() {
                rep.violation("buf.constructor_accepts_too_small_data", "Buf2::new_from((u32::MAX, u32::MAX), ..) returned".into(), Json::obj());
            }
        }
    }
    // contents: new_from takes the items in row-major order, new is all default
    {
        let b = catch(|| {
            let b = Buf2::new_from((w, h), 100u64..);
            (b.dims(), b.data().to_vec(), b.stride(), b.is_contiguous())
        });
        let n = (w * h) as u64;
        match b {
            Ok((d, v, st, cont)) => {
                rep.count("constructor.contents_checked");
                let shape_ok = h < 2 || w == 0 || st == w;
                let _ = cont;
                if d != (w, h) || !shape_ok || v != (100..100 + n).collect::<Vec<u64>>() {
                    rep.violation("buf.constructor_wrong_contents", format!("Buf2::new_from(({w},{h}), 100..): dims {d:?} stride {st} contiguous {cont}, data {:?}…", &v[..v.len().min(8)]), cj());
                }
            }
            Err(m) => rep.violation("buf.constructor_rejects_valid", format!("Buf2::new_from(({w},{h}), 100..) panicked: {m}"), cj()),
        }
        let b = catch(|| {
            let b: Buf2<u64> = Buf2::new((w, h));
            (b.dims(), b.data().to_vec())
        });
        match b {
            Ok((d, v)) => {
                if d != (w, h) || v.len() as u64 != n || v.iter().any(|x| *x != 0) {
                    rep.violation("buf.constructor_wrong_contents", format!("Buf2::new(({w},{h})): dims {d:?}, {} elements, all default: {}", v.len(), v.iter().all(|x| *x == 0)), cj());
                }
            }
            Err(m) => rep.violation("buf.constructor_rejects_valid", format!("Buf2::new(({w},{h})) panicked: {m}"), cj()),
        }
        // data_mut writes through to what data() and the views see
        let r = catch(|| {
            let mut b = Buf2::new_with((w, h), |x, y| (y * w + x) as u64);
            for c in b.data_mut().iter_mut() {
                *c += 5;
            }
            let via_view: Vec<u64> = b.as_slice2().iter().copied().collect();
            let via_trait: Vec<u64> = AsSlice2::as_slice2(&&b).iter().copied().collect();
            (b.data().to_vec(), via_view, via_trait)
        });
        if let Ok((a, b, c)) = r {
            let e: Vec<u64> = (5..5 + n).collect();
            if a != e || b != e || c != e {
                rep.violation("buf.constructor_wrong_contents", format!("new_with + data_mut: data {:?}… view {:?}…", &a[..a.len().min(6)], &b[..b.len().min(6)]), cj());
            }
        }
    }
    // Buf2::new_from with too few / enough items
    let items = rng.below(40) as usize;
    let r3 = catch(|| Buf2::new_from((w, h), 0..items as u64).dims());
    match (r3, items >= (w * h) as usize) {
        (Ok(_), true) | (Err(_), false) => {}
        (Ok(_), false) => rep.violation("buf.constructor_accepts_too_small_data", format!("Buf2::new_from(({w},{h}), {items} items) accepted"), cj()),
        (Err(m), true) => rep.violation("buf.constructor_rejects_valid", format!("Buf2::new_from(({w},{h}), {items} items) panicked: {m}"), cj()),
    }
}

fn pin_case(root: Root, path: &[Form], op: Op) -> Result<(), String> {
    let mut r2 = Report::new();
    let mut h = Hist::new(root)?;
    h.step(&mut r2, path, &op);
    match r2.violations.values().next() {
        None => Ok(()),
        Some(v) => Err(v.firsts[0].detail.clone()),
    }
}

pub fn run(cfg: &Cfg, rep: &mut Report) {
    rep.rule = "case = one history: a root (Buf2, or MutSlice2::new with stride ≥ width and surplus data) and a sequence of (slicing path, operation) steps; every step re-derives the view from the root through slice_mut (reads also through slice; owned roots alternately as the receiver itself / Buf2::slice_mut for the first hop / as_mut_slice2 / the AsMutSlice2 trait), 15 range spellings incl. mixed inclusive/exclusive axes and explicit Bound pairs with an excluded start, copy_from sources of five kinds, and the whole backing store is compared with the model after every step; exhaustive part: all dims ≤ 4x4 incl. 0 × all first-level sub-rectangles × all second-level sub-rectangles × every operation incl. just-out-of-bounds arguments, range spellings rotated; random part: 20..120 steps on buffers ≤ 24x24, paths up to depth 3; distinct by hash of the history".into();
    rep.assumptions.push("row indexing view[y] on a zero-width view is neither required nor forbidden by the property: counted, not judged (only 'must not write' is asserted)".into());
    rep.assumptions.push("the harness uses no unsafe code; the store is compared between operations, when no view borrows it".into());
    rep.assumptions.push("'constructors reject dimensions the data cannot hold' is read with the library's documented contract: width > stride is rejected for every height; a view of zero width or height needs no data at all".into());
    rep.assumptions.push("buffers with more than 2^32 elements (where the library's 32-bit index arithmetic would wrap) are outside the quantifier ('buffers up to a small size') and are not driven".into());

    // pinned witnesses
    rep.pin("F2a.rows_surplus_backing", pin_case(Root::Direct { w: 2, h: 2, stride: 3, len: 7 }, &[], Op::Rows));
    rep.pin("F2a.rows_surplus_backing_9", pin_case(Root::Direct { w: 2, h: 2, stride: 3, len: 9 }, &[], Op::Rows));
    rep.pin("F2b.fill_surplus_backing", pin_case(Root::Direct { w: 2, h: 2, stride: 2, len: 6 }, &[], Op::Fill));
    rep.pin("F2b.fill_empty_slice_overwrites_parent", pin_case(Root::Owned { w: 4, h: 5 }, &[Form::Excl(1, 1, 1, 3)], Op::Fill));
    rep.pin("F2c.empty_slice_in_bounds_1", pin_case(Root::Owned { w: 3, h: 3 }, &[Form::Excl(1, 0, 1, 1)], Op::Dims));
    rep.pin("F2c.empty_slice_in_bounds_2", pin_case(Root::Owned { w: 3, h: 3 }, &[Form::Excl(3, 2, 3, 3)], Op::Dims));
    rep.pin("F2c.empty_slice_in_bounds_3", pin_case(Root::Owned { w: 3, h: 3 }, &[Form::Excl(0, 3, 3, 3)], Op::Dims));
    rep.pin("F2d.rows_of_empty_buffer", pin_case(Root::Owned { w: 0, h: 0 }, &[], Op::Rows));
    rep.pin("F12.inclusive_end_wraps_in_release", pin_case(Root::Owned { w: 0, h: 1 }, &[Form::Incl(0, 0, u32::MAX, 0)], Op::Dims));
    rep.pin("F11.row_index_truncated_to_u32", pin_case(Root::Owned { w: 2, h: 2 }, &[], Op::IndexRow(1usize << 32)));

    // Stream 0: exhaustive small
    let maxd = if cfg.quick() { 3u32 } else { 4 };
    let mut combos: Vec<(u32, u32, usize)> = vec![];
    for w in 0..=maxd {
        for h in 0..=maxd {
            let n = rects_1d(w).len() * rects_1d(h).len();
            for r1 in 0..n {
                combos.push((w, h, r1));
            }
        }
    }
    rep.run_stream(cfg, 0, "exhaustive_small", combos.len() as u64, |rng, i, rep| {
        let (w, h, r1) = combos[i as usize];
        let mut hs = Hasher::new();
        hs.u64(w as u64).u64(h as u64).u64(r1 as u64);
        rep.case(hs.get(), true);
        exhaustive_small(rep, w, h, r1, rng);
    });
    rep.exhaustive.push(format!("all buffer dims 0..={maxd} x 0..={maxd}, all first- and second-level sub-rectangles, every operation with in-bounds and just-out-of-bounds arguments"));
    // Stream 1: random histories
    rep.run_stream(cfg, 1, "random_histories", cfg.n(60_000, 6_000_000), |rng, i, rep| random_history(rng, rep, i));
    // Stream 2: constructors
    rep.run_stream(cfg, 2, "constructors", cfg.n(100_000, 5_000_000), |rng, _, rep| constructor_case(rng, rep));

    rep.floor("whole_store_comparisons", 1_000_000);
    rep.floor("expected_panics.slice_out_of_bounds", 10_000);
    rep.floor("expected_panics.access_out_of_bounds", 100_000);
    rep.floor("expected_panics.constructor_rejects", 10_000);
    rep.floor("root.MutSlice2::new(strided,surplus)", 10_000);
    rep.floor("root.zero_width_or_height", 2_000);
    rep.floor("reads_cross_checked_through_immutable_path", 100_000);
    for f in ["Excl", "Incl", "To", "From", "FullPair", "Full", "Vecs", "HOnly", "VOnly", "ToIncl", "MixIE", "MixEI", "FromTo", "ToFrom", "Bounds(excluded start)"] {
        rep.floor(&format!("form.{f}"), 5_000);
    }
    for d in 0..=3 {
        rep.floor(&format!("path.depth_{d}"), 50_000);
    }
    rep.floor("receiver.Buf2_itself", 20_000);
    rep.floor("receiver.Buf2::slice_mut_first_hop", 50_000);
    rep.floor("view.zero_width_or_height(derived)", 50_000);
    rep.floor("view.nested_slice_of_direct_root", 20_000);
    rep.floor("copy_from.mismatching_dims", 5_000);
    rep.floor("constructor.must_reject_huge_dims", 1_000);
    rep.floor("constructor.contents_checked", 10_000);
    for op in ["get", "get_mut", "index_point", "index_point_mut", "index_row", "index_row_mut", "rows", "rows_mut", "iter", "iter_mut", "fill", "fill_with", "copy_from", "dims"] {
        rep.floor(&format!("op.{op}"), 20_000);
    }
}

/// Reduced workload for Miri: a few random histories on buffers ≤ 6x6 and
/// one exhaustive small configuration.
pub fn mini(rng: &mut Rng, n: usize, rep: &mut Report) {
    for i in 0..n {
        random_history_sized(rng, rep, 1_000_000 + i as u64, &[2, 3, 6]);
    }
    exhaustive_small(rep, 2, 2, rng.usize(9), rng);
}
