//! rfmon: runtime monitors for retrofire properties C01..C19 (C20 lives in
//! ../fpcfg because it is built once per floating-point backend).
//! The toolkit (PRNG, JSON, report/coverage accounting, panic capture,
//! sharded workload runner, f64 geometry, GF(2) algebra) is the `rftk` crate.

pub use rftk::*;
pub use rftk::{geo, gf2, json, report, rng};

pub mod mon;
