//! rfmon: see rftk::cli for the command line.

fn main() {
    rftk::cli::run("rfmon", rfmon::mon::lookup);
}
