#!/bin/bash
# usage: try_sed.sh <file-relative-to-/repo> <sed-expr> <prop> [tier]
# Applies a one-line mutation to /repo, runs the rel+chk monitor directly (no evidence), restores.
set -u
f=$1; expr=$2; prop=$3; tier=${4:-quick}
cd /repo || exit 9
if ! git diff --quiet; then echo "/repo dirty, refusing"; exit 9; fi
sed -i "$expr" "$f"
if git diff --quiet; then echo "MUTATION DID NOT APPLY"; exit 8; fi
git --no-pager diff --stat | tail -1
cd /verif/harness && CARGO_TARGET_DIR=/verif/target RUSTFLAGS="-Awarnings --cfg retrofire_verif" cargo build --profile chk --offline > /tmp/mut_build.log 2>&1 || { grep -E "^error" -A6 /tmp/mut_build.log | head -20; echo "BUILD FAILED"; cd /repo && git checkout -- .; exit 7; }
/verif/target/chk/rfmon $prop --tier $tier --out /tmp/mut.json | grep -v "^  class" | head -${LINES_MAX:-12}
cd /repo && git checkout -- . 
