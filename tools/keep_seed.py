#!/usr/bin/env python3
"""keep_seed.py <seed-dir> <name>: copies a confirmed seed into /verif/seeded/<name>/ with merged meta."""
import json, os, shutil, sys
src, name = sys.argv[1], sys.argv[2]
dst = os.path.join('/verif/seeded', name)
os.makedirs(dst, exist_ok=True)
for f in ('patch.diff', 'demo.rs'):
    shutil.copy(os.path.join(src, f), os.path.join(dst, f))
meta = json.load(open(os.path.join(src, 'meta.json')))
ev = json.load(open(os.path.join(src, 'eval.json')))
conf = next((e for e in ev if 'confirmed' in e), {})
checks = {}
for e in ev:
    for p, r in e.get('checks', {}).items():
        checks[p] = {"exit": r["exit"], "signatures": r["signatures"], "tier": "quick", "evaluated": e["time"]}
out = {
    "id": name,
    "breaks_property": meta["property"],
    "summary": meta.get("summary"),
    "needs_to_manifest": meta.get("needs_to_manifest"),
    "demo_location": meta.get("demo_location"),
    "files_changed": meta.get("files_changed"),
    "origin": "independent sub-agent given only the property text and a scratch worktree",
    "confirmed_by_us": {
        "demo_passes_on_unchanged_tree": conf.get("demo_passes_unchanged"),
        "existing_suite_passes_with_patch": conf.get("suite_with_patch"),
        "demo_fails_with_patch": conf.get("demo_fails_with_patch"),
        "how": "tools/eval_seed.py: scratch worktree under /tmp, cargo test --workspace --offline, then the demo as an integration test",
    },
    "our_checks_against_it": checks,
    "caught_by": sorted(p for p, r in checks.items() if r["exit"] == 1),
    "own_property_check_catches_it": checks.get(meta["property"], {}).get("exit") == 1,
    "other_checks_silent": sorted(p for p, r in checks.items() if r["exit"] != 1 and p != meta["property"]),
}
out["evaluations_in_order"] = [
    {"time": e["time"], "check": p, "exit": r["exit"], "signatures": r["signatures"]}
    for e in ev for p, r in e.get("checks", {}).items()
]
old_meta = os.path.join(dst, 'meta.json')
if os.path.exists(old_meta):
    prev = json.load(open(old_meta))
    for k in ("history", "rebased"):
        if k in prev:
            out[k] = prev[k]
json.dump(out, open(os.path.join(dst, 'meta.json'), 'w'), indent=1)
print(name, "caught_by", out["caught_by"], "own:", out["own_property_check_catches_it"])
