#!/usr/bin/env python3
"""Prints the prompt for a sub-agent asked for property-PRESERVING changes
(the other half of validation: the checks must stay silent on them).
Property text only, nothing from /verif."""
import json, sys
pid = sys.argv[1]
wt = sys.argv[2]
out = sys.argv[3]
extra = sys.argv[4] if len(sys.argv) > 4 else ""
for l in open('/verif/properties.jsonl'):
    p = json.loads(l)
    if p['id'] == pid:
        break
print(f"""You are working on a Rust project called retrofire (a no_std software 3D renderer: workspace crates `core` (retrofire-core), `geom` (retrofire-geom), `front`, `demos`). You have your own scratch git worktree of it at {wt} — work ONLY there (never touch /repo or /verif, never use `git stash`). No network is available; use `--offline` with cargo and set CARGO_TARGET_DIR={wt}/target for every cargo command.

Here is a semantic property that the code base satisfies:

TITLE: {p['title']}

STATEMENT: {p['statement']}

IT MUST HOLD FOR: {p['quantifier']['text']}

Relevant source files: {', '.join(p['anchors']['files'])}

YOUR TASK: produce THREE independent changes to the library source code (not to tests), each of which CHANGES THE OBSERVABLE LOW-LEVEL BEHAVIOUR of the code the property is about while the property, exactly as stated above, STILL HOLDS. Think of what a maintainer does in ordinary development: a refactoring, an optimisation, another but equally valid algorithm, a different order of floating-point operations (results differ in the last bits), a different but equally legitimate choice wherever the statement leaves freedom (tie-breaking inside a tolerance band the statement exempts, which triangulation a clipped polygon gets, which of several valid error values or panics/None is used where the statement allows either, what happens for inputs outside the statement's stated domain, output vertex order where only the set matters, internal capacity or layout, extra validation that rejects only what the statement allows rejecting, performance fast paths). Be bold: the more the bits of the results differ while the statement stays true, the more useful the change. Read the statement closely for every freedom it leaves and use a different freedom in each of the three changes. Each change must compile and the existing test suite must still pass unchanged (`cargo test --workspace --offline`). Do NOT weaken the behaviour the statement requires: if any input covered by the statement would now violate it, the change is useless. {extra}

For each change k = 1, 2, 3: start from a clean worktree (`git checkout -- .`), make the change, run the test suite, write `git diff` to the file, then revert.

DELIVERABLES (write them to {out}/):
 1. {out}/patch1.diff, {out}/patch2.diff, {out}/patch3.diff — `git diff` of each change relative to the worktree's HEAD, each applicable on its own with `git apply` from the repository root.
 2. {out}/meta.json — a JSON object with key "property" ("{pid}") and key "variants": a list of three objects with keys "patch" (file name), "summary" (what the change does), "behaviour_that_differs" (what an observer of the API can see differ from before: which outputs, by how much), "why_property_still_holds" (a careful argument against the statement's wording), "files_changed", "commands_run" (cargo commands and outcome).
When finished, reply with a short summary of the three changes. Keep each change small to moderate (a few to a few dozen lines).""")
