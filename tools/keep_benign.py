#!/usr/bin/env python3
"""keep_benign.py <dir>...: copies property-preserving variants (patches, the
sub-agent's meta.json, our eval.json / cross.json) into /verif/benign/<Cxx>/
and prints a summary table (latest result per patch and check).
BENIGN_SUFFIX=-r2 keeps a later round beside the first."""
import glob, json, os, shutil, sys
rows = []
for src in sys.argv[1:]:
    meta = json.load(open(os.path.join(src, 'meta.json')))
    prop = meta['property']
    dst = os.path.join('/verif/benign', prop + os.environ.get('BENIGN_SUFFIX', ''))
    os.makedirs(dst, exist_ok=True)
    for f in glob.glob(os.path.join(src, 'patch*.diff')) + [os.path.join(src, n) for n in ('meta.json', 'eval.json', 'cross.json')]:
        if os.path.exists(f):
            shutil.copy(f, dst)
    ev = json.load(open(os.path.join(src, 'eval.json'))) if os.path.exists(os.path.join(src, 'eval.json')) else []
    cr = json.load(open(os.path.join(src, 'cross.json'))) if os.path.exists(os.path.join(src, 'cross.json')) else []
    for k, v in enumerate(meta.get('variants', []), 1):
        name = 'patch%d.diff' % k
        conf = [e for e in ev if e['patch'] == name and 'confirmed' in e]
        own = [e for e in ev if e['patch'] == name and 'checks' in e]
        cross = [e for e in cr if e['patch'] == name]
        first_own = own[0]['checks'][prop]['exit'] if own else None
        last_own = own[-1]['checks'][prop]['exit'] if own else None
        first_cross = cross[0]['alarms'] if cross else []
        last_cross = cross[-1]['alarms'] if cross else []
        others = sorted(cross[-1]['checks'].keys()) if cross else []
        rows.append((prop, name, (v.get('summary') or '')[:110].replace('|', '/'), bool(conf and conf[-1]['confirmed']), first_own, last_own, others, first_cross, last_cross))
print('| variant | change | own check: first → now | other checks run | other alarms: first → now |')
print('|---|---|---|---|---|')
v = {0: 'silent', 1: 'ALARM', 2: 'inconclusive', None: '-'}
for r in rows:
    print('| %s/%s | %s | %s → %s | %s | %s → %s |' % (r[0], r[1].replace('.diff', ''), r[2], v[r[4]], v[r[5]], ' '.join(r[6]) or '-', ','.join(r[7]) or 'none', ','.join(r[8]) or 'none'))
