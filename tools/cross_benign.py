#!/usr/bin/env python3
"""Runs, against each property-preserving variant, the quick checks of every
OTHER property anchored in the files it touches (render pipeline files: all of
C01..C08). An alarm here is not automatically a false alarm — the variant was
only argued to preserve its own property — so everything is recorded for a
human look.

  cross_benign.py <dir>... [--tier quick]
Appends to <dir>/cross.json. Never run while a background check runs.
"""
import glob
import json
import os
import subprocess
import sys
import time

REPO, VERIF = "/repo", "/verif"
PIPE = ["C01", "C02", "C03", "C04", "C05", "C06", "C07", "C08"]


def sh(cmd, cwd=None):
    p = subprocess.run(cmd, cwd=cwd, stdout=subprocess.PIPE, stderr=subprocess.STDOUT, text=True, errors="replace")
    return p.returncode, p.stdout


def anchors():
    m = {}
    for l in open(os.path.join(VERIF, "properties.jsonl")):
        p = json.loads(l)
        for f in p["anchors"]["files"]:
            m.setdefault(f, set()).add(p["id"])
    return m


def main():
    dirs = [a for a in sys.argv[1:] if not a.startswith("--")]
    tier = "quick"
    anc = anchors()
    na = set(json.load(open(os.path.join(VERIF, "MANIFEST.json"))).get("not_applicable_ids", [])) | {"C10"}
    assert sh(["git", "diff", "--quiet"], REPO)[0] == 0, "/repo dirty"
    for d in dirs:
        d = os.path.abspath(d)
        meta = json.load(open(os.path.join(d, "meta.json")))
        own = meta["property"]
        hist = os.path.join(d, "cross.json")
        prev = json.load(open(hist)) if os.path.exists(hist) else []
        for patch in sorted(glob.glob(os.path.join(d, "patch*.diff"))):
            files = [l[6:].strip() for l in open(patch) if l.startswith("+++ b/")]
            props = set()
            for f in files:
                props |= anc.get(f, set())
                if f.startswith("core/src/render") or f in ("core/src/math/mat.rs", "core/src/math/vary.rs", "core/src/math.rs"):
                    props |= set(PIPE)
            props -= na
            props.discard(own)
            res = {"patch": os.path.basename(patch), "own": own, "files": files, "time": time.strftime("%Y-%m-%d %H:%M:%S"), "checks": {}}
            rc, out = sh(["git", "apply", patch], REPO)
            if rc != 0:
                res["apply_failed"] = out[-300:]
            else:
                try:
                    for p in sorted(props):
                        t0 = time.time()
                        rc, out = sh([os.path.join(VERIF, "check"), p, tier], VERIF)
                        lines = out.splitlines()
                        res["checks"][p] = {"exit": rc,
                                            "signatures": sorted({l.strip().split("signature=")[1] for l in lines if "violation signature=" in l}),
                                            "violations": [l for l in lines if l.startswith("VIOLATION")][:2],
                                            "details": [l.strip() for l in lines if l.startswith("  ") and "at stream=" in l][:4],
                                            "inconclusive": [l for l in lines if l.startswith("INCONCLUSIVE")][:2],
                                            "wall_s": round(time.time() - t0, 1)}
                finally:
                    sh(["git", "checkout", "--", "."], REPO)
            res["alarms"] = sorted(p for p, r in res["checks"].items() if r["exit"] != 0)
            print(os.path.basename(d), res["patch"], "checked", sorted(props), "ALARMS" if res["alarms"] else "silent", res["alarms"], flush=True)
            prev.append(res)
            json.dump(prev, open(hist, "w"), indent=1)


if __name__ == "__main__":
    main()
