#!/usr/bin/env python3
import json, glob, os
rows = []
for d in sorted(glob.glob('/verif/seeded/*/meta.json')):
    m = json.load(open(d))
    own = m['breaks_property']
    chk = m['our_checks_against_it'].get(own, {})
    rows.append((m['id'], own, (m['summary'] or '').replace('\n', ' ')[:230], (m['needs_to_manifest'] or '').replace('\n', ' ')[:200], 'yes' if chk.get('exit') == 1 else 'NO', ', '.join(chk.get('signatures', [])[:3]), ', '.join(p for p in m['caught_by'] if p != own)))
print('| seed | breaks | change | needs | caught by own check (quick) | signatures | also caught by |')
print('|---|---|---|---|---|---|---|')
for r in rows:
    print('| ' + ' | '.join(r) + ' |')
