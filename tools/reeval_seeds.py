#!/usr/bin/env python3
"""Re-runs the quick check of its own property against every kept seed
(git -C /repo apply → ./check → git -C /repo checkout -- .), prints a table
and records the result in each meta.json under `latest_reevaluation`.
Never run this while a background check is running (vp run uses /repo)."""
import json, os, subprocess, sys, time
VERIF, REPO = "/verif", "/repo"
only = set(sys.argv[1:])
rows = []
assert subprocess.run(["git", "diff", "--quiet"], cwd=REPO).returncode == 0, "/repo has uncommitted changes"
for name in sorted(os.listdir(os.path.join(VERIF, "seeded"))):
    d = os.path.join(VERIF, "seeded", name)
    if only and name not in only and name.split("-")[0] not in only:
        continue
    meta = json.load(open(os.path.join(d, "meta.json")))
    prop = meta["breaks_property"]
    patch = os.path.join(d, "patch.diff")
    if subprocess.run(["git", "apply", "--check", patch], cwd=REPO).returncode != 0:
        rows.append((name, prop, "patch does not apply", []))
        continue
    subprocess.run(["git", "apply", patch], cwd=REPO, check=True)
    try:
        p = subprocess.run([os.path.join(VERIF, "check"), prop, "quick"], cwd=VERIF, stdout=subprocess.PIPE, stderr=subprocess.STDOUT, text=True, errors="replace")
        sigs = sorted({l.strip().split("signature=")[1].split()[0] for l in p.stdout.splitlines() if "violation signature=" in l})
        rc = p.returncode
    finally:
        subprocess.run(["git", "checkout", "--", "."], cwd=REPO, check=True)
    rows.append((name, prop, {0: "MISSED (exit 0)", 1: "caught", 2: "INCONCLUSIVE"}.get(rc, str(rc)), sigs))
    meta["latest_reevaluation"] = {"time": time.strftime("%Y-%m-%d %H:%M:%S"), "exit": rc, "signatures": sigs}
    json.dump(meta, open(os.path.join(d, "meta.json"), "w"), indent=1)
    print(name, prop, rows[-1][2], sigs[:3], flush=True)
bad = [r for r in rows if r[2] != "caught"]
print("%d seeds, %d caught, not caught: %s" % (len(rows), len(rows) - len(bad), [(r[0], r[2]) for r in bad]))
# evidence files now hold runs against patched trees: restore them
subprocess.run(["git", "checkout", "--", "evidence"], cwd=VERIF)
