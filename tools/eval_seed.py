#!/usr/bin/env python3
"""Confirms a seeded change and runs the registered checks against it.

  eval_seed.py <seed-dir> [--props C01,C05] [--tier quick] [--skip-confirm]

1. confirmation in a scratch worktree outside /repo and /verif:
   unchanged tree: the demo passes; with the patch: the existing suite
   passes, the demo fails;
2. `git -C /repo apply patch`, run ./check <prop> <tier> for each property,
   `git -C /repo checkout -- .` straight afterwards.
Prints a JSON summary and appends it to <seed-dir>/eval.json.
"""
import json
import os
import shutil
import subprocess
import sys
import time

REPO = "/repo"
VERIF = "/verif"


def sh(cmd, cwd=None, env=None, timeout=3600):
    p = subprocess.run(cmd, cwd=cwd, env=env, stdout=subprocess.PIPE, stderr=subprocess.STDOUT, text=True, timeout=timeout, errors="replace")
    return p.returncode, p.stdout


def suite_summary(out):
    ok = failed = 0
    for l in out.splitlines():
        if l.startswith("test result:"):
            parts = l.split()
            ok += int(parts[3])
            failed += int(parts[5])
    return ok, failed


def main():
    a = sys.argv[1:]
    seed = os.path.abspath(a[0])
    props = None
    tier = "quick"
    skip = False
    confirm_only = False
    i = 1
    while i < len(a):
        if a[i] == "--props":
            props = a[i + 1].split(",")
            i += 1
        elif a[i] == "--tier":
            tier = a[i + 1]
            i += 1
        elif a[i] == "--skip-confirm":
            skip = True
        elif a[i] == "--confirm-only":
            confirm_only = True
        i += 1
    meta = json.load(open(os.path.join(seed, "meta.json")))
    meta.setdefault("property", meta.get("breaks_property"))
    props = props or [meta["property"]]
    patch = os.path.join(seed, "patch.diff")
    meta.setdefault("property", meta.get("breaks_property"))
    res = {"seed": os.path.basename(seed), "property": meta["property"], "time": time.strftime("%Y-%m-%d %H:%M:%S")}
    rc, _ = sh(["git", "status", "--porcelain"], cwd=REPO)
    rc, out = sh(["git", "diff", "--quiet"], cwd=REPO)
    if rc != 0 and not confirm_only:
        print("/repo has uncommitted changes; refusing")
        return 2
    if not skip:
        wt = "/tmp/evalwt-%s" % os.path.basename(seed)
        sh(["git", "worktree", "remove", "--force", wt], cwd=REPO)
        rc, out = sh(["git", "worktree", "add", "--detach", wt, "HEAD"], cwd=REPO)
        env = dict(os.environ, CARGO_TARGET_DIR=os.path.join(wt, "target"), CARGO_NET_OFFLINE="true")
        try:
            loc = meta.get("demo_location", "core/tests/demo.rs")
            crate_dir = loc.split("/")[0]
            pkg = {"core": "retrofire-core", "geom": "retrofire-geom"}.get(crate_dir, "retrofire-core")
            test_name = os.path.splitext(os.path.basename(loc))[0]
            if test_name != "demo":
                loc = os.path.join(os.path.dirname(loc), "demo.rs")
                test_name = "demo"
            feats = ["--features", "std"]
            dca = meta.get("demo_cargo_args")
            if dca:
                toks = dca.split() if isinstance(dca, str) else list(dca)
                if "--no-default-features" in toks:
                    feats = ["--no-default-features"]
                if "--features" in toks:
                    feats = feats + ["--features", toks[toks.index("--features") + 1]] if "--no-default-features" in toks else ["--features", toks[toks.index("--features") + 1]]
            dst = os.path.join(wt, loc)
            os.makedirs(os.path.dirname(dst), exist_ok=True)
            # (1) unchanged: demo passes
            shutil.copy(os.path.join(seed, "demo.rs"), dst)
            rc, out = sh(["cargo", "test", "--offline", "-q", "-p", pkg] + feats + ["--test", test_name], cwd=wt, env=env)
            res["demo_passes_unchanged"] = rc == 0
            res["demo_unchanged_tail"] = out[-600:] if rc != 0 else ""
            os.remove(dst)
            # (2) with the patch: the suite passes …
            rc, out = sh(["git", "apply", patch], cwd=wt)
            res["patch_applies"] = rc == 0
            if rc != 0:
                res["patch_error"] = out[-400:]
            else:
                rc, out = sh(["cargo", "test", "--workspace", "--no-fail-fast", "--offline"], cwd=wt, env=env)
                ok, failed = suite_summary(out)
                res["suite_with_patch"] = {"rc": rc, "passed": ok, "failed": failed}
                # … and the demo fails
                shutil.copy(os.path.join(seed, "demo.rs"), dst)
                rc, out = sh(["cargo", "test", "--offline", "-q", "-p", pkg] + feats + ["--test", test_name], cwd=wt, env=env)
                res["demo_fails_with_patch"] = rc != 0
                res["demo_patched_tail"] = out[-500:]
        finally:
            sh(["git", "worktree", "remove", "--force", wt], cwd=REPO)
            shutil.rmtree(wt, ignore_errors=True)
        res["confirmed"] = bool(res.get("demo_passes_unchanged") and res.get("patch_applies") and res.get("suite_with_patch", {}).get("rc") == 0 and res.get("suite_with_patch", {}).get("passed", 0) >= 280 and res.get("demo_fails_with_patch"))
    # (3) our checks against it
    if confirm_only:
        rc, out = 1, "confirm-only"
        res["checks_skipped"] = True
    else:
        rc, out = sh(["git", "apply", patch], cwd=REPO)
    if confirm_only:
        pass
    elif rc != 0:
        res["apply_to_repo_failed"] = out[-400:]
    else:
        try:
            res["checks"] = {}
            for p in props:
                t0 = time.time()
                rc, out = sh([os.path.join(VERIF, "check"), p, tier], cwd=VERIF, timeout=4 * 3600)
                viol = [l for l in out.splitlines() if l.startswith("VIOLATION")]
                sigs = sorted({l.strip().split("signature=")[1].split()[0] for l in out.splitlines() if "violation signature=" in l})
                res["checks"][p] = {"exit": rc, "violations": len(viol), "signatures": sigs, "wall_s": round(time.time() - t0, 1),
                                    "inconclusive": [l for l in out.splitlines() if l.startswith("INCONCLUSIVE")][:2]}
        finally:
            sh(["git", "checkout", "--", "."], cwd=REPO)
    res["caught_by"] = [p for p, r in res.get("checks", {}).items() if r["exit"] == 1]
    print(json.dumps(res, indent=1))
    hist = os.path.join(seed, "eval.json")
    prev = json.load(open(hist)) if os.path.exists(hist) else []
    prev.append(res)
    json.dump(prev, open(hist, "w"), indent=1)
    return 0


if __name__ == "__main__":
    sys.exit(main())
