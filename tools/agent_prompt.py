#!/usr/bin/env python3
"""Prints the prompt for a seeding sub-agent: property text only, nothing from /verif."""
import json, sys
pid = sys.argv[1]
wt = sys.argv[2]
out = sys.argv[3]
extra = sys.argv[4] if len(sys.argv) > 4 else ""
for l in open('/verif/properties.jsonl'):
    p = json.loads(l)
    if p['id'] == pid:
        break
print(f"""You are working on a Rust project called retrofire (a no_std software 3D renderer: workspace crates `core` (retrofire-core), `geom` (retrofire-geom), `front`, `demos`). You have your own scratch git worktree of it at {wt} — work ONLY there (never touch /repo or /verif). No network is available; use `--offline` with cargo and set CARGO_TARGET_DIR={wt}/target for every cargo command.

Here is a semantic property that the code base is supposed to satisfy:

TITLE: {p['title']}

STATEMENT: {p['statement']}

IT MUST HOLD FOR: {p['quantifier']['text']}

Relevant source files: {', '.join(p['anchors']['files'])}

YOUR TASK: produce a change to the library source code (not to tests) that BREAKS this property, while the code still compiles and the existing test suite still passes unchanged (`cargo test --workspace --offline`, which must report the same passing tests as before your change). The change must be realistic — the kind of bug a developer could plausibly introduce (an off-by-one, a wrong comparison, a missed edge case, a 'harmless' refactoring or optimisation that is wrong in a corner, two sites that each look fine alone) — and it must need something SPECIFIC to manifest: an unusual input, a particular multi-step sequence of operations, a particular configuration, a boundary value. Do NOT make a change that ordinary use would expose at once (e.g. that breaks every call). {extra}

Also write a demonstration: a Rust integration test file (to be dropped into `core/tests/` or `geom/tests/`, state which) that FAILS with your change applied and PASSES on the unchanged code. Verify all of this yourself by actually running it: (1) unchanged code: demo passes; (2) with your change: the existing suite passes, the demo fails.

DELIVERABLES (write them to {out}/):
 1. {out}/patch.diff — `git diff` of the library source change only (NOT the demo), relative to the worktree's HEAD, applicable with `git apply` from the repository root.
 2. {out}/demo.rs — the demonstration test file.
 3. {out}/meta.json — a JSON object with keys: "property" ("{pid}"), "summary" (one or two sentences: what the change does), "needs_to_manifest" (what specific input/sequence/configuration exposes it), "demo_location" (e.g. "core/tests/demo.rs"), "files_changed", "commands_run" (the cargo commands you ran and their outcome).
When finished, reply with a short summary (what you changed, how it manifests, confirmation of the three verification steps). Keep the change small (a few lines).""")
