#!/usr/bin/env python3
"""Runs the registered checks against property-preserving variants.

  eval_benign.py <dir> [--confirm-only | --skip-confirm] [--props C01,C05] [--tier quick]

<dir> holds patch1.diff.. and meta.json {"property", "variants":[{"patch",..}]}.
1. confirmation in a scratch worktree outside /repo and /verif: the patch
   applies and the existing suite passes with it;
2. `git -C /repo apply patch`, ./check <prop> <tier>, `git -C /repo checkout -- .`.
A check that exits 1 here is either a false alarm of the machinery or a
variant that does break the property after all: both need a human look, so
the output (violation signatures, first VIOLATION lines) is kept.
Appends to <dir>/eval.json.
"""
import glob
import json
import os
import shutil
import subprocess
import sys
import time

REPO = "/repo"
VERIF = "/verif"


def sh(cmd, cwd=None, env=None, timeout=4 * 3600):
    p = subprocess.run(cmd, cwd=cwd, env=env, stdout=subprocess.PIPE, stderr=subprocess.STDOUT, text=True, timeout=timeout, errors="replace")
    return p.returncode, p.stdout


def suite_summary(out):
    ok = failed = 0
    for l in out.splitlines():
        if l.startswith("test result:"):
            parts = l.split()
            ok += int(parts[3])
            failed += int(parts[5])
    return ok, failed


def main():
    a = sys.argv[1:]
    d = os.path.abspath(a[0])
    props = None
    tier = "quick"
    skip = confirm_only = False
    only = None
    i = 1
    while i < len(a):
        if a[i] == "--props":
            props = a[i + 1].split(","); i += 1
        elif a[i] == "--tier":
            tier = a[i + 1]; i += 1
        elif a[i] == "--only":
            only = a[i + 1]; i += 1
        elif a[i] == "--skip-confirm":
            skip = True
        elif a[i] == "--confirm-only":
            confirm_only = True
        i += 1
    meta = json.load(open(os.path.join(d, "meta.json")))
    prop = meta["property"]
    props = props or [prop]
    patches = sorted(glob.glob(os.path.join(d, "patch*.diff")))
    if only:
        patches = [p for p in patches if os.path.basename(p) == only]
    hist = os.path.join(d, "eval.json")
    prev = json.load(open(hist)) if os.path.exists(hist) else []
    rc, _ = sh(["git", "diff", "--quiet"], cwd=REPO)
    if rc != 0 and not confirm_only:
        print("/repo has uncommitted changes; refusing")
        return 2
    for patch in patches:
        name = os.path.basename(patch)
        res = {"dir": os.path.basename(d), "patch": name, "property": prop, "time": time.strftime("%Y-%m-%d %H:%M:%S")}
        if not skip:
            wt = "/tmp/evalwt-%s-%s" % (os.path.basename(d), name.replace(".diff", ""))
            sh(["git", "worktree", "remove", "--force", wt], cwd=REPO)
            sh(["git", "worktree", "add", "--detach", wt, "HEAD"], cwd=REPO)
            env = dict(os.environ, CARGO_TARGET_DIR=os.path.join(wt, "target"), CARGO_NET_OFFLINE="true")
            try:
                rc, out = sh(["git", "apply", patch], cwd=wt)
                res["patch_applies"] = rc == 0
                if rc == 0:
                    rc, out = sh(["git", "diff", "--stat"], cwd=wt)
                    res["diffstat"] = out.strip().splitlines()[-1] if out.strip() else ""
                    rc, out = sh(["cargo", "test", "--workspace", "--no-fail-fast", "--offline"], cwd=wt, env=env)
                    ok, failed = suite_summary(out)
                    res["suite_with_patch"] = {"rc": rc, "passed": ok, "failed": failed}
                else:
                    res["patch_error"] = out[-400:]
            finally:
                sh(["git", "worktree", "remove", "--force", wt], cwd=REPO)
                shutil.rmtree(wt, ignore_errors=True)
            res["confirmed"] = bool(res.get("patch_applies") and res.get("suite_with_patch", {}).get("rc") == 0 and res["suite_with_patch"]["passed"] >= 280)
        if not confirm_only:
            rc, out = sh(["git", "apply", patch], cwd=REPO)
            if rc != 0:
                res["apply_to_repo_failed"] = out[-400:]
            else:
                try:
                    res["checks"] = {}
                    for p in props:
                        t0 = time.time()
                        rc, out = sh([os.path.join(VERIF, "check"), p, tier], cwd=VERIF)
                        lines = out.splitlines()
                        res["checks"][p] = {
                            "exit": rc, "tier": tier,
                            "violations": [l for l in lines if l.startswith("VIOLATION")][:3],
                            "signatures": [l.strip() for l in lines if "violation signature=" in l][:12],
                            "inconclusive": [l for l in lines if l.startswith("INCONCLUSIVE")][:3],
                            "wall_s": round(time.time() - t0, 1)}
                finally:
                    sh(["git", "checkout", "--", "."], cwd=REPO)
            res["alarms"] = [p for p, r in res.get("checks", {}).items() if r["exit"] != 0]
        print(json.dumps(res, indent=1))
        prev.append(res)
        json.dump(prev, open(hist, "w"), indent=1)
    return 0


if __name__ == "__main__":
    sys.exit(main())
