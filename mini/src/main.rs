//! `rfmini <c02|c11|c12> <seed> <shard> <nshards>`; nshards = 0 is a smoke run.
//! Prints `MINI-OK ops=<n> mismatches=<m>`; Miri aborts the process with a
//! diagnostic on undefined behaviour, which the driver treats as a violation.

use rfmon::mon::{c02_total, c11_buf, c12_tex};
use rftk::{Report, Rng};

fn main() {
    let a: Vec<String> = std::env::args().collect();
    let which = a.get(1).map(String::as_str).unwrap_or("c12");
    let seed: u64 = a.get(2).and_then(|s| s.parse().ok()).unwrap_or(1);
    let shard: u64 = a.get(3).and_then(|s| s.parse().ok()).unwrap_or(0);
    let nshards: u64 = a.get(4).and_then(|s| s.parse().ok()).unwrap_or(0);
    rftk::install_panic_hook();
    let mut rng = Rng::for_case(which, seed, 77, shard);
    let mut rep = Report::new();
    let smoke = nshards == 0;
    let mut scenes = 0u64;
    match which {
        "c02" => {
            scenes = if smoke { 1 } else { 30 };
            c02_total::mini(&mut rng, scenes as usize, &mut rep)
        }
        "c11" => c11_buf::mini(&mut rng, if smoke { 1 } else { 3 }, &mut rep),
        _ => c12_tex::mini(&mut rng, if smoke { 2 } else { 200 }, &mut rep),
    }
    let ops: u64 = rep.classes.iter().filter(|(k, _)| k.starts_with("op.") || k.as_str() == "scenes_with_fragments" || k.as_str() == "whole_store_comparisons").map(|(_, v)| *v).sum::<u64>() + rep.evaluations
        + scenes;
    for (sig, agg) in &rep.violations {
        println!("mini violation {sig}: {}", agg.firsts[0].detail);
    }
    println!("MINI-OK ops={} mismatches={}", ops.max(1), rep.n_violations());
}
