#!/usr/bin/env python3
"""Regenerates MANIFEST.json from the table below (keeps it valid by construction)."""
import json
import os

HERE = os.path.dirname(os.path.abspath(__file__))

# property -> (technique, level text, level note, design ref)
CLAIMED = {
    "C20": (
        "runtime differential monitor built once per floating-point backend {none, libm, mm, std} of retrofire-core (separate target directories): exhaustive bit-pattern sweep of floor/abs against std, congruence oracle for rem_euclid, dense sweeps of every approximate function the backend exports against f64 under a fixed per-backend bound table, and oracles for the library code that depends on them (tri_fill coverage, repeat-sampler addressing, normalize, Angle::wrap)",
        "Per backend: floor and abs on f32 bit patterns with |x| < 2^31 — 2^28 stratified patterns quick, all 2^32 thorough — must equal std exactly; rem_euclid(x, m>0) in [0, m] and congruent on 2·10^6 pairs incl. exact negative multiples; sqrt, recip_sqrt, powf, exp, sin, cos, tan, asin, acos, atan2 (those the adapter module exports) on dense sweeps + random inputs against f64 with bounds: libm/std 4 ulp; mm sin/cos 2e-3, tan 1e-2 rel, sqrt/recip_sqrt 3e-3 rel, asin/acos 4e-2, atan2 5e-3, powf 3e-2; fallback recip_sqrt 4e-3 rel. Consequences per backend: tri_fill coverage vs the edge-function oracle, repeat sampler vs integer floor/mod incl. negative coordinates, normalize, Angle::wrap.",
        "Bounds for the approximate functions are fixed in the monitor's table (the property gives classes, not numbers); worst observed error is reported beside each bound. 'Representable range' for floor/abs is |x| < 2^31.",
        "DESIGN.md §5 C20",
    ),
    "C08": (
        "runtime reference-model monitor: closed-form pinhole geometry in f64 as oracle for perspective/orthographic/viewport matrices (volume membership, depth bounds, depth order), for Camera::world_to_project (composition of the oracle's own matrices) and end to end (a sub-pixel triangle rendered through Camera::render must light the predicted pixel at the predicted reciprocal depth, only inside the viewport ∩ frame), and for FirstPerson poses (rigidity, axes, look_at, translate)",
        "Perspective: focal 0.05..20, aspect 0.1..10, near<far with ratios up to 1e4 — near/far map to z/w = ∓1, z/w increases with depth, a view point is inside the volume iff its clip coordinates satisfy −w ≤ x,y,z ≤ w, w > 0 (points within rounding of a face skipped); orthographic boxes anywhere in ±50; viewport rectangles up to 4000 px map the NDC square corners and centre exactly. First person: look_at (incl. straight up/down, axis-aligned, azimuth ±180°), rotate_to/rotate with wrap and clamp — world_to_view orthonormal with det +1, position ↦ origin, target ↦ (0,0,d), equals the closed-form pose (right = up × horizontal heading), translate moves along right/up/horizontal-forward. Camera: viewports inside and partly outside frames ≤ 64², perspective and orthographic, dims = the intersection, clip coordinates vs pinhole prediction, end-to-end render confined to the intersection.",
        "A viewport wholly outside the frame is outside the property's quantifier and not generated. Near/far tolerances follow the cancellation in the projection's z row.",
        "DESIGN.md §5 C08",
    ),
    "C09": (
        "runtime reference-model monitor: the same algebra in f64 on the exact f32 inputs (products, probes, determinant, inverse with measured condition number) plus bit-exact algebraic relations between library results (then ≡ compose with operands swapped)",
        "Products of 1..6 random factors (translate, non-uniform ± scale, rotate_x/y/z by arbitrary and k·90° ± 1 ulp angles, shear, from_basis, scaled permutations): composite vs f64 product, probes through the composite vs through the parts in order, determinant vs f64 and multiplicativity (error relative to the Hadamard bound), inverse residual in both orders for measured condition number ≤ 1e3 (tolerance 3e-5·cond); constructor effects on points and the linear action on vectors of translation-free transforms; rotations length-preserving with det 1 and transpose = inverse; orient_y/orient_z; 3×3 compose/then/apply/apply_pt/transpose; all 24 row orders of a scaled permutation (every pivot pattern).",
        "apply(&Vec3) is judged against its documented implicit-1 semantics; rotation sense as in the library's own documented examples; inverses are not judged when the library's own f32 determinant is within 4·f32::EPSILON of zero, because inverse() documents a debug panic for |det| ≤ f32::EPSILON.",
        "DESIGN.md §5 C09",
    ),
    "C19": (
        "runtime algebraic monitor over observed step outputs (step matrix over GF(2) observed on the 64 unit states, linearity monitored on every pair, order of the matrix computed offline ⇒ single cycle of length 2^64−1) + range monitors on generator states that are solved for by GF(2) linear algebra so that a draw consumes a chosen mantissa",
        "Period: the observed 64×64 matrix M is invertible, M^(2^64−1)=I and M^((2^64−1)/p)≠I for all seven prime factors p; linearity f(a⊕b)=f(a)⊕f(b) and agreement with M on ≥ 2·10^6 random/structured pairs; f(M⁻¹y)=y on 10^6 outputs; equal seeds ⇒ equal sequences. Ranges: for every one of the 2^23 mantissas a float draw can consume a state is solved for and verified through the real call, then start ≤ sample < end is required for 12 ranges (unit, symmetric, negative, far from zero, one-ulp-wide, tiny, huge) and Bernoulli(p ≤ 0)/(p ≥ 1) never/always; integer ranges whose width fits i32 on random states and states solved to produce extreme low words; disk/ball inside, circle/sphere unit length on random states and on the 2^18 states whose two next draws hit the centre; array/vector/point/tuple distributions equal scalar draws from a cloned generator bit-for-bit.",
        "The period conclusion is conditional on linearity, which is monitored, not proved. The three-draw system that would put a sphere sample exactly at the centre is inconsistent (69 equations, 64 unknowns); states are solved for the top 20 bits of each mantissa instead (within 2e-6 of the centre).",
        "DESIGN.md §5 C19",
    ),
    "C17": (
        "runtime reference-model monitor: f64 Bernstein form and derivative as oracle for eval/fast_eval/tangent; for approximate() the aligned dyadic partition of [0,1] is fitted bit-for-bit to the returned polyline and every fitted piece must meet the caller's criterion (the halt closure is harness code: evaluated by the monitor on curve(mid) − chord midpoint, or found as a true call in its log) or sit at the deepest level present",
        "Control polygons of six types (f32, Vec2/3, Point2/3, Color4f) over magnitudes 1e-3..1e4 incl. coincident, collinear, repeated and lattice controls: cubic Bézier at parameters from a palette (<0, 0, ±ulp, 1, >1, random, NaN) — both evaluators vs Bernstein (1e-5·max|control|), exact end points at and beyond the ends, control bounding box, tangent vs derivative; splines of 1..8 segments at every join k/n and its two f32 neighbours plus the palette — equals the segment's cubic, passes through every third control point, exact ends, no panic for any t; approximate() with halt ∈ {always, never, NaN-comparison, thresholds}: first/last point = first/last control point bit-for-bit, points = curve points at strictly increasing aligned dyadic parameters (fitted partition, bit-for-bit), every piece met the criterion or sits at the depth bound (measured by a never-halting call on a quarter of the cases, else the deepest level present; its value is recorded, not fixed); curves with repeated point values make parameters ambiguous and are counted, not judged.",
        "Tolerances: 1e-5·max|control| (splines: 2e-5 plus a segment-parameter rounding term), tangents 12×. Spline tangent is w.r.t. the segment-local parameter, as the code documents.",
        "DESIGN.md §5 C17",
    ),
    "C18": (
        "runtime relation monitor: f64 trigonometry and exact f32 relations as oracle for unit conversions, operators, wrap (interval membership + congruence modulo the f32 interval length), polar/spherical coordinate changes in both compositions; run on the std build (rfmon) and, for the clauses that go through the float helpers, on the libm and mm builds (rffp)",
        "≥ 5·10^6 (thorough 5·10^8) cases: angles over ±1e4 rad incl. quarter-turn multiples ±1 ulp — degrees/radians/turns mutually consistent (1e-6), operators/min/max/clamp equal to the same f32 operation on the magnitude (within 8 ulps; bit-identical counted), sin_cos ≡ (sin, cos), sin²+cos² = 1, sin/cos vs f64; wrap into intervals of any position and width 1e-3..100 rad — result inside [min,max] and congruent to the input with a tolerance scaled by the operand magnitudes; vectors over 1e-6..1e6 incl. axis-aligned and near-axis — r = length, azimuth in [-180°,180°], altitude in [-90°,90°], both compositions inverse.",
        "wrap judged for max > min; azimuth tolerance scaled near the poles where it is ill-conditioned.",
        "DESIGN.md §5 C18",
    ),
    "C16": (
        "runtime relation monitor on the conversion functions: exhaustive enumeration of the 8-bit domains, dense float lattice aimed at every hue-sextant boundary ±1 ulp plus random triples, round-trip / range / byte-order / saturation oracles, panic capture with debug assertions on; f64 HSL reference reported alongside",
        "All 2^24 8-bit RGB triples (to_hsl().to_rgb() within 8/255, grays achromatic and lightness kept) and all 2^24 8-bit HSL triples (total); a float lattice incl. every sextant boundary and mid-sextant ±1 ulp read both as HSL and as RGB plus ≥ 10^6 random triples (RGB→HSL→RGB within 1e-4, HSL in range, HSL→RGB in range, HSL→RGB→HSL modulo hue wrap, hue 1 ≡ hue 0, no debug-assertion panic on in-range input); RGBA words (2^24 stratified quick, all 2^32 thorough) for the three packings and rgb↔rgba; float→8-bit clamping incl. NaN, ±inf, out-of-range; 8-bit Affine::add over all 256×511 pairs.",
        "Hue compared modulo 1 with a tolerance scaled by 1/chroma; the verdict rests on the relations the property states, the f64 reference is informational.",
        "DESIGN.md §5 C16",
    ),
    "C15": (
        "runtime structural-invariant monitor on every Mesh returned by build(): index validity, unit normals, normal-vs-winding agreement, signed volume, union-find merge of coincident vertices then directed-edge pairing and Euler characteristic, distance to the intended surface; exhaustive over sector/segment counts",
        "Every sector count 3..32 (thorough 3..64) × segment count 1..16 (1..32) × five radii for cylinder and cone (capped, uncapped, apex 0, base 0), capsule, sphere and torus, the five Platonic solids, boxes with random corners and cubes, and straight-profile lathes over partial azimuth ranges (open: index/normal/winding/surface checks only). Closed solids must be watertight after merging coincident vertices (each directed edge once, its reverse once), have χ = 2 (0 for the torus) and positive signed volume; all normals unit (1e-3) and on the side of (b−a)×(c−a); vertices within 1e-4·extent of the intended surface.",
        "Outward = (b−a)×(c−a), the convention under which the renderer keeps outward faces with back-face culling; merge tolerance 1e-4·extent; faces collapsing under the merge are dropped.",
        "DESIGN.md §5 C15",
    ),
    "C13": (
        "runtime monitor of the codec boundary: round-trip oracle on write_ppm→read_pnm/parse_pnm, differential oracle between the harness's own P2/P3/P5/P6 encoder and the decoder, panic capture and independent header reader on dictionary-mutated, truncated and random byte strings; journal-before-call + address-space cap so that an aborting allocation is attributed to its input",
        "Round trip on images 0..48 px a side (owned and strided sub-views, zero extents, pixel bytes biased to whitespace/'#'/digits right after the header); the same pixel data spelled as P5/P2 and P6/P3 with random whitespace runs and whitespace-preceded comments must decode to the model image; ≥ 600 000 (thorough 60 M) mutated/truncated/random inputs must never panic, and every Ok(image) must have w·h pixels and the header's dims. Both build profiles.",
        "Dims are cross-checked only for headers whose comments are whitespace-preceded (the spelling the property covers); P1/P4: totality only. Inputs ≤ 64 KiB; process runs under an 8 GiB address-space cap with per-case journalling.",
        "DESIGN.md §5 C13",
    ),
    "C14": (
        "runtime monitor of the parser boundary: faithfulness oracle (the generator keeps the mesh it printed, with coordinate literals whose f32 value is known a priori) and totality oracle (panic capture, index-range check, build()) on dictionary-mutated, truncated and random byte strings; journal-before-call + address-space cap",
        "Random meshes printed with indentation, blank lines, comments, CR LF, the four index forms and faces before/after/interleaved with their vertices must parse to exactly the printed positions (bit-exact) and zero-based triangles through both parse_obj and read_obj; ≥ 600 000 (thorough 60 M) hostile inputs (index 0, negative, 2^32, 2^64, faces without vertices, missing fields, non-ASCII) must yield an error or a builder whose indices are valid and whose build() succeeds. Both build profiles.",
        "Generated faces are triangles (longer faces are outside the property). std's decimal→f32 parsing is trusted; literals are chosen so their value is known without it (dyadic rationals) or guaranteed by std's shortest round-trip Display.",
        "DESIGN.md §5 C14",
    ),
    "C11": (
        "runtime history + executable-model monitor: plain Vec<u64> model with per-view cell-index lists, unique ids per write, every operation re-derived from the root along its slicing path, whole backing store compared with the model after every operation; expected-panic oracle for every out-of-bounds access, slicing and constructor; exhaustive small domain + random histories; Miri on a reduced workload (thorough)",
        "Exhaustive: all buffer dims 0..3 (thorough 0..4) squared × all first- and second-level sub-rectangles × every operation (get/get_mut, point and row indexing (mutable too), rows/iter (mutable too), fill, fill_with, copy_from, dims) with in-bounds and just-out-of-bounds arguments, rotating through every range spelling ((a..b,c..d), inclusive, ..b, a.., (..,..), .., Range<Vec2u>, one-axis forms). Random: histories of 20..120 steps on buffers ≤ 24x24 rooted at Buf2 or at MutSlice2::new with stride ≥ width and surplus data, paths to depth 3, incl. zero-width/height. Reads are cross-checked through slice() and slice_mut() paths. Constructors: accept iff the data can hold the dims.",
        "No unsafe in the harness: the store is compared between operations. Row indexing on zero-width views is counted, not judged.",
        "DESIGN.md §5 C11",
    ),
    "C06": (
        "runtime metamorphic monitor over render-call histories: bit-exact comparison of final colour/depth buffers across permutations, ordered partitions into separate calls and all depth_sort settings, anchored on a per-pixel nearest-of-solo-layers model; painter clause checked on scenes with disjoint depth slabs",
        "For each scene of 2..10 overlapping, interpenetrating, nested, coplanar-offset and clipped triangles (buffers ≤ 48 px) 20..40 histories are rendered — all permutations for n ≤ 4 (24 random ones otherwise), random ordered partitions into separate render() calls, every depth_sort setting — and every final buffer must equal, bit for bit, the image whose every pixel holds the nearest fragment among the solo layers (exact ties excluded and counted). Scenes with disjoint depth slabs (through the library's perspective matrix, partly clipped) must render identically with depth test off + BackToFront and with the depth buffer.",
        "Solo renders of the same rasteriser serve as layers (their correctness is C01/C04/C05's subject); pixels one triangle's own clip fan draws twice (inside C04's band) are excluded and counted.",
        "DESIGN.md §5 C06",
    ),
    "C07": (
        "runtime reference-model monitor: sequential per-pixel model of the documented fragment pipeline folded over solo layers and compared bit-for-bit under every flag combination; orientation oracle sign(det[x;y;w]) for culling; ctx.stats and shader-invocation counters compared with counts derived from the public clip API, the orientation oracle and the model",
        "Masks/stats: scenes of 1..5 triangles × {Framebuf, colour-only} × depth_test {None, Less, Equal, Greater} × color_write × depth_write × {discarding, plain} shader × {one, two calls on one Context}: both buffers must equal the model's prediction exactly (colour untouched when masked, depth untouched when masked, every fragment passes with the test off, None from the shader writes nothing) and calls, prims.i/o, verts.i/o, frags.i/o and shader invocations must equal what happened. Culling: each triangle in both vertex orders under None/Back/Front — drawn exactly as without culling or not at all, as decided by an orientation oracle that never looks at screen coordinates; without culling both orders give the same image away from edge pixels.",
        "Layers are solo renders of the same rasteriser; near-edge-on triangles (|det| < 1e-4·scale³) are skipped; fragment counts are not compared in scenes with own-fan overdraw.",
        "DESIGN.md §5 C07",
    ),
    "C01": (
        "runtime reference-model monitor on final colour/depth buffers: the interpolated attribute is smuggled bit-exactly through the colour word; per-pixel f64 ideal-image oracle β = M⁻¹(X,Y,1) (no clipping, no scan conversion) with the property's own 0.02 px / 0.1 % ambiguity mask; differential check of the Batch and Camera front doors against render()",
        "Scenes of 1..6 (thorough 1..12) clip-space triangles (w of either sign, every subset of planes crossed, exactly-on-plane values, two decades of magnitude, also view space through the library projections), seven attribute types (each component rendered), four target kinds, random viewports inside windows inside buffers ≤ 64x64, prior frames with sentinel colours and zero or random depths. Every unambiguous pixel is judged: inside the visible part of the nearest triangle ⇒ attribute within 0.5 % of range and reciprocal depth within 0.2 %; outside all visible parts, occluded by the prior depth, or outside the viewport ⇒ bit-for-bit unchanged. Batch::render and Camera::render must equal render() bit-for-bit and the camera image is judged by the same oracle.",
        "Oracle in f64 on exact f32 clip coordinates; the real clipper's output is used only to mask internal fan edges; tolerances carry the 0.001 px first-order positional slack (DESIGN §10-2); on colour-only targets overlapped pixels are skipped.",
        "DESIGN.md §5 C01",
    ),
    "C02": (
        "runtime invariant monitor around render(): panic capture, sentinel-pattern comparison of every colour/depth cell outside the viewport (two different patterns), NaN scan of the depth buffer; hostile scene generator aimed at plane-, eye- and rounding-boundaries; Miri on a reduced workload (thorough)",
        "Triangle soups over the stated numeric domain (far/near ≤ 1000, |coordinate| ≤ 1000·near, focal 0.1..10, orthographic boxes) with vertices exactly on and ±1 ulp of near/far/side planes, at and behind the eye plane, coincident, collinear, sub-pixel and huge, rendered through the library's own projection and viewport matrices into buffers from 1x1 to 128x96, every viewport shape, all four target kinds and all Context flag combinations with discarding and non-discarding shaders; both build profiles.",
        "Bounds checks in safe Rust turn an out-of-range access into a panic, which is what is observed; the thorough tier's Miri pass covers the day that stops being true.",
        "DESIGN.md §5 C02",
    ),
    "C04": (
        "runtime reference-model monitor over the Scanline event stream of tri_fill: f64 edge-function coverage oracle with a 0.001 px band, structural stream checks (strictly increasing y, no pixel twice, xs length = fragment count), exhaustive half-pixel lattice + adversarial random families, all six vertex orders",
        "Every ordered vertex triple of a half-pixel lattice (531 441 triangles quick, 4.8 M thorough) and random integer/half-integer/dyadic/float, flat, one-row, sliver, sub-pixel and zero-area triangles (extent ≤ 64 px, all six vertex orders) are filled by the real tri_fill; every pixel centre of the bounding box +1 px is judged: inside and ≥ 0.001 px from every edge ⇒ in exactly one span, outside and ≥ 0.001 px away ⇒ in none. Fans of triangles sharing edges and a vertex are judged on their union. Extents 128..2048 are driven too; there the known f32 edge drift (finding F9) is matched by a narrow drift model, anything larger is a violation.",
        "f64 edge functions on exact f32 vertices are treated as exact; triangles reaching into negative coordinates are judged on the pixels unsigned coordinates can address.",
        "DESIGN.md §5 C04",
    ),
    "C05": (
        "runtime reference-model monitor over every Frag yielded by Scanline::fragments(): f64 plane-through-vertex-values oracle with perspective division, finiteness monitor, pixel-centre check",
        "For C04's triangle families with per-vertex reciprocal depths (w ratio up to 10:1) and seven attribute types (scalar, vectors, colours, tuples), every fragment of every scanline is compared with the f64 plane through the three vertex values at its pixel centre: position = centre ± 1e-3, depth and perspective-corrected attribute within 0.5 % of the vertex-value range (+1e-5 relative rounding floor, +0.001 px·|∇| positional slack), and never NaN/inf for area > 1e-6 px² (no slack).",
        "Strict domain: extent ≤ 64 px. Tolerances as stated; see DESIGN.md §10-2 for the positional slack.",
        "DESIGN.md §5 C05",
    ),
    "C03": (
        "runtime reference-model monitor: every clip output is solved back into the input triangle's (u,v) parameter plane in f64 and compared with an independent 2-D convex clip (area bounds, point probes, attribute field, winding), plus bit-exact metamorphic checks (unchanged-if-inside, batch independence)",
        "Each generated clip-space triangle (integer and half-integer lattices incl. the full 5^9 lattice in the thorough tier, random w of either sign with on-plane and ±1-ulp coordinates, frustum-surrounding and degenerate triangles; seven attribute types) is clipped by the real view_frustum::clip and the whole output is judged: no vertex outside any plane beyond 1e-5·scale, every vertex on the input plane and inside the input triangle, attributes equal to the input's linear field, winding kept, covered area between the inside part shrunk and grown by the rounding band, random parameter points covered exactly once/never, wholly-inside ⇒ bit-identical, outside-one-plane ⇒ empty, batch ≡ concatenation bit-for-bit. Held on the executions observed.",
        "f64 arithmetic on exact f32 inputs; (u,v)-based checks are skipped (and counted) for inputs whose scale/min-altitude exceeds 1e3. Rounding band 1e-5·scale follows the repo's own 1.00001 NDC tolerance.",
        "DESIGN.md §5 C03",
    ),
    "C12": (
        "runtime reference-model monitor: self-describing texels + integer floor/mod/clamp oracle over an enumerated coordinate palette × all texture sizes, panic monitor; Miri on a reduced workload (thorough)",
        "Every sampler entry point is called on every texture size up to a bound (owned and borrowed-from-poisoned-parent) with an adversarial coordinate palette (every integer ±1 ulp, ±2^k ±1 ulp up to 2^33, inf, NaN, extremes) plus random pairs; the returned texel (which encodes its own coordinates) is compared with an exact integer oracle, panics are caught, poison texels detect out-of-region reads. Held-on-what-was-observed, not a proof.",
        "Trusts f64 floor on exact f32 values and Rust's own bounds checks to turn out-of-bounds reads into panics (Miri pass covers the case where they would not). Both debug-assertion and release builds are exercised.",
        "DESIGN.md §5 C12",
    ),
}


# What was added after the first build (seed rounds and the per-monitor
# reviews in audit/); appended to the level text of each check.
ADDED = {
    "C01": " Added since: a large_targets stream (frames up to 2048 px, every pixel judged; violations that the drift model of known finding F9 explains carry their own signatures), eleven attribute types (incl. Angle, Point3, nested tuples, colour+point), scenes scaled by 2^k (k = −60..60), w over 3.5 decades in one triangle, sub-pixel and few-pixel triangles on pixel centres, 1/8-pixel lattice geometry, +inf prior depth, colour-only overlaps judged against every covering triangle, non-finite clipper output reported, Batch on colour-only targets, mirrored viewports. Value tolerances also carry the clip coordinates' own f32 rounding (one ulp of the triangle's largest coordinate × 1/w × half the viewport) and a rounding floor amplified by (largest 1/w)/(1/w at the pixel); Batch/Camera images are judged by the oracle when their bits differ from render().",
    "C02": " Added since: a stream of scenes whose vertices lie bit-exactly on frustum planes (vertex/edge/whole triangle in a plane, touching from outside, corner touches) in multi-triangle calls, frames up to 4096 px (elongated and realistic sizes), an extra pass with every fragment written for scenes whose flags could hide a stray fragment, mirrored viewports, free (log-uniform) near/far/focal, off-axis and flipped orthographic boxes, triangles naming a vertex twice; generators aimed at the two defects the thorough tier found (F14, F15).",
    "C03": " Added since: scale invariance (clip(2^k·T) = 2^k·clip(T) bit for bit, k down to −120), near-plane relative distances 1e-7..1e-2, degenerate inputs range-checked, batches of 0/1/64/1000 triangles with each member's output judged absolutely, eleven attribute types, position tolerance and band tightened to 3e-6·scale.",
    "C04": " Added since: triangles reaching into negative coordinates judged on the pixels unsigned coordinates can address, small triangles at offsets up to 65536, all six vertex orders at extents up to 2048, a per-triangle drift allowance (rows stepped, not the frame size) for known finding F9, judging continues past drift-class hits.",
    "C05": " Added since: eleven attribute types (Angle, Point3, nested tuples, colour+point), reciprocal depths from 1e-4 to 1e3 and attribute magnitudes over fourteen decades, reciprocal depths from 1e6 down to 1e-10, tied/constant/zero attribute components, rounding floor scaled by the depth ratio, a large-extent stream (256..2048 px) under the F9 drift model, triangles hanging off the top/left border (negative coordinates).",
    "C06": " Added since: histories over prior frames of every depth (incl. ±inf), depths over twelve decades and a few ulps apart, per-call depth_sort settings and empty calls, windowed targets whose colour and depth parents differ in size and offset, cut-out materials; painter clause on colour-only targets, with slabs crossing the near/far planes and with up to 100 triangles, with a floor on pixels where the sort matters.",
    "C07": " Added since: face culling crossed with the write masks, calls with an empty triangle list, prior depths ±inf/−0.0/−1e30, a shader that discards every fragment, culling under mirrored viewports; the shader-invocation count is recorded, not judged; a third of the scenes (empty calls included) go through Batch::render; a mismatch with the submission-order model is a violation only if no per-pixel draw order within each call and neither tie rule for Less/Greater explains buffers and the written-fragment total; clip pieces thinner than 0.02 px count as degenerate for the culling statistics.",
    "C08": " Added since: a confinement flood test (a quad covering the whole view must light exactly the viewport ∩ frame, pixels on the clip fan's diagonals excepted), five viewport spellings incl. open-ended ranges, near/far skip band scaled with the projection's z row.",
    "C09": " Added since: all three axis images of orient_y/orient_z against the f64 construction (sign pinned by the hint), dense 4×4 matrices (general last row) for determinant/compose/multiplicativity, inverse gated on the library's own determinant instead of |det| ≤ 1e-4, uniform scales 0.03..30, angles from 1e-6 to 1e4 rad.",
    "C11": " Added since: 15 range spellings (mixed inclusive/exclusive axes, ..=b, explicit Bound pairs with an excluded start), out-of-bounds forms mirrored on both axes, the owned buffer as receiver itself and via Buf2::slice_mut / the AsMutSlice2 trait, five kinds of copy_from source, stride()/is_contiguous() observed (judged for views of two or more non-empty rows), constructor contents (new, new_from, new_with, data_mut) and rejects of dimensions whose size arithmetic wraps in 32 bits, immutable slicing out of bounds must panic too.",
    "C12": " Added since: per-axis expectations (a special value on one axis does not excuse the other), textures up to 4097 px a side, relative texel boundaries k/size ± 1 ulp, coordinates up to 2^31 on power-of-two textures, borrowed textures built by Slice2::new with a stride and as slices of slices; the same addressing through both samplers and both entry points in every float backend build (C20's binaries).",
    "C13": " Added since: seven ways of handing an image to the writer (by value, MutSlice2, Slice2::new with stride and surplus, slice of slice, …), a writer that takes short writes with EINTR, an independent P6 reader of the written stream, images larger than the 8 KiB I/O buffers, save_ppm/load_pnm through real files, readers delivering short chunks with EINTR and failing mid-stream, form feed as whitespace, up to three comments per gap with arbitrary bytes.",
    "C14": " Added since: an independent reference reader that judges mutated-but-still-well-formed input, decimal literals next to f32 midpoints (incl. strictly between the midpoint and its f64 neighbours), literal syntax variants (−0, leading/trailing point, padded exponents, leading zeros), lines of thousands of characters, meshes whose indices exceed 8 and 16 bits, non-ASCII bytes in comments, read_obj through short-chunk readers (raw and buffered) and load_obj through real files.",
    "C15": " Added since: radii over ten decades with a per-axis weld tolerance, extents and partial azimuth ranges honoured, open surfaces checked as manifolds with boundary (Euler characteristic of a tube/disk), Platonic regularity (vertex/face counts, equal edges, circumradius), sine-based degeneracy threshold, capped partial lathes.",
    "C16": " Added since: a float stream over all magnitudes of [0,1] (zero of either sign, subnormal, log-uniform to 1e-38, within ulps of 1, ulp-close channel pairs), 8-bit HSL→RGB judged against the real-number conversion, exact range checks, Affine::add with differences over all of i32 and for three-channel and HSL colours, alpha paths.",
    "C17": " Added since: Angle and Color3f, polygons of small extent far from the origin and with per-point magnitudes, t palette incl. tiny negatives, 1 + ulps, ±inf and huge values, tangents judged at ends and joins, an extent-relative tangent bound, BezierSpline::new's length contract and from_rays.",
    "C18": " Added since: wrap inputs bit-equal to the interval ends, an ulp either side of both, and up to 10^4 interval lengths away; intervals as users write them (degs/turns constructors, min up to ±1e4); the upper end is accepted only where rounding can produce it; zeros of either sign in vectors; compositions within 0.01° of the poles; the clauses that go through the float helpers (wrap over many revolutions and magnitudes, sin_cos, polar/spherical round trips) are also run on the libm and mm backends in both profiles (rffp C18 entry, per-backend tolerances).",
    "C19": " Added since: 30 fixed float ranges (zero and subnormal ends, power-of-two ends reached by rounding, overflowing width), random ranges × the mantissas where rounding bites, three low-bit completions per mantissa, integer extremes in either half of the output word, states solved to land within 2e-6 of the centre of the ball and on the rim of the disk, samples() and generator end-state checks; composite distributions on narrow ranges far from the origin with states solved for extreme mantissas, every component checked against its half-open range.",
    "C20": " Added since: every backend built in a plain release profile as well (8 builds), domain edge points (signed zeros, axes of atan2, ±1), zero-base powf, a wide-domain block (log-uniform magnitudes to 1e±30 for periodic functions, atan2 of independent magnitudes, asin/acos within ulps of ±1, exp over its whole range), full-range sqrt/recip_sqrt by bit pattern, wrap judged by range and congruence and, at the seam without rounding, equality with min; wrap inputs up to 1e7 rad and beyond (range only); abs on every bit pattern; normalize over every magnitude whose squared length f32 holds (subnormal squared lengths on the exact backends), both samplers with special coordinates, the functions reached through Angle / free functions / Vector::len.",
}

NOT_APPLICABLE = {
    "C10": "Compile-time property: the refuting event is rustc accepting an ill-typed program; a rejected program has no execution and an accepted one shows nothing at run time, so no runtime monitor or sanitizer can observe it (DESIGN.md §5 C10).",
}

PENDING_REASON = "monitor not built yet in this revision (work in progress; see DESIGN.md §5)"

ALL = ["C%02d" % i for i in range(1, 21)]


def main():
    checks = []
    for p in ALL:
        if p in CLAIMED:
            tech, text, note, ref = CLAIMED[p]
            checks.append({
                "property_id": p,
                "quick_cmd": "./check %s quick" % p,
                "thorough_cmd": "./check %s thorough" % p,
                "evidence_file": "/verif/evidence/%s.json" % p,
                "replay_cmd_template": "./check %s --replay {path}" % p,
                "engine": "rffp" if p == "C20" else "rfmon",
                "level_claimed": {"category": "exploration", "text": text + ADDED.get(p, ""), "design_ref": ref},
                "level_note": note,
                "technique": tech,
            })
    na = []
    for p in ALL:
        if p in CLAIMED:
            continue
        na.append({"property_id": p, "reason": NOT_APPLICABLE.get(p, PENDING_REASON)})
    m = {
        "version": 1,
        "setup_cmd": "./check --setup",
        "hooks": {
            "guard": "--cfg retrofire_verif",
            "enable": "RUSTFLAGS=\"--cfg retrofire_verif\" is set by ./check on every harness build; no source hook exists (every refuting event is visible at the public API), so the flag currently guards nothing",
            "baseline_off_cmd": "cd /repo && cargo test --workspace --no-fail-fast --offline",
            "source_commits": [],
            "add_only": True,
        },
        "engines": [
            {
                "name": "rfmon",
                "path": "/verif/harness",
                "serves_properties": sorted(p for p in CLAIMED if p != "C20"),
                "kind_free_text": "Rust monitor harness linked against /repo/core and /repo/geom by path (rebuilds from the working tree); reference-model, invariant and metamorphic oracles at the public API, panic capture, hostile seeded workloads sharded over 16 threads; built in two profiles (debug-assertions+overflow-checks, and plain release)",
            },
            {
                "name": "rffp",
                "path": "/verif/fpcfg",
                "serves_properties": ["C18", "C20"],
                "kind_free_text": "the C20 monitor (and the per-backend part of C18: wrap, sin_cos, polar/spherical on the libm and mm builds), built eight times against retrofire-core (features none | libm | mm | std × a checking profile with debug assertions and overflow checks and a plain release profile) into separate target directories (so cargo cannot unify the features); shares the rftk toolkit (/verif/tk) with rfmon",
            },
            {
                "name": "check",
                "path": "/verif/check",
                "serves_properties": sorted(CLAIMED),
                "kind_free_text": "python3 driver: builds, runs monitors under a watchdog, applies known_findings.json, writes evidence and replay files, maps verdicts to exit codes (0 held / 1 VIOLATION / 2 INCONCLUSIVE)",
            },
        ],
        "checks": checks,
        "not_applicable": na,
        "notes": "Runtime monitoring family only. Verdicts are three-valued; exit 2 + an INCONCLUSIVE line means the run could not decide (never folded into pass or fail). Known findings live in /verif/known_findings.json (never written at run time).",
    }
    with open(os.path.join(HERE, "MANIFEST.json"), "w") as f:
        json.dump(m, f, indent=1)
        f.write("\n")


if __name__ == "__main__":
    main()
