//! rffp — C20: float helper backends agree with std across their domain.
//!
//! Built once per feature configuration {none, libm, mm, std} of
//! retrofire-core. Event: results of the backend's helper functions and of
//! the library code that depends on them (pixel rounding, texture
//! addressing, angle wrapping, normalisation).
//! Oracle: std/f64 reference; floor and abs exactly over all bit patterns in
//! the representable range; approximate functions against a fixed
//! per-backend, per-function bound.

use rftk::geo::{self, P2};
use rftk::{catch, f32s, Cfg, Hasher, Json, Report, Rng};

#[cfg(feature = "std")]
const BACKEND: &str = "std";
#[cfg(all(feature = "libm", not(feature = "std")))]
const BACKEND: &str = "libm";
#[cfg(all(feature = "mm", not(feature = "std"), not(feature = "libm")))]
const BACKEND: &str = "mm";
#[cfg(not(any(feature = "std", feature = "libm", feature = "mm")))]
const BACKEND: &str = "none";

type F1 = fn(f32) -> f32;
type F2 = fn(f32, f32) -> f32;

struct Backend {
    abs: F1,
    floor: F1,
    rem_euclid: F2,
    recip_sqrt: Option<F1>,
    sqrt: Option<F1>,
    powf: Option<F2>,
    exp: Option<F1>,
    sin: Option<F1>,
    cos: Option<F1>,
    tan: Option<F1>,
    asin: Option<F1>,
    acos: Option<F1>,
    atan2: Option<F2>,
}

#[cfg(feature = "std")]
fn backend() -> Backend {
    Backend {
        abs: f32::abs,
        floor: f32::floor,
        rem_euclid: f32::rem_euclid,
        recip_sqrt: None, // private trait; covered through normalize()
        sqrt: Some(f32::sqrt),
        powf: Some(f32::powf),
        exp: Some(f32::exp),
        sin: Some(f32::sin),
        cos: Some(f32::cos),
        tan: Some(f32::tan),
        asin: Some(f32::asin),
        acos: Some(f32::acos),
        atan2: Some(f32::atan2),
    }
}
#[cfg(all(feature = "libm", not(feature = "std")))]
fn backend() -> Backend {
    use re::math::float::libm as m;
    Backend {
        abs: m::abs,
        floor: m::floor,
        rem_euclid: m::rem_euclid,
        recip_sqrt: Some(m::recip_sqrt),
        sqrt: Some(m::sqrt),
        powf: Some(m::powf),
        exp: Some(m::exp),
        sin: Some(m::sin),
        cos: Some(m::cos),
        tan: Some(m::tan),
        asin: Some(m::asin),
        acos: Some(m::acos),
        atan2: Some(m::atan2),
    }
}
#[cfg(all(feature = "mm", not(feature = "std"), not(feature = "libm")))]
fn backend() -> Backend {
    use re::math::float::mm as m;
    Backend {
        abs: m::abs,
        floor: m::floor,
        rem_euclid: m::rem_euclid,
        recip_sqrt: Some(m::recip_sqrt),
        sqrt: Some(m::sqrt),
        powf: Some(m::powf),
        exp: None,
        sin: Some(m::sin),
        cos: Some(m::cos),
        tan: Some(m::tan),
        asin: Some(m::asin),
        acos: Some(m::acos),
        atan2: Some(m::atan2),
    }
}
#[cfg(not(any(feature = "std", feature = "libm", feature = "mm")))]
fn backend() -> Backend {
    use re::math::float::fallback as m;
    Backend {
        abs: m::abs,
        floor: m::floor,
        rem_euclid: m::rem_euclid,
        recip_sqrt: Some(m::recip_sqrt),
        sqrt: None,
        powf: None,
        exp: None,
        sin: None,
        cos: None,
        tan: None,
        asin: None,
        acos: None,
        atan2: None,
    }
}

/// The fixed per-backend, per-function bounds. `rel` = relative error bound,
/// `abs` = absolute error bound; a result passes if it meets either.
fn bound(func: &str) -> (f64, f64) {
    let ulp4 = 4.0 * 1.1920929e-7;
    match (BACKEND, func) {
        ("std", _) | ("libm", _) => (ulp4, 1e-37),
        ("mm", "sin") | ("mm", "cos") => (0.0, 2e-3),
        ("mm", "tan") => (2e-2, 2e-3),
        ("mm", "sqrt") => (3e-3, 1e-30),
        ("mm", "recip_sqrt") => (3e-3, 0.0),
        ("mm", "asin") | ("mm", "acos") => (0.0, 4e-2),
        // ("a few 1e-2 for the inverse trigonometric functions")
        ("mm", "atan2") => (0.0, 2e-2),
        ("mm", "powf") => (3e-2, 3e-2),
        ("none", "recip_sqrt") => (4e-3, 0.0),
        _ => (0.0, 0.0),
    }
}

fn judge_approx(rep: &mut Report, func: &str, args: &[f32], got: f32, exp: f64) {
    let (rel, mut abs) = bound(func);
    // exact-class backends: "a few ulp" of the result, or — for the bounded
    // periodic functions, whose zeros make a purely relative bound one on the
    // argument's rounding — of 1 + |argument| (the argument is only known to
    // half an ulp of itself)
    if matches!(BACKEND, "std" | "libm") && matches!(func, "sin" | "cos") {
        abs = abs.max(4.0 * 1.1920929e-7 * (1.0 + args[0].abs() as f64 * 0.5));
    }
    let err = (got as f64 - exp).abs();
    let ok = err <= abs || err <= rel * exp.abs();
    let ratio = if err == 0.0 { 0.0 } else { (err / abs.max(1e-300)).min(err / (rel * exp.abs()).max(1e-300)) };
    rep.worst(&format!("{func}.err/bound"), if got.is_nan() { f64::INFINITY } else { ratio }, 1.0, || format!("{func}({args:?}) = {got}, reference {exp}"));
    rep.worst(&format!("{func}.abs_err"), if got.is_nan() { f64::INFINITY } else { err }, abs, String::new);
    if !ok {
        // mm powf: known finding F8b (micromath's ln/exp based powf) has its
        // own narrow signature: positive base, |exponent| ≤ 3, relative error
        // below 0.45 (the function's measured maximum over that domain is
        // 0.4235, reached in every band of |y·ln x|: the error does not
        // shrink towards x^0 or 1^y). Anything worse is a violation.
        let sig = if BACKEND == "mm" && func == "powf" && args[0] > 0.0 && args[1].abs() <= 3.0 && err <= 0.45 * exp.abs() {
            "fp.mm.powf_inaccurate".to_string()
        } else {
            format!("fp.{BACKEND}.{func}_out_of_bound")
        };
        rep.violation(&sig, format!("[{BACKEND}] {func}({args:?}) = {got}; reference {exp}; error {err:.3e} exceeds the bound (rel {rel:.1e} / abs {abs:.1e})"), Json::obj().set("backend", BACKEND).set("function", func).set("args", Json::Arr(args.iter().map(|a| Json::Str(f32s(*a))).collect())));
    }
}

fn exact_block(rep: &mut Report, b: &Backend, lo: u32, n: u32) -> bool {
    for k in 0..n {
        let x = f32::from_bits(lo.wrapping_add(k));
        // abs: every bit pattern. Exactly |x| (the sign of a zero result and
        // the payload of a NaN are not values, so they are left free)
        let a = (b.abs)(x);
        let abs_ok = if x.is_nan() { a.is_nan() } else { a == x.abs() && !(a.is_sign_negative() && a != 0.0) };
        if !abs_ok {
            rep.violation(&format!("fp.{BACKEND}.abs_wrong"), format!("[{BACKEND}] abs({x:?}) = {a:?}"), Json::obj().set("backend", BACKEND).set("x", f32s(x)));
            return false;
        }
        if !x.is_nan() && a.to_bits() != x.abs().to_bits() {
            rep.add("abs_zero_of_other_sign", 1);
        }
        if !(x.abs() < 2147483648.0) {
            continue; // floor: outside the representable range (incl. NaN/inf)
        }
        let f = (b.floor)(x);
        if f != x.floor() || f.is_nan() {
            rep.violation(&format!("fp.{BACKEND}.floor_wrong"), format!("[{BACKEND}] floor({x:?}) = {f:?}, expected {:?}", x.floor()), Json::obj().set("backend", BACKEND).set("x", f32s(x)));
            return false;
        }
    }
    true
}

fn gen_coords(rng: &mut Rng, ext: f32) -> [[f32; 2]; 3] {
    let mode = rng.below(5);
    let mut c = |rng: &mut Rng| -> f32 {
        let u = rng.f32_in(0.0, ext);
        match mode {
            0 => u.floor(),
            1 => (u * 2.0).floor() / 2.0,
            2 => (u * 16.0).floor() / 16.0,
            _ => u,
        }
    };
    [[c(rng), c(rng)], [c(rng), c(rng)], [c(rng), c(rng)]]
}

/// One Angle::wrap case: the result lies inside the interval and differs from
/// the input by a whole number of interval lengths (shared by C20's
/// consumer stream and the per-backend C18 run).
#[cfg(any(feature = "std", feature = "libm", feature = "mm"))]
fn wrap_case(rng: &mut Rng, rep: &mut Report) {
        use re::math::angle::rads;
        let (min, max) = if rng.chance(1, 4) {
            // the intervals people write: [0, 2π), [−π, π), [0, π), [0, 360°)
            let (p, t) = (std::f32::consts::PI, std::f32::consts::TAU);
            rng.pick(&[(0.0f32, t), (-p, p), (0.0, p), (0.0, 1.0), (-1.0, 1.0), (1.0, 3.0)])
        } else {
            let min = rng.f32_in(-10.0, 10.0);
            (min, min + rng.log_f32(0.1, 20.0))
        };
        let len32 = max - min;
        let x = match rng.below(12) {
            // the ends and whole interval lengths away from them: the exact
            // remainder is ±0 there
            0 => min,
            1 => max,
            2 => min - rng.int(1, 1000) as f32 * len32,
            3 => min + rng.int(1, 1000) as f32 * len32,
            4 => rng.ulp_nudge(min),
            // many revolutions: a remainder formed as x − m·floor(x/m) rounds
            // twice and leaves the interval there
            5 | 6 => {
                let m = rng.log_f32(1e3, 1e7);
                if rng.bool() { m } else { -m }
            }
            // magnitudes whose f32 spacing exceeds the interval: only "inside
            // the interval" can be judged
            7 => {
                let m = rng.log_f32(1e7, 1e30);
                if rng.bool() { m } else { -m }
            }
            _ => rng.f32_in(-1000.0, 1000.0),
        };
        rep.count(if x.abs() >= 1e7 { "wrap_inputs.beyond_1e7_rad(range only)" } else if x.abs() >= 1e3 { "wrap_inputs.1e3_to_1e7_rad" } else { "wrap_inputs.within_1e3_rad" });
        let mut hs = Hasher::new();
        hs.f32(x).f32(min).f32(max);
        rep.case(hs.get(), true);
        match catch(|| rads(x).wrap(rads(min), rads(max)).to_rads()) {
            Err(e) => rep.violation(&format!("fp.{BACKEND}.wrap_panicked"), format!("[{BACKEND}] wrap panicked: {e}"), Json::obj().set("x", f32s(x))),
            Ok(w) => {
                let len = (max - min) as f64;
                let k = ((x as f64 - w as f64) / len).round();
                let resid = (x as f64 - w as f64 - k * len).abs();
                let tol = 8.0 * 1.1920929e-7 * ((x as f64).abs() + (min as f64).abs() + len);
                // congruence is decidable only while the input's own spacing is
                // well below the interval
                let resid_ok = resid <= tol || tol > 0.25 * len;
                if !(w >= min && w <= max) || !resid_ok {
                    rep.violation(&format!("fp.{BACKEND}.angle_wrap_differs"), format!("[{BACKEND}] rads({x}).wrap({min},{max}) = {w}"), Json::obj().set("x", f32s(x)).set("min", f32s(min)).set("max", f32s(max)));
                    return;
                }
                // "behaves the same as in std builds": away from the seam
                // that is the congruence just checked (both are then within
                // the tolerance of the one exact value). At the seam — x a
                // whole number of interval lengths from min in exact
                // arithmetic, with the difference and the length themselves
                // representable, so that no rounding is involved — a std
                // build returns min, never max ("closed at the upper end
                // only by rounding").
                let d64 = x as f64 - min as f64;
                let no_rounding = (d64 as f32) as f64 == d64 && (max as f64 - min as f64) == len;
                if no_rounding && d64.rem_euclid(len) == 0.0 {
                    let slack = if BACKEND == "mm" { 3e-3 * len32.abs() + 16.0 * 1.1920929e-7 * (min.abs() + len32.abs()) } else { 0.0 };
                    if (w - min).abs() > slack {
                        rep.violation(
                            &format!("fp.{BACKEND}.angle_wrap_differs_from_std"),
                            format!("[{BACKEND}] rads({x:?}).wrap({min:?}, {max:?}) = {w:?}; x is exactly a whole number of interval lengths from min, a std build gives {min:?}"),
                            Json::obj().set("x", f32s(x)).set("min", f32s(min)).set("max", f32s(max)),
                        );
                        return;
                    }
                    rep.count("wrap_checks.seam_without_rounding(must equal min)");
                }
                if x == min || x == max || (x - min) % len32 == 0.0 {
                    rep.count("wrap_checks.exact_multiple_or_end");
                }
                rep.count("wrap_checks");
            }
        }
    }

fn run(cfg: &Cfg, rep: &mut Report) {
    let b = backend();
    rep.rule = format!("backend '{BACKEND}': floor and abs on f32 bit patterns with |x| < 2^31 (quick: 2^28 stratified patterns; thorough: all 2^32), compared exactly with std; rem_euclid(x, m), m > 0, on random and exact-multiple pairs; every approximate function the backend's adapter exports on dense sweeps + random inputs against f64, judged against the fixed per-backend bound table; consequences: tri_fill coverage, sampler addressing, Angle::wrap, normalize; non-trivial = all; distinct by hash of the input bits");
    rep.info("backend", BACKEND);
    rep.assumptions.push("the fast approximations (mm, fallback) manipulate the exponent field and are judged on normal numbers only; subnormal inputs are driven and counted but not judged for them (libm and std are judged on the whole positive range)".into());
    rep.assumptions.push("'representable range' for floor/abs is |x| < 2^31 (what pixel rounding and texture addressing can use); rem_euclid is judged for m > 0".into());

    // pins
    rep.pin("F8a.fallback_floor_negative_integers", {
        let bad: Vec<String> = [-2.0f32, -0.0, -1.0, -3.0, -1024.0].iter().filter(|x| (b.floor)(**x) != x.floor()).map(|x| format!("floor({x:?}) = {:?}", (b.floor)(*x))).collect();
        if bad.is_empty() {
            Ok(())
        } else {
            Err(format!("[{BACKEND}] {}", bad.join(", ")))
        }
    });
    rep.pin("F23.rem_euclid_negative_multiple", {
        let bad: Vec<String> = [(-6.0f32, 6.0f32), (-0.0, 1.0), (-203.0, 1.0), (-std::f32::consts::TAU, std::f32::consts::TAU)]
            .iter()
            .filter_map(|&(x, m)| {
                let r = (b.rem_euclid)(x, m);
                // the mm backend is approximate: only the exact backends are pinned
                if r == 0.0 || BACKEND == "mm" { None } else { Some(format!("[{BACKEND}] rem_euclid({x:?}, {m:?}) = {r:?}, std gives 0")) }
            })
            .collect();
        if bad.is_empty() { Ok(()) } else { Err(bad.join("; ")) }
    });
    if let Some(f) = b.acos {
        rep.pin("F24.acos_tiny_argument", {
            let bad: Vec<String> = [1e-20f32, -1e-20, 5.1353795e-25, 1e-38, -1e-30]
                .iter()
                .filter_map(|&x| match catch(|| f(x)) {
                    Ok(g) if (g as f64 - std::f64::consts::FRAC_PI_2).abs() <= 4e-2 => None,
                    Ok(g) => Some(format!("[{BACKEND}] acos({x:?}) = {g:?}, std gives 1.5707964")),
                    Err(m) => Some(format!("[{BACKEND}] acos({x:?}) panicked: {m}")),
                })
                .collect();
            if bad.is_empty() { Ok(()) } else { Err(bad.join("; ")) }
        });
    }
    if let Some(f) = b.atan2 {
        rep.pin("F20.atan2_zero_zero", {
            let bad: Vec<String> = [(0.0f32, 0.0f32), (-0.0, 0.0)].iter().filter_map(|&(y, x)| match catch(|| f(y, x)) {
                Ok(g) if g == 0.0 => None,
                Ok(g) => Some(format!("[{BACKEND}] atan2({y:?}, {x:?}) = {g:?}, std gives 0")),
                Err(m) => Some(format!("[{BACKEND}] atan2({y:?}, {x:?}) panicked: {m}")),
            }).collect();
            if bad.is_empty() { Ok(()) } else { Err(bad.join("; ")) }
        });
    }
    if let Some(f) = b.sqrt {
        rep.pin("F19.sqrt_negative_zero", {
            match catch(|| f(-0.0)) {
                Ok(g) if g == 0.0 => Ok(()),
                Ok(g) => Err(format!("[{BACKEND}] sqrt(-0.0) = {g:?}, std gives -0.0")),
                Err(m) => Err(format!("[{BACKEND}] sqrt(-0.0) panicked: {m}")),
            }
        });
    }
    if let Some(f) = b.powf {
        rep.pin("F18.powf_zero_base", {
            let bad: Vec<String> = [(0.0f32, 0.01f32, 0.0f32), (0.0, 0.1, 0.0), (-0.0, 0.01, 0.0), (-0.0, 2.0, 0.0), (0.0, 0.0, 1.0), (-0.0, 0.0, 1.0)]
                .iter()
                .filter_map(|&(x, y, e)| match catch(|| f(x, y)) {
                    Ok(g) if (g - e).abs() <= 1e-6 => None,
                    Ok(g) => Some(format!("[{BACKEND}] powf({x:?}, {y:?}) = {g:?}, std gives {e}")),
                    Err(m) => Some(format!("[{BACKEND}] powf({x:?}, {y:?}) panicked: {m}")),
                })
                .collect();
            if bad.is_empty() { Ok(()) } else { Err(bad.join("; ")) }
        });
    }
    if let (Some(p), true) = (b.powf, BACKEND == "mm") {
        rep.pin("F8b.mm_powf_gamma", {
            let (x, y) = (0.7f32, 2.2f32);
            let got = p(x, y);
            let exp = (x as f64).powf(y as f64);
            let (rel, abs) = bound("powf");
            let err = (got as f64 - exp).abs();
            if err <= abs || err <= rel * exp {
                Ok(())
            } else {
                Err(format!("[{BACKEND}] powf({x}, {y}) = {got}, reference {exp}: error {err:.3e}"))
            }
        });
    }

    // ---- floor / abs, exact
    let full = !cfg.quick();
    let blocks: u64 = if full { 1 << 20 } else { 1 << 16 };
    rep.run_stream(cfg, 0, "floor_abs_exact", blocks, |rng, i, rep| {
        let lo = if full { (i as u32) << 12 } else { ((i as u32) << 16) | ((rng.u32() & 0xF) << 12) };
        if exact_block(rep, &b, lo, 1 << 12) {
            rep.add("exact_patterns", 1 << 12);
        }
        rep.evaluations += (1 << 12) - 1;
        rep.case(lo as u64, true);
        // integers and their neighbours, both signs (always)
        if i < 4096 {
            let k = (i as i64 - 2048) as f32;
            let xs = [k, rftk::next_up(k), rftk::next_down(k), k + 0.5, -k, k * 1024.0, k * 1048576.0];
            for x in xs {
                if x.abs() < 2147483648.0 && (b.floor)(x) != x.floor() {
                    rep.violation(&format!("fp.{BACKEND}.floor_wrong"), format!("[{BACKEND}] floor({x:?}) = {:?}, expected {:?}", (b.floor)(x), x.floor()), Json::obj().set("backend", BACKEND).set("x", f32s(x)));
                    return;
                }
            }
            rep.add("integer_neighbourhood_checks", xs.len() as u64);
        }
    });
    if full {
        rep.exhaustive.push("abs on all 2^32 f32 bit patterns; floor on all of them with |x| < 2^31".into());
    }

    // ---- rem_euclid
    rep.run_stream(cfg, 1, "rem_euclid", cfg.n(2_000_000, 100_000_000), |rng, _, rep| {
        let m = match rng.below(4) {
            0 => rng.pick(&[1.0f32, 2.0, 4.0, 6.0, 64.0, std::f32::consts::TAU, std::f32::consts::PI]),
            _ => rng.log_f32(1e-3, 1e3),
        };
        let x = match rng.below(6) {
            0 => -(rng.int(0, 1000) as f32) * m, // exact negative multiples
            1 => (rng.int(-1000, 1000) as f32) * m,
            2 => rng.f32_in(-1.0, 1.0) * m,
            3 => rng.pick(&[0.0f32, -0.0]),
            _ => rng.sign() * rng.log_f32(1e-3, 1e5),
        };
        let mut hs = Hasher::new();
        hs.f32(x).f32(m);
        rep.case(hs.get(), true);
        let r = (b.rem_euclid)(x, m);
        let q = (x as f64 - r as f64) / m as f64;
        let resid = (q - q.round()).abs();
        let tol = 1e-6 * (x as f64 / m as f64).abs().max(1.0);
        // for the exact backends the remainder itself is exact in f32 (only
        // the shift by m can round): within 2 ulp of m of the real remainder,
        // 0 and m being the same residue
        let exact_ok = BACKEND == "mm" || {
            let want = (x as f64).rem_euclid(m as f64);
            let d = (r as f64 - want).abs();
            // (… or of x: a remainder formed through the quotient is congruent
            // to within the input's own rounding, which is all the statement asks)
            let t = 2.0 * 1.1920929e-7 * (m as f64).max((x as f64).abs());
            d <= t || (d - m as f64).abs() <= t
        };
        if !(r >= 0.0 && r <= m) || !(resid <= tol) || !exact_ok {
            rep.violation(&format!("fp.{BACKEND}.rem_euclid_wrong"), format!("[{BACKEND}] rem_euclid({x:?}, {m:?}) = {r:?}: must lie in [0, m] and differ from x by a whole number of m (quotient {q})"), Json::obj().set("backend", BACKEND).set("x", f32s(x)).set("m", f32s(m)));
            return;
        }
        rep.count("rem_euclid_checks");
        rep.sample(|| Json::obj().set("backend", BACKEND).set("x", f32s(x)).set("m", f32s(m)).set("rem_euclid", f32s(r)));
    });

    // ---- approximate functions
    let n_sweep = cfg.n(400_000, 40_000_000);
    rep.run_stream(cfg, 2, "approx_functions", n_sweep, |rng, i, rep| {
        // dense sweep on even indices, random on odd
        let u = if i % 2 == 0 { (i / 2) as f64 / (n_sweep / 2) as f64 } else { rng.unit() };
        let mut hs = Hasher::new();
        hs.u64(i).u64((u * 1e15) as u64);
        rep.case(hs.get(), true);
        let pi = std::f64::consts::PI;
        if let Some(f) = b.sqrt {
            let x = (10f64.powf(-6.0 + 12.0 * u)) as f32;
            judge_approx(rep, "sqrt", &[x], f(x), (x as f64).sqrt());
        }
        if let Some(f) = b.recip_sqrt {
            let x = (10f64.powf(-6.0 + 12.0 * u)) as f32;
            judge_approx(rep, "recip_sqrt", &[x], f(x), 1.0 / (x as f64).sqrt());
        }
        // the whole positive range by bit pattern, subnormals included
        // (odd indices: random pattern; even: stratified)
        {
            let bits = if i % 2 == 0 { (u * 2139095039.0) as u32 } else { rng.u32() % 0x7F80_0000 }.max(1);
            let x = f32::from_bits(bits);
            let class = if bits < 0x0080_0000 { "subnormal" } else { "normal" };
            let exact_backend = BACKEND == "libm" || BACKEND == "std";
            if let Some(f) = b.sqrt {
                if class == "normal" || exact_backend {
                    rep.count(&format!("full_range.sqrt.{class}"));
                    judge_approx(rep, "sqrt", &[x], f(x), (x as f64).sqrt());
                } else {
                    rep.count("full_range.subnormal_inputs_of_fast_backend(not judged)");
                }
            }
            if let Some(f) = b.recip_sqrt {
                // the fast approximations (mm, fallback) are bit tricks on the
                // exponent field and are only claimed for normal numbers
                if class == "normal" || exact_backend {
                    rep.count(&format!("full_range.recip_sqrt.{class}"));
                    judge_approx(rep, "recip_sqrt", &[x], f(x), 1.0 / (x as f64).sqrt());
                }
            }
        }
        if let Some(f) = b.sin {
            let x = ((2.0 * u - 1.0) * 4.0 * pi) as f32;
            judge_approx(rep, "sin", &[x], f(x), (x as f64).sin());
        }
        if let Some(f) = b.cos {
            let x = ((2.0 * u - 1.0) * 4.0 * pi) as f32;
            judge_approx(rep, "cos", &[x], f(x), (x as f64).cos());
        }
        if let Some(f) = b.tan {
            let x = ((2.0 * u - 1.0) * 1.4) as f32;
            judge_approx(rep, "tan", &[x], f(x), (x as f64).tan());
        }
        if let Some(f) = b.asin {
            let x = (2.0 * u - 1.0) as f32;
            judge_approx(rep, "asin", &[x], f(x), (x as f64).asin());
        }
        if let Some(f) = b.acos {
            let x = (2.0 * u - 1.0) as f32;
            judge_approx(rep, "acos", &[x], f(x), (x as f64).acos());
        }
        if let Some(f) = b.atan2 {
            let a = (2.0 * u - 1.0) * pi;
            let r = rng.log_f32(1e-3, 1e3) as f64;
            let (y, x) = ((r * a.sin()) as f32, (r * a.cos()) as f32);
            if x != 0.0 || y != 0.0 {
                let exp = (y as f64).atan2(x as f64);
                let got = f(y, x);
                // ±π are the same direction
                let alt = if exp > 0.0 { exp - 2.0 * pi } else { exp + 2.0 * pi };
                let e = if (got as f64 - alt).abs() < (got as f64 - exp).abs() && exp.abs() > 3.1 { alt } else { exp };
                judge_approx(rep, "atan2", &[y, x], got, e);
            }
        }
        if let Some(f) = b.exp {
            let x = ((2.0 * u - 1.0) * 10.0) as f32;
            judge_approx(rep, "exp", &[x], f(x), (x as f64).exp());
        }
        if let Some(f) = b.powf {
            // the gamma-conversion domain and a wider one
            let (x, y) = if rng.bool() { (u as f32, rng.pick(&[2.2f32, 1.0 / 2.2, 0.5, 2.0])) } else { (rng.log_f32(1e-2, 10.0), rng.f32_in(-3.0, 3.0)) };
            if x > 0.0 {
                judge_approx(rep, "powf", &[x, y], f(x, y), (x as f64).powf(y as f64));
            }
        }
        // The rest of each domain, by magnitude rather than by position in
        // one period: tiny and large arguments of the periodic functions (the
        // reference is the function of the f32 argument itself, so only the
        // backend's own range reduction is on trial; its error is granted
        // four ulps of the argument on top of the bound), asin/acos within a
        // few ulps of ±1, exp over its whole finite range, atan2 of components
        // of any (independent) magnitude.
        if i % 4 == 1 {
            let x = rng.sign() * rng.log_f32(1e-30, 1e6);
            let slack = 4.0 * 1.1920929e-7 * (x as f64).abs();
            let mut periodic = |rep: &mut Report, name: &str, got: f32, exp: f64| {
                let (rel, abs) = bound(name);
                let err = (got as f64 - exp).abs();
                rep.count("wide_domain.periodic");
                if !(err <= abs + slack || err <= rel * exp.abs() + slack) {
                    rep.violation(&format!("fp.{BACKEND}.{name}_out_of_bound"), format!("[{BACKEND}] {name}({x:?}) = {got}; reference {exp}; error {err:.3e} exceeds the bound (rel {rel:.1e} / abs {abs:.1e}) plus 4 ulp of the argument ({slack:.1e})"), Json::obj().set("backend", BACKEND).set("function", name).set("args", Json::Arr(vec![Json::Str(f32s(x))])));
                }
            };
            if let Some(f) = b.sin {
                periodic(rep, "sin", f(x), (x as f64).sin());
            }
            if let Some(f) = b.cos {
                periodic(rep, "cos", f(x), (x as f64).cos());
            }
            if let Some(f) = b.tan {
                // beyond the first branch too, away from the poles
                let t = rng.f32_in(-12.0, 12.0);
                if (t as f64).cos().abs() > 0.1 {
                    judge_approx(rep, "tan", &[t], f(t), (t as f64).tan());
                }
            }
            let near1 = {
                let mut v = 1.0f32;
                for _ in 0..rng.below(65) {
                    v = f32::from_bits(v.to_bits() - 1);
                }
                rng.sign() * v
            };
            let tiny = rng.sign() * rng.log_f32(1e-30, 1e-6);
            for v in [near1, tiny] {
                if let Some(f) = b.asin {
                    judge_approx(rep, "asin", &[v], f(v), (v as f64).asin());
                }
                if let Some(f) = b.acos {
                    judge_approx(rep, "acos", &[v], f(v), (v as f64).acos());
                }
            }
            if let Some(f) = b.exp {
                let e = rng.f32_in(-87.0, 88.0);
                judge_approx(rep, "exp", &[e], f(e), (e as f64).exp());
            }
            if let Some(f) = b.atan2 {
                let (yy, xx) = (rng.sign() * rng.log_f32(1e-18, 1e18), rng.sign() * rng.log_f32(1e-18, 1e18));
                let exp = (yy as f64).atan2(xx as f64);
                let got = f(yy, xx);
                let alt = if exp > 0.0 { exp - 2.0 * pi } else { exp + 2.0 * pi };
                let e = if (got as f64 - alt).abs() < (got as f64 - exp).abs() && exp.abs() > 3.1 { alt } else { exp };
                rep.count("wide_domain.atan2_independent_magnitudes");
                if got.is_nan() {
                    rep.violation(&format!("fp.{BACKEND}.atan2_nan_at_edge_point"), format!("[{BACKEND}] atan2({yy:?}, {xx:?}) = NaN; reference {exp}"), Json::obj().set("backend", BACKEND).set("function", "atan2").set("args", Json::Arr(vec![Json::Str(f32s(yy)), Json::Str(f32s(xx))])));
                } else {
                    judge_approx(rep, "atan2", &[yy, xx], got, e);
                }
            }
        }
        // zero base: 0^0 = 1, 0^y = 0 for y > 0, 0^y = ∞ for y < 0
        if let (Some(f), true) = (b.powf, i % 64 == 0) {
            let x = if rng.bool() { 0.0f32 } else { -0.0 };
            let y = rng.pick(&[0.0f32, -0.0, 1.0, 2.0, 3.0, 2.2, 0.5, 1.0 / 2.2, 0.1, 0.01, 1e-6, -1.0, -2.0, -0.5, -2.2, -1e-3]);
            let y = if rng.chance(1, 4) { rng.f32_in(-3.0, 3.0) } else { y };
            let got = match rftk::catch(|| f(x, y)) {
                Ok(g) => g,
                Err(m) => {
                    rep.violation(&format!("fp.{BACKEND}.powf_panicked"), format!("[{BACKEND}] powf({x:?}, {y:?}) panicked: {m}"), Json::obj().set("backend", BACKEND).set("function", "powf").set("args", Json::Arr(vec![Json::Str(f32s(x)), Json::Str(f32s(y))])));
                    return;
                }
            };
            rep.count("powf.zero_base");
            let cj = || Json::obj().set("backend", BACKEND).set("function", "powf").set("args", Json::Arr(vec![Json::Str(f32s(x)), Json::Str(f32s(y))]));
            if y == 0.0 {
                judge_approx(rep, "powf", &[x, y], got, 1.0);
            } else if y > 0.0 {
                // (−0)^odd integer is −0; magnitudes are what is judged
                let err = got.abs() as f64;
                let (_, abs) = bound("powf");
                if !(err <= abs) {
                    rep.violation(&format!("fp.{BACKEND}.powf_out_of_bound"), format!("[{BACKEND}] powf({x:?}, {y:?}) = {got}; reference 0; error {err:.3e} exceeds the bound (abs {abs:.1e})"), cj());
                }
            } else if !(got.abs() >= 1e30) {
                // a pole, not a point of the domain: driven (a panic is still
                // caught above) and counted, the value is not judged
                rep.count("powf.zero_base_negative_exponent_finite_result(pole, unjudged)");
            }
        }
        rep.count("approx_points");
        if i < 3 {
            rep.sample(|| Json::obj().set("backend", BACKEND).set("sweep_parameter_u", u).set("functions", "every function the backend exports, evaluated at the point derived from u"));
        }
    });

    // ---- consequences for the library code built on the helpers
    // Edge points of every domain: zeros of either sign, the axes of atan2,
    // ±1 for the inverse functions, unit base / zero exponent for powf.
    rep.run_stream(cfg, 7, "domain_edge_points", 1, |_, _, rep| {
        use std::f64::consts::{FRAC_PI_2, PI};
        let mut one = |rep: &mut Report, func: &str, args: &[f32], call: &dyn Fn() -> f32, exp: f64| {
            rep.count("edge_points");
            match catch(call) {
                Ok(got) => {
                    if got.is_nan() {
                        rep.violation(&format!("fp.{BACKEND}.{func}_nan_at_edge_point"), format!("[{BACKEND}] {func}({args:?}) = NaN; reference {exp}"), Json::obj().set("backend", BACKEND).set("function", func).set("args", Json::Arr(args.iter().map(|a| Json::Str(f32s(*a))).collect())));
                    } else {
                        judge_approx(rep, func, args, got, exp);
                    }
                }
                Err(m) => rep.violation(&format!("fp.{BACKEND}.{func}_panicked"), format!("[{BACKEND}] {func}({args:?}) panicked: {m}"), Json::obj().set("backend", BACKEND).set("function", func).set("args", Json::Arr(args.iter().map(|a| Json::Str(f32s(*a))).collect()))),
            }
        };
        for z in [0.0f32, -0.0] {
            if let Some(f) = b.sqrt {
                one(rep, "sqrt", &[z], &|| f(z), 0.0);
            }
            if let Some(f) = b.sin {
                one(rep, "sin", &[z], &|| f(z), 0.0);
            }
            if let Some(f) = b.cos {
                one(rep, "cos", &[z], &|| f(z), 1.0);
            }
            if let Some(f) = b.tan {
                one(rep, "tan", &[z], &|| f(z), 0.0);
            }
            if let Some(f) = b.exp {
                one(rep, "exp", &[z], &|| f(z), 1.0);
            }
            if let Some(f) = b.asin {
                one(rep, "asin", &[z], &|| f(z), 0.0);
            }
            if let Some(f) = b.acos {
                one(rep, "acos", &[z], &|| f(z), FRAC_PI_2);
            }
            if let Some(f) = b.atan2 {
                // IEEE/std: atan2(±0, +x) = ±0, atan2(±0, −x) = ±π,
                // atan2(±y, ±0) = ±π/2, atan2(±0, +0) = ±0
                one(rep, "atan2", &[z, 0.0], &|| f(z, 0.0), 0.0);
                for m in [1e-3f32, 1.0, 1e3] {
                    one(rep, "atan2", &[z, m], &|| f(z, m), 0.0);
                    one(rep, "atan2", &[m, z], &|| f(m, z), FRAC_PI_2);
                    one(rep, "atan2", &[-m, z], &|| f(-m, z), -FRAC_PI_2);
                    // ±π are the same direction
                    if let Ok(g) = catch(|| f(z, -m)) {
                        one(rep, "atan2", &[z, -m], &|| g, if g < 0.0 { -PI } else { PI });
                    } else {
                        one(rep, "atan2", &[z, -m], &|| f(z, -m), PI);
                    }
                }
            }
        }
        for s in [1.0f32, -1.0] {
            if let Some(f) = b.asin {
                one(rep, "asin", &[s], &|| f(s), s as f64 * FRAC_PI_2);
            }
            if let Some(f) = b.acos {
                one(rep, "acos", &[s], &|| f(s), if s > 0.0 { 0.0 } else { PI });
            }
        }
        if let Some(f) = b.powf {
            for x in [1e-3f32, 0.5, 1.0, 2.0, 10.0] {
                one(rep, "powf", &[x, 0.0], &|| f(x, 0.0), 1.0);
                one(rep, "powf", &[x, 1.0], &|| f(x, 1.0), x as f64);
            }
            for y in [-3.0f32, -1.0, 0.5, 2.2, 3.0] {
                one(rep, "powf", &[1.0, y], &|| f(1.0, y), 1.0);
            }
        }
        if let Some(f) = b.sqrt {
            one(rep, "sqrt", &[1.0], &|| f(1.0), 1.0);
        }
        if let Some(f) = b.recip_sqrt {
            one(rep, "recip_sqrt", &[1.0], &|| f(1.0), 1.0);
        }
    });

    rep.run_stream(cfg, 3, "pixel_rounding(tri_fill)", cfg.n(60_000, 3_000_000), |rng, _, rep| {
        use re::geom::vertex;
        use re::math::point::pt3;
        use re::render::raster::tri_fill;
        let ext = rng.pick(&[4.0f32, 8.0, 16.0, 32.0]);
        let t = gen_coords(rng, ext);
        let mut hs = Hasher::new();
        for p in &t {
            hs.f32s(p);
        }
        rep.case(hs.get(), true);
        let verts = std::array::from_fn::<_, 3, _>(|i| vertex(pt3(t[i][0], t[i][1], 1.0), ()));
        let spans = catch(move || {
            let mut s = vec![];
            tri_fill(verts, |sl| s.push((sl.y, sl.xs.start, sl.xs.end)));
            s
        });
        let cj = || Json::obj().set("backend", BACKEND).set("triangle", format!("{t:?}"));
        let spans = match spans {
            Ok(s) => s,
            Err(e) => {
                rep.violation(&format!("fp.{BACKEND}.tri_fill_panicked"), format!("[{BACKEND}] tri_fill panicked: {e}"), cj());
                return;
            }
        };
        let v: [P2; 3] = std::array::from_fn(|i| (t[i][0] as f64, t[i][1] as f64));
        let mut grid = vec![0u8; 40 * 40];
        for (y, x0, x1) in spans {
            for x in x0..x1.max(x0) {
                if x < 40 && y < 40 {
                    grid[y * 40 + x] += 1;
                }
            }
        }
        for y in 0..40 {
            for x in 0..40 {
                let p = (x as f64 + 0.5, y as f64 + 0.5);
                let inside = geo::tri_area2(&v) != 0.0 && geo::tri_inside(p, &v);
                let got = grid[y * 40 + x];
                if (got == 1) != inside && geo::tri_edge_dist(p, &v) >= 0.001 || got > 1 {
                    rep.violation(&format!("fp.{BACKEND}.pixel_rounding_differs"), format!("[{BACKEND}] tri_fill: centre {p:?} inside={inside} but covered {got} times (≥ 0.001 px from every edge)"), cj());
                    return;
                }
            }
        }
        rep.count("tri_fill_checks");
    });
    rep.run_stream(cfg, 4, "texture_addressing", cfg.n(400_000, 20_000_000), |rng, _, rep| {
        use re::render::tex::{uv, SamplerRepeatPot, Texture};
        use re::util::buf::Buf2;
        let (w, h) = if rng.chance(1, 8) { (1u32 << (6 + rng.below(5)), 1u32 << rng.below(3)) } else { (1u32 << rng.below(6), 1u32 << rng.below(6)) };
        let tex = Texture::from(Buf2::new_with((w, h), |x, y| (y << 16) | x));
        let s = SamplerRepeatPot::new(&tex);
        let mut c = |rng: &mut Rng| match rng.below(8) {
            0 => rng.int(-70, 70) as f32,
            1 => {
                let k = rng.int(-70, 70) as f32;
                rng.ulp_nudge(k)
            }
            2 => rng.int(-70, 70) as f32 + 0.5,
            // the whole range the repeating sampler is specified on (< 2^31),
            // zeros, tiny values, and what it must merely survive
            3 => rng.sign() * rng.log_f32(1e-3, 2147483520.0),
            4 => rng.pick(&[0.0f32, -0.0, 1e-30, -1e-30, 1e-45, -1e-45, 2147483520.0, -2147483520.0]),
            5 => rng.pick(&[f32::NAN, f32::INFINITY, f32::NEG_INFINITY, 3e38, -3e38, 4294967296.0, -2147483648.0]),
            _ => rng.f32_in(-300.0, 300.0),
        };
        let (u, v) = (c(rng), c(rng));
        let mut hs = Hasher::new();
        hs.u64(w as u64).u64(h as u64).f32(u).f32(v);
        rep.case(hs.get(), true);
        let cj = || Json::obj().set("backend", BACKEND).set("texture", format!("{w}x{h}")).set("u", f32s(u)).set("v", f32s(v));
        // per axis: the exact texel for |c| < 2^31, otherwise any column/row
        let expect = |c: f32, n: u32| -> Option<u32> { (c.is_finite() && (c as f64).abs() < 2147483648.0).then(|| ((c as f64).floor() as i64).rem_euclid(n as i64) as u32) };
        let judge = |rep: &mut Report, what: &str, r: Result<u32, String>, eu: Option<u32>, ev: Option<u32>| -> bool {
            match r {
                Err(e) => {
                    rep.violation(&format!("fp.{BACKEND}.sampler_panicked"), format!("[{BACKEND}] {what} panicked: {e}"), cj());
                    false
                }
                Ok(t) => {
                    let (gx, gy) = (t & 0xFFFF, t >> 16);
                    if gx >= w || gy >= h || eu.is_some_and(|x| x != gx) || ev.is_some_and(|y| y != gy) {
                        rep.violation(&format!("fp.{BACKEND}.texture_addressing_differs"), format!("[{BACKEND}] {what} at ({u:?},{v:?}) on {w}x{h} returned texel ({gx},{gy}); expected ({eu:?},{ev:?})"), cj());
                        return false;
                    }
                    true
                }
            }
        };
        if !judge(rep, "repeat sample_abs", catch(|| s.sample_abs(&tex, uv(u, v))), expect(u, w), expect(v, h)) {
            return;
        }
        // the relative entry point, on coordinates of relative magnitude
        let (ru, rv) = (u / 64.0, v / 64.0);
        let (su, sv) = (w as f32 * ru, h as f32 * rv);
        if !judge(rep, "repeat sample (relative)", catch(|| s.sample(&tex, uv(ru, rv))), expect(su, w), expect(sv, h)) {
            return;
        }
        #[cfg(any(feature = "std", feature = "libm", feature = "mm"))]
        {
            use re::render::tex::SamplerClamp;
            let cl = |c: f32, n: u32| -> Option<u32> { (!c.is_nan()).then(|| (c as f64).max(0.0).min((n - 1) as f64).floor() as u32) };
            if !judge(rep, "clamp sample_abs", catch(|| SamplerClamp.sample_abs(&tex, uv(u, v))), cl(u, w), cl(v, h)) {
                return;
            }
            if !judge(rep, "clamp sample (relative)", catch(|| SamplerClamp.sample(&tex, uv(ru, rv))), cl(su, w), cl(sv, h)) {
                return;
            }
            rep.count("sampler_checks.clamp");
        }
        if !(u.is_finite() && v.is_finite()) {
            rep.count("sampler_checks.non_finite_coordinate");
        }
        rep.count("sampler_checks");
    });
    rep.run_stream(cfg, 5, "normalize", cfg.n(400_000, 20_000_000), |rng, _, rep| {
        use re::math::vec::{vec3, Vec3};
        // every magnitude whose squared length f32 can hold: the bulk, the
        // short end down into subnormal squared lengths, the long end up to
        // the overflow of the squared length, and exact power-of-two scalings
        let class = rng.below(4);
        let mag = match class {
            0 => rng.log_f32(1e-3, 1e3),
            1 => rng.log_f32(1e-23, 1e-3),
            2 => rng.log_f32(1e3, 1.8e19),
            _ => f32::powi(2.0, rng.int(-76, 63) as i32),
        };
        let v = if class == 3 && rng.chance(1, 2) {
            let mut t = [3.0 * mag, 4.0 * mag, 0.0];
            t.rotate_left(rng.below(3) as usize);
            t
        } else {
            [rng.f32_in(-1.0, 1.0) * mag, rng.f32_in(-1.0, 1.0) * mag, rng.f32_in(-1.0, 1.0) * mag]
        };
        let l = geo::len3(v.map(|x| x as f64));
        // The squared length is formed in f32: beyond f32::MAX it is
        // infinite, and below 2^-126 it is a subnormal whose spacing 2^-149
        // bounds how well any backend can know the length. Where that alone
        // costs more than 1 % the case is not judged
        let lsq = l * l;
        let sub = 2f64.powi(-149) / lsq;
        if !(lsq < 3.0e38) || !(sub < 1e-2) {
            rep.count("normalize_unjudged(squared_length_not_representable)");
            return;
        }
        if lsq < 1.2e-38 {
            // the fast reciprocal square roots (mm, fallback) are bit tricks on
            // the exponent field and are only claimed for normal numbers
            if BACKEND == "mm" || BACKEND == "none" {
                rep.count("normalize_unjudged(subnormal_squared_length_on_fast_backend)");
                return;
            }
            rep.count("normalize_subnormal_squared_length");
        }
        rep.count(["normalize_bulk", "normalize_short", "normalize_long", "normalize_pow2"][class as usize]);
        let mut hs = Hasher::new();
        hs.f32s(&v);
        rep.case(hs.get(), true);
        let n: Vec3 = vec3(v[0], v[1], v[2]);
        match catch(|| n.normalize().0) {
            Err(e) => rep.violation(&format!("fp.{BACKEND}.normalize_panicked"), format!("[{BACKEND}] normalize panicked: {e}"), Json::obj().set("v", format!("{v:?}"))),
            Ok(u) => {
                let bnd = match BACKEND {
                    "std" | "libm" => 1e-6,
                    _ => 3e-3,
                } + 2.0 * sub;
                let e = (0..3).map(|i| (u[i] as f64 - v[i] as f64 / l).abs()).fold(0.0, f64::max);
                rep.worst("normalize_err", e, bnd, String::new);
                if !(e <= bnd) {
                    rep.violation(&format!("fp.{BACKEND}.normalize_differs"), format!("[{BACKEND}] normalize({v:?}) = {u:?}, error {e:.3e} (bound {bnd:.0e})"), Json::obj().set("v", format!("{v:?}")));
                    return;
                }
                rep.count("normalize_checks");
            }
        }
    });
    // The same functions reached the way a user reaches them: through Angle,
    // the free inverse functions and Vector::len, i.e. through the `f32`
    // alias the crate selects per feature set (a wrong alias or a broken
    // wrapper would not show in direct calls of the adapter modules).
    #[cfg(any(feature = "std", feature = "libm", feature = "mm"))]
    rep.run_stream(cfg, 8, "through_the_public_api", cfg.n(300_000, 15_000_000), |rng, _, rep| {
        use re::math::angle::{acos, asin, atan2, rads};
        use re::math::vec::vec3;
        let x = rng.f32_in(-12.0, 12.0);
        let mut hs = Hasher::new();
        hs.f32(x);
        rep.case(hs.get(), true);
        let a = rads(x);
        let r = catch(|| (a.sin(), a.cos(), a.sin_cos(), a.tan()));
        match r {
            Err(m) => {
                rep.violation(&format!("fp.{BACKEND}.sin_panicked"), format!("[{BACKEND}] rads({x:?}).sin()/cos()/sin_cos()/tan() panicked: {m}"), Json::obj().set("x", f32s(x)));
                return;
            }
            Ok((s, c, (s2, c2), t)) => {
                judge_approx(rep, "sin", &[x], s, (x as f64).sin());
                judge_approx(rep, "cos", &[x], c, (x as f64).cos());
                judge_approx(rep, "sin", &[x], s2, (x as f64).sin());
                judge_approx(rep, "cos", &[x], c2, (x as f64).cos());
                if (x as f64).cos().abs() > 0.1 {
                    judge_approx(rep, "tan", &[x], t, (x as f64).tan());
                }
            }
        }
        let u = rng.f32_in(-1.0, 1.0);
        if let Ok((p, q)) = catch(|| (asin(u).to_rads(), acos(u).to_rads())) {
            judge_approx(rep, "asin", &[u], p, (u as f64).asin());
            judge_approx(rep, "acos", &[u], q, (u as f64).acos());
        } else {
            rep.violation(&format!("fp.{BACKEND}.asin_panicked"), format!("[{BACKEND}] asin/acos({u:?}) panicked"), Json::obj().set("x", f32s(u)));
            return;
        }
        let (yy, xx) = (rng.f32_in(-5.0, 5.0), rng.f32_in(-5.0, 5.0));
        if xx != 0.0 || yy != 0.0 {
            let got = atan2(yy, xx).to_rads();
            let exp = (yy as f64).atan2(xx as f64);
            let pi = std::f64::consts::PI;
            let alt = if exp > 0.0 { exp - 2.0 * pi } else { exp + 2.0 * pi };
            let e = if (got as f64 - alt).abs() < (got as f64 - exp).abs() && exp.abs() > 3.1 { alt } else { exp };
            judge_approx(rep, "atan2", &[yy, xx], got, e);
        }
        let v = [rng.f32_in(-9.0, 9.0), rng.f32_in(-9.0, 9.0), rng.f32_in(-9.0, 9.0)];
        let l = vec3::<f32, ()>(v[0], v[1], v[2]).len();
        let le = v.iter().map(|c| (*c as f64).powi(2)).sum::<f64>().sqrt();
        let (rel, _) = bound("sqrt");
        if !((l as f64 - le).abs() <= rel.max(4e-7) * le + 1e-30) {
            rep.violation(&format!("fp.{BACKEND}.sqrt_out_of_bound"), format!("[{BACKEND}] vec3{v:?}.len() = {l}; reference {le}"), Json::obj().set("v", format!("{v:?}")));
            return;
        }
        rep.count("public_api_checks");
    });
    #[cfg(any(feature = "std", feature = "libm", feature = "mm"))]
    rep.floor("public_api_checks", 100_000);
    #[cfg(any(feature = "std", feature = "libm", feature = "mm"))]
    rep.run_stream(cfg, 6, "angle_wrap", cfg.n(400_000, 20_000_000), |rng, _, rep| wrap_case(rng, rep));

    rep.floor("exact_patterns", 1 << 27);
    rep.floor("integer_neighbourhood_checks", 20_000);
    rep.floor("rem_euclid_checks", 1_000_000);
    rep.floor("approx_points", 200_000);
    rep.floor("tri_fill_checks", 30_000);
    rep.floor("sampler_checks", 200_000);
    rep.floor("normalize_checks", 200_000);
    if BACKEND != "none" {
        rep.floor("wrap_checks.seam_without_rounding(must equal min)", 40_000);
    }
}

/// C18 on this backend: the angle clauses that go through the float helpers
/// (wrap through rem_euclid; sin_cos; polar and spherical conversions through
/// atan2/sqrt), with the backend's own error class as tolerance. The main C18
/// monitor (rfmon) runs on the std build only; a defect confined to one
/// no_std backend's helper would not show there.
#[cfg(any(feature = "std", feature = "libm", feature = "mm"))]
fn run_c18(cfg: &Cfg, rep: &mut Report) {
    use re::math::angle::{rads, PolarVec, SphericalVec};
    use re::math::vec::{vec2, vec3, Vec2, Vec3};
    rep.rule = format!("backend '{BACKEND}': Angle::wrap on intervals people write and random ones, inputs at the ends, whole interval lengths away, within 1e3 rad, 1e3..1e7 rad and beyond (range only); sin_cos against sin and cos and sin²+cos² = 1; polar and spherical round trips of vectors over six decades; tolerances = the backend's error class; non-trivial = all; distinct by hash of the input bits");
    rep.info("backend", BACKEND);
    rep.assumptions.push("tolerances per backend: std/libm 2e-6 (sin/cos), 1e-5·r (round trips); mm 3e-3 (sin/cos), 5e-2·r (round trips: atan2 of the fast backend is good to a few 1e-2 rad)".into());
    rep.run_stream(cfg, 0, "wrap", cfg.n(400_000, 20_000_000), |rng, _, rep| wrap_case(rng, rep));
    let (trig_tol, rt_tol) = if BACKEND == "mm" { (3e-3f64, 5e-2f64) } else { (2e-6, 1e-5) };
    rep.run_stream(cfg, 1, "sin_cos", cfg.n(200_000, 10_000_000), move |rng, i, rep| {
        let x = match i % 4 {
            0 => rng.f32_in(-7.0, 7.0),
            1 => (rng.int(-40, 40) as f32) * std::f32::consts::FRAC_PI_2 + rng.f32_in(-1e-3, 1e-3),
            _ => rng.f32_in(-100.0, 100.0),
        };
        let mut hs = Hasher::new();
        hs.f32(x);
        rep.case(hs.get(), true);
        let a = rads(x);
        match catch(|| (a.sin(), a.cos(), a.sin_cos())) {
            Err(m) => rep.violation(&format!("fp.{BACKEND}.sin_panicked"), format!("[{BACKEND}] rads({x:?}).sin()/cos()/sin_cos() panicked: {m}"), Json::obj().set("x", f32s(x))),
            Ok((s, c, (s2, c2))) => {
                let pyth = ((s2 as f64).powi(2) + (c2 as f64).powi(2) - 1.0).abs();
                let agree = (s as f64 - s2 as f64).abs().max((c as f64 - c2 as f64).abs());
                let err = (s2 as f64 - (x as f64).sin()).abs().max((c2 as f64 - (x as f64).cos()).abs());
                rep.worst("sin_cos.err", err, trig_tol, String::new);
                if !(pyth <= 2.0 * trig_tol && agree <= trig_tol && err <= trig_tol) {
                    rep.violation(&format!("fp.{BACKEND}.sin_cos_inconsistent"), format!("[{BACKEND}] rads({x:?}): sin_cos = ({s2},{c2}), sin = {s}, cos = {c}; sin²+cos²−1 = {pyth:.2e}, error {err:.2e} (tolerance {trig_tol:.0e})"), Json::obj().set("x", f32s(x)));
                    return;
                }
                rep.count("sin_cos_checks");
            }
        }
    });
    rep.run_stream(cfg, 2, "polar_spherical_round_trips", cfg.n(200_000, 10_000_000), move |rng, _, rep| {
        let mag = rng.log_f32(1e-3, 1e3);
        let v = [rng.f32_in(-1.0, 1.0) * mag, rng.f32_in(-1.0, 1.0) * mag, rng.f32_in(-1.0, 1.0) * mag];
        let mut hs = Hasher::new();
        hs.f32s(&v);
        rep.case(hs.get(), true);
        let r2 = ((v[0] as f64).powi(2) + (v[1] as f64).powi(2)).sqrt();
        let r3 = (r2 * r2 + (v[2] as f64).powi(2)).sqrt();
        if r2 < 1e-6 * mag as f64 {
            return;
        }
        let res = catch(|| {
            let p: PolarVec = vec2::<f32, ()>(v[0], v[1]).into();
            let back: Vec2 = p.into();
            let sp: SphericalVec = vec3::<f32, ()>(v[0], v[1], v[2]).into();
            let back3: Vec3 = sp.into();
            (p.r(), p.az().to_degs(), back.0, sp.r(), sp.az().to_degs(), sp.alt().to_degs(), back3.0)
        });
        match res {
            Err(m) => rep.violation(&format!("fp.{BACKEND}.polar_panicked"), format!("[{BACKEND}] polar/spherical conversion of {v:?} panicked: {m}"), Json::obj().set("v", format!("{v:?}"))),
            Ok((pr, paz, b2, sr, saz, salt, b3)) => {
                let e2 = (0..2).map(|k| (b2[k] as f64 - v[k] as f64).abs()).fold(0.0, f64::max);
                let e3 = (0..3).map(|k| (b3[k] as f64 - v[k] as f64).abs()).fold(0.0, f64::max);
                let (sq, _) = bound("sqrt");
                let rtol = sq.max(2e-6);
                let in_range = (-180.0001..=180.0001).contains(&paz) && (-180.0001..=180.0001).contains(&saz) && (-90.0001..=90.0001).contains(&salt);
                rep.worst("round_trip_err/r", (e2 / r2).max(e3 / r3), rt_tol, String::new);
                if !(e2 <= rt_tol * r2 && e3 <= rt_tol * r3 && (pr as f64 - r2).abs() <= rtol * r2 && (sr as f64 - r3).abs() <= rtol * r3 && in_range) {
                    rep.violation(
                        &format!("fp.{BACKEND}.polar_not_inverse"),
                        format!("[{BACKEND}] {v:?}: polar (r {pr}, az {paz}°) → {b2:?}; spherical (r {sr}, az {saz}°, alt {salt}°) → {b3:?}; errors {e2:.2e}, {e3:.2e} (tolerance {rt_tol:.0e}·r)"),
                        Json::obj().set("v", format!("{v:?}")),
                    );
                    return;
                }
                rep.count("round_trip_checks");
            }
        }
    });
    rep.floor("wrap_checks", 200_000);
    rep.floor("wrap_inputs.1e3_to_1e7_rad", 30_000);
    rep.floor("sin_cos_checks", 100_000);
    rep.floor("round_trip_checks", 100_000);
}

fn lookup(p: &str) -> Option<rftk::cli::MonFn> {
    match p {
        "C20" => Some(run as rftk::cli::MonFn),
        #[cfg(any(feature = "std", feature = "libm", feature = "mm"))]
        "C18" => Some(run_c18 as rftk::cli::MonFn),
        _ => None,
    }
}

fn main() {
    rftk::cli::run("rffp", lookup);
}
