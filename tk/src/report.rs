//! Coverage accounting, verdict bookkeeping and the sharded workload runner.

use crate::{Json, Rng};
use std::collections::BTreeMap;
use std::sync::atomic::{AtomicU64, Ordering};
use std::sync::Mutex;

#[derive(Clone, Copy, Debug, PartialEq, Eq)]
pub enum Tier {
    Quick,
    Thorough,
}

#[derive(Clone, Debug)]
pub struct Cfg {
    pub prop: String,
    pub tier: Tier,
    pub seed: u64,
    pub threads: usize,
    /// Replay: run only this (stream, index).
    pub only: Option<(u32, u64)>,
    /// Build profile name this binary was built with ("chk" / "rel").
    pub profile: String,
    /// Workload multiplier (testing aid; 1.0 in registered commands).
    pub scale: f64,
    pub verbose: bool,
}

impl Cfg {
    pub fn quick(&self) -> bool {
        self.tier == Tier::Quick
    }
    /// Case count for a stream: `q` in quick tier, `t` in thorough.
    pub fn n(&self, q: u64, t: u64) -> u64 {
        let n = if self.quick() { q } else { t };
        ((n as f64 * self.scale).ceil() as u64).max(1)
    }
    pub fn chk(&self) -> bool {
        self.profile == "chk"
    }
}

const BITMAP_BITS: usize = 1 << 26;

#[derive(Clone, Debug)]
pub struct Violation {
    pub sig: String,
    pub stream: u32,
    pub idx: u64,
    pub detail: String,
    pub case: Json,
}

#[derive(Clone, Debug, Default)]
pub struct SigAgg {
    pub count: u64,
    pub firsts: Vec<Violation>,
}

#[derive(Clone, Debug)]
pub struct Worst {
    pub obs: f64,
    pub tol: f64,
    pub at: String,
}

pub struct Report {
    pub evaluations: u64,
    bitmap: Option<Vec<u64>>,
    pub classes: BTreeMap<String, u64>,
    pub skipped: BTreeMap<String, u64>,
    pub worst: BTreeMap<String, Worst>,
    pub violations: BTreeMap<String, SigAgg>,
    pub samples: Vec<Json>,
    pub pins: BTreeMap<String, (bool, String)>,
    pub floors: Vec<(String, u64)>,
    pub notes: Vec<String>,
    pub info: Vec<(String, Json)>,
    pub exhaustive: Vec<String>,
    pub streams: Vec<(u32, String, u64)>,
    pub rule: String,
    pub assumptions: Vec<String>,
    // context of the case being run (set by run_stream)
    pub cur_stream: u32,
    pub cur_idx: u64,
    pub max_samples: usize,
}

const KEEP_PER_SIG: usize = 4;

impl Default for Report {
    fn default() -> Self {
        Self::new()
    }
}

impl Report {
    pub fn new() -> Self {
        Report {
            evaluations: 0,
            bitmap: None,
            classes: BTreeMap::new(),
            skipped: BTreeMap::new(),
            worst: BTreeMap::new(),
            violations: BTreeMap::new(),
            samples: vec![],
            pins: BTreeMap::new(),
            floors: vec![],
            notes: vec![],
            info: vec![],
            exhaustive: vec![],
            streams: vec![],
            rule: String::new(),
            assumptions: vec![],
            cur_stream: 0,
            cur_idx: 0,
            max_samples: 6,
        }
    }

    /// One case executed. `hash` identifies the input; `nontrivial` is the
    /// monitor's own rule. Distinctness is measured with a 2^26-bit bitmap
    /// over the input hash: the reported number is the count of set bits, a
    /// lower bound on the number of distinct non-trivial inputs.
    #[inline]
    pub fn case(&mut self, hash: u64, nontrivial: bool) {
        self.evaluations += 1;
        if nontrivial {
            let bm = self
                .bitmap
                .get_or_insert_with(|| vec![0u64; BITMAP_BITS / 64]);
            let b = (crate::mix64(hash) as usize) & (BITMAP_BITS - 1);
            bm[b >> 6] |= 1 << (b & 63);
        }
    }
    pub fn distinct_nontrivial(&self) -> u64 {
        self.bitmap
            .as_ref()
            .map(|b| b.iter().map(|w| w.count_ones() as u64).sum())
            .unwrap_or(0)
    }

    #[inline]
    pub fn count(&mut self, class: &str) {
        self.add(class, 1);
    }
    #[inline]
    pub fn add(&mut self, class: &str, n: u64) {
        if let Some(c) = self.classes.get_mut(class) {
            *c += n;
        } else {
            self.classes.insert(class.to_string(), n);
        }
    }
    #[inline]
    pub fn skip(&mut self, reason: &str) {
        if let Some(c) = self.skipped.get_mut(reason) {
            *c += 1;
        } else {
            self.skipped.insert(reason.to_string(), 1);
        }
    }
    pub fn skip_n(&mut self, reason: &str, n: u64) {
        if n == 0 {
            return;
        }
        *self.skipped.entry(reason.to_string()).or_insert(0) += n;
    }
    /// Track the worst observed error for a named tolerance.
    #[inline]
    pub fn worst(&mut self, name: &str, obs: f64, tol: f64, at: impl FnOnce() -> String) {
        match self.worst.get_mut(name) {
            Some(w) => {
                if obs > w.obs || (obs.is_nan() && !w.obs.is_nan()) {
                    w.obs = obs;
                    w.tol = tol;
                    w.at = at();
                }
            }
            None => {
                self.worst.insert(
                    name.to_string(),
                    Worst { obs, tol, at: at() },
                );
            }
        }
    }
    /// Convenience: track and judge `obs <= tol` (NaN fails).
    #[inline]
    pub fn within(&mut self, name: &str, obs: f64, tol: f64) -> bool {
        self.worst(name, obs, tol, String::new);
        obs <= tol
    }

    pub fn violation(&mut self, sig: &str, detail: String, case: Json) {
        let v = Violation {
            sig: sig.to_string(),
            stream: self.cur_stream,
            idx: self.cur_idx,
            detail,
            case,
        };
        let agg = self.violations.entry(sig.to_string()).or_default();
        agg.count += 1;
        agg.firsts.push(v);
        if agg.firsts.len() > 4 * KEEP_PER_SIG {
            agg.firsts.sort_by_key(|v| (v.stream, v.idx));
            agg.firsts.truncate(KEEP_PER_SIG);
        }
    }
    pub fn n_violations(&self) -> u64 {
        self.violations.values().map(|a| a.count).sum()
    }

    pub fn sample(&mut self, j: impl FnOnce() -> Json) {
        if self.samples.len() < self.max_samples {
            let j = j();
            self.samples.push(j);
        }
    }
    /// A pinned regression witness: `Ok` = behaves as the property demands.
    pub fn pin(&mut self, name: &str, r: Result<(), String>) {
        match r {
            Ok(()) => self.pins.insert(name.to_string(), (false, String::new())),
            Err(e) => self.pins.insert(name.to_string(), (true, e)),
        };
    }
    pub fn floor(&mut self, class: &str, min: u64) {
        self.floors.push((class.to_string(), min));
    }
    pub fn note(&mut self, s: String) {
        self.notes.push(s);
    }
    pub fn info(&mut self, k: &str, v: impl Into<Json>) {
        self.info.push((k.to_string(), v.into()));
    }

    pub fn merge(&mut self, o: Report) {
        self.evaluations += o.evaluations;
        if let Some(ob) = o.bitmap {
            match &mut self.bitmap {
                Some(b) => {
                    for (x, y) in b.iter_mut().zip(ob) {
                        *x |= y;
                    }
                }
                None => self.bitmap = Some(ob),
            }
        }
        for (k, v) in o.classes {
            *self.classes.entry(k).or_insert(0) += v;
        }
        for (k, v) in o.skipped {
            *self.skipped.entry(k).or_insert(0) += v;
        }
        for (k, w) in o.worst {
            match self.worst.get_mut(&k) {
                Some(m) => {
                    if w.obs > m.obs || (w.obs.is_nan() && !m.obs.is_nan()) {
                        *m = w;
                    }
                }
                None => {
                    self.worst.insert(k, w);
                }
            }
        }
        for (k, a) in o.violations {
            let m = self.violations.entry(k).or_default();
            m.count += a.count;
            m.firsts.extend(a.firsts);
            m.firsts.sort_by_key(|v| (v.stream, v.idx));
            m.firsts.truncate(KEEP_PER_SIG);
        }
        for s in o.samples {
            if self.samples.len() < self.max_samples {
                self.samples.push(s);
            }
        }
        self.pins.extend(o.pins);
        self.notes.extend(o.notes);
        self.info.extend(o.info);
        self.exhaustive.extend(o.exhaustive);
    }

    /// Runs cases `0..count` of a stream across threads. Every case gets its
    /// own generator derived from (property, seed, stream, index), so the
    /// set of cases — and therefore the verdict — does not depend on the
    /// number of threads or on scheduling.
    pub fn run_stream<F>(&mut self, cfg: &Cfg, stream: u32, name: &str, count: u64, f: F)
    where
        F: Fn(&mut Rng, u64, &mut Report) + Sync,
    {
        self.streams.push((stream, name.to_string(), count));
        if let Some((s, i)) = cfg.only {
            if s != stream {
                return;
            }
            let mut rng = Rng::for_case(&cfg.prop, cfg.seed, stream, i);
            self.cur_stream = stream;
            self.cur_idx = i;
            f(&mut rng, i, self);
            return;
        }
        let next = AtomicU64::new(0);
        let chunk = (count / (cfg.threads as u64 * 64)).clamp(1, 4096);
        let merged: Mutex<Vec<Report>> = Mutex::new(vec![]);
        let nthreads = cfg.threads.min(count.max(1) as usize).max(1);
        std::thread::scope(|sc| {
            for _ in 0..nthreads {
                sc.spawn(|| {
                    let mut local = Report::new();
                    local.cur_stream = stream;
                    local.max_samples = 2;
                    // Journal-before-call: with RFMON_JOURNAL_DIR set, every
                    // case is recorded before it runs, so that a case which
                    // kills the process (allocation failure, stack overflow —
                    // not catchable as a panic) can be identified and replayed
                    // in a child process by the driver.
                    let mut journal = std::env::var("RFMON_JOURNAL_DIR").ok().and_then(|d| {
                        let tid = format!("{:?}", std::thread::current().id()).replace(|c: char| !c.is_ascii_digit(), "");
                        std::fs::File::create(format!("{d}/inflight-{}-{tid}", std::process::id())).ok()
                    });
                    loop {
                        let start = next.fetch_add(chunk, Ordering::Relaxed);
                        if start >= count {
                            break;
                        }
                        for i in start..(start + chunk).min(count) {
                            let mut rng = Rng::for_case(&cfg.prop, cfg.seed, stream, i);
                            local.cur_idx = i;
                            if let Some(j) = journal.as_mut() {
                                use std::os::unix::fs::FileExt;
                                let _ = j.write_all_at(format!("{stream:>10} {i:>20}\n").as_bytes(), 0);
                            }
                            f(&mut rng, i, &mut local);
                        }
                    }
                    if let Some(j) = journal.as_mut() {
                        use std::os::unix::fs::FileExt;
                        let _ = j.write_all_at(format!("{:>10} {:>20}\n", "done", 0).as_bytes(), 0);
                    }
                    merged.lock().unwrap().push(local);
                });
            }
        });
        let before = self.evaluations;
        for r in merged.into_inner().unwrap() {
            self.merge(r);
        }
        self.add(&format!("stream.{name}"), self.evaluations - before);
    }

    /// Floors not met (→ run is inconclusive).
    pub fn unmet_floors(&self) -> Vec<String> {
        self.floors
            .iter()
            .filter_map(|(c, min)| {
                let got = self.classes.get(c).copied().unwrap_or(0);
                (got < *min).then(|| format!("{c}: observed {got} < floor {min}"))
            })
            .collect()
    }

    pub fn to_json(&self, cfg: &Cfg, wall_s: f64) -> Json {
        let map = |m: &BTreeMap<String, u64>| {
            Json::Obj(m.iter().map(|(k, v)| (k.clone(), Json::UInt(*v))).collect())
        };
        let worst = Json::Obj(
            self.worst
                .iter()
                .map(|(k, w)| {
                    (
                        k.clone(),
                        Json::obj()
                            .set("observed", w.obs)
                            .set("tolerance", w.tol)
                            .set("at", w.at.clone()),
                    )
                })
                .collect(),
        );
        let viols = Json::Arr(
            self.violations
                .iter()
                .map(|(sig, a)| {
                    Json::obj()
                        .set("signature", sig.clone())
                        .set("count", a.count)
                        .set(
                            "witnesses",
                            Json::Arr(
                                a.firsts
                                    .iter()
                                    .map(|v| {
                                        Json::obj()
                                            .set("stream", v.stream)
                                            .set("index", v.idx)
                                            .set("detail", v.detail.clone())
                                            .set("case", v.case.clone())
                                    })
                                    .collect(),
                            ),
                        )
                })
                .collect(),
        );
        let pins = Json::Obj(
            self.pins
                .iter()
                .map(|(k, (failed, d))| {
                    (
                        k.clone(),
                        Json::obj().set("failed", *failed).set("detail", d.clone()),
                    )
                })
                .collect(),
        );
        let floors = Json::Arr(
            self.floors
                .iter()
                .map(|(c, m)| {
                    Json::obj()
                        .set("class", c.clone())
                        .set("min", *m)
                        .set("observed", self.classes.get(c).copied().unwrap_or(0))
                })
                .collect(),
        );
        let mut j = Json::obj()
            .set("property_id", cfg.prop.clone())
            .set(
                "tier",
                if cfg.quick() { "quick" } else { "thorough" },
            )
            .set("seed", cfg.seed)
            .set("profile", cfg.profile.clone())
            .set("threads", cfg.threads)
            .set("evaluations", self.evaluations)
            .set("distinct_nontrivial", self.distinct_nontrivial())
            .set("rule", self.rule.clone())
            .set("samples", Json::Arr(self.samples.clone()))
            .set(
                "streams",
                Json::Arr(
                    self.streams
                        .iter()
                        .map(|(i, n, c)| {
                            Json::obj().set("id", *i).set("name", n.clone()).set("cases", *c)
                        })
                        .collect(),
                ),
            )
            .set("classes", map(&self.classes))
            .set("skipped", map(&self.skipped))
            .set("worst_observed", worst)
            .set("floors", floors)
            .set(
                "unmet_floors",
                Json::Arr(self.unmet_floors().into_iter().map(Json::Str).collect()),
            )
            .set("pins", pins)
            .set("violations", viols)
            .set("n_violations", self.n_violations())
            .set(
                "exhaustive_subdomains",
                Json::Arr(self.exhaustive.iter().cloned().map(Json::Str).collect()),
            )
            .set(
                "notes",
                Json::Arr(self.notes.iter().cloned().map(Json::Str).collect()),
            )
            .set(
                "assumptions",
                Json::Arr(self.assumptions.iter().cloned().map(Json::Str).collect()),
            )
            .set("wall_s", wall_s);
        let mut info = Json::obj();
        for (k, v) in &self.info {
            info.put(k, v.clone());
        }
        j.put("info", info);
        j
    }
}
