//! Minimal JSON value + writer (no external crates are available offline
//! beyond the cached ones, and none is needed).

use std::fmt::Write;

#[derive(Clone, Debug)]
pub enum Json {
    Null,
    Bool(bool),
    Int(i64),
    UInt(u64),
    Num(f64),
    Str(String),
    Arr(Vec<Json>),
    Obj(Vec<(String, Json)>),
}

impl Json {
    pub fn obj() -> Json {
        Json::Obj(vec![])
    }
    pub fn set(mut self, k: &str, v: impl Into<Json>) -> Json {
        if let Json::Obj(ref mut kv) = self {
            let v = v.into();
            if let Some(e) = kv.iter_mut().find(|(kk, _)| kk == k) {
                e.1 = v;
            } else {
                kv.push((k.to_string(), v));
            }
        }
        self
    }
    pub fn put(&mut self, k: &str, v: impl Into<Json>) {
        if let Json::Obj(ref mut kv) = self {
            let v = v.into();
            if let Some(e) = kv.iter_mut().find(|(kk, _)| kk == k) {
                e.1 = v;
            } else {
                kv.push((k.to_string(), v));
            }
        }
    }
    pub fn write(&self, out: &mut String) {
        match self {
            Json::Null => out.push_str("null"),
            Json::Bool(b) => out.push_str(if *b { "true" } else { "false" }),
            Json::Int(i) => {
                let _ = write!(out, "{i}");
            }
            Json::UInt(i) => {
                let _ = write!(out, "{i}");
            }
            Json::Num(x) => {
                if x.is_finite() {
                    let _ = write!(out, "{x:?}");
                } else {
                    // JSON has no inf/nan
                    let _ = write!(out, "\"{x:?}\"");
                }
            }
            Json::Str(s) => {
                out.push('"');
                for c in s.chars() {
                    match c {
                        '"' => out.push_str("\\\""),
                        '\\' => out.push_str("\\\\"),
                        '\n' => out.push_str("\\n"),
                        '\r' => out.push_str("\\r"),
                        '\t' => out.push_str("\\t"),
                        c if (c as u32) < 0x20 => {
                            let _ = write!(out, "\\u{:04x}", c as u32);
                        }
                        c => out.push(c),
                    }
                }
                out.push('"');
            }
            Json::Arr(a) => {
                out.push('[');
                for (i, v) in a.iter().enumerate() {
                    if i > 0 {
                        out.push(',');
                    }
                    v.write(out);
                }
                out.push(']');
            }
            Json::Obj(kv) => {
                out.push('{');
                for (i, (k, v)) in kv.iter().enumerate() {
                    if i > 0 {
                        out.push(',');
                    }
                    Json::Str(k.clone()).write(out);
                    out.push(':');
                    v.write(out);
                }
                out.push('}');
            }
        }
    }
    pub fn to_string(&self) -> String {
        let mut s = String::new();
        self.write(&mut s);
        s
    }
}

impl From<bool> for Json {
    fn from(x: bool) -> Json {
        Json::Bool(x)
    }
}
impl From<i64> for Json {
    fn from(x: i64) -> Json {
        Json::Int(x)
    }
}
impl From<i32> for Json {
    fn from(x: i32) -> Json {
        Json::Int(x as i64)
    }
}
impl From<u64> for Json {
    fn from(x: u64) -> Json {
        Json::UInt(x)
    }
}
impl From<u32> for Json {
    fn from(x: u32) -> Json {
        Json::UInt(x as u64)
    }
}
impl From<usize> for Json {
    fn from(x: usize) -> Json {
        Json::UInt(x as u64)
    }
}
impl From<f64> for Json {
    fn from(x: f64) -> Json {
        Json::Num(x)
    }
}
impl From<f32> for Json {
    fn from(x: f32) -> Json {
        Json::Num(x as f64)
    }
}
impl From<&str> for Json {
    fn from(x: &str) -> Json {
        Json::Str(x.to_string())
    }
}
impl From<String> for Json {
    fn from(x: String) -> Json {
        Json::Str(x)
    }
}
impl<T: Into<Json>> From<Vec<T>> for Json {
    fn from(x: Vec<T>) -> Json {
        Json::Arr(x.into_iter().map(Into::into).collect())
    }
}
