//! rftk: toolkit shared by the monitor binaries (rfmon, rffp): PRNG (deliberately *not* the library's,
//! which is under test in C19), JSON writer, report/coverage accounting,
//! panic capture, parallel sharded workload runner.

pub mod cli;
pub mod geo;
pub mod gf2;
pub mod json;
pub mod report;
pub mod rng;

pub use json::Json;
pub use report::{Cfg, Report, Tier};
pub use rng::Rng;

use std::cell::RefCell;
use std::panic::{catch_unwind, AssertUnwindSafe};

thread_local! {
    static LAST_PANIC: RefCell<Option<String>> = const { RefCell::new(None) };
    static IN_CATCH: RefCell<u32> = const { RefCell::new(0) };
}

/// Installs a panic hook that records the message (and location) of panics
/// raised inside [`catch`] silently, and prints everything else (harness
/// bugs) normally.
pub fn install_panic_hook() {
    let default = std::panic::take_hook();
    std::panic::set_hook(Box::new(move |info| {
        let inside = IN_CATCH.with(|c| *c.borrow() > 0);
        if inside {
            let msg = if let Some(s) = info.payload().downcast_ref::<&str>() {
                s.to_string()
            } else if let Some(s) = info.payload().downcast_ref::<String>() {
                s.clone()
            } else {
                "<non-string panic>".to_string()
            };
            let loc = info
                .location()
                .map(|l| format!("{}:{}", l.file(), l.line()))
                .unwrap_or_default();
            LAST_PANIC.with(|p| *p.borrow_mut() = Some(format!("{msg} @ {loc}")));
        } else {
            default(info);
        }
    }));
}

/// Runs library code, turning a panic into `Err(message)`.
/// Only library calls go inside; oracle code stays outside so that a bug in
/// the harness is never mistaken for a violation.
pub fn catch<T>(f: impl FnOnce() -> T) -> Result<T, String> {
    IN_CATCH.with(|c| *c.borrow_mut() += 1);
    let r = catch_unwind(AssertUnwindSafe(f));
    IN_CATCH.with(|c| *c.borrow_mut() -= 1);
    r.map_err(|_| {
        LAST_PANIC
            .with(|p| p.borrow_mut().take())
            .unwrap_or_else(|| "<panic>".into())
    })
}

/// Formats an f32 with its bit pattern, for witnesses.
pub fn f32s(x: f32) -> String {
    format!("{:?}/0x{:08x}", x, x.to_bits())
}

pub fn f32v(xs: &[f32]) -> String {
    let v: Vec<String> = xs.iter().map(|x| f32s(*x)).collect();
    format!("[{}]", v.join(", "))
}

/// Next representable f32 above / below (finite inputs).
pub fn next_up(x: f32) -> f32 {
    if x.is_nan() || x == f32::INFINITY {
        return x;
    }
    if x == 0.0 {
        return f32::from_bits(1);
    }
    let b = x.to_bits();
    if x > 0.0 {
        f32::from_bits(b + 1)
    } else {
        f32::from_bits(b - 1)
    }
}
pub fn next_down(x: f32) -> f32 {
    -next_up(-x)
}

/// 64-bit mix (splitmix64 finaliser), used for hashing cases.
#[inline]
pub fn mix64(mut z: u64) -> u64 {
    z = z.wrapping_add(0x9e3779b97f4a7c15);
    z = (z ^ (z >> 30)).wrapping_mul(0xbf58476d1ce4e5b9);
    z = (z ^ (z >> 27)).wrapping_mul(0x94d049bb133111eb);
    z ^ (z >> 31)
}

/// Order-dependent hash of a sequence of words.
#[derive(Clone, Copy)]
pub struct Hasher(pub u64);
impl Hasher {
    pub fn new() -> Self {
        Hasher(0x243f6a8885a308d3)
    }
    #[inline]
    pub fn u64(&mut self, x: u64) -> &mut Self {
        self.0 = mix64(self.0 ^ x).rotate_left(23).wrapping_mul(0x9e3779b97f4a7c15);
        self
    }
    #[inline]
    pub fn f32(&mut self, x: f32) -> &mut Self {
        self.u64(x.to_bits() as u64)
    }
    pub fn f32s(&mut self, xs: &[f32]) -> &mut Self {
        for x in xs {
            self.f32(*x);
        }
        self
    }
    pub fn bytes(&mut self, xs: &[u8]) -> &mut Self {
        for c in xs.chunks(8) {
            let mut b = [0u8; 8];
            b[..c.len()].copy_from_slice(c);
            self.u64(u64::from_le_bytes(b) ^ ((c.len() as u64) << 56));
        }
        self.u64(xs.len() as u64)
    }
    pub fn get(&self) -> u64 {
        mix64(self.0)
    }
}
impl Default for Hasher {
    fn default() -> Self {
        Self::new()
    }
}
