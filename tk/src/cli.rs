//! Command line shared by the monitor binaries:
//! `<bin> <Cxx> --tier quick|thorough --seed N --out FILE [--only S:I]
//!        [--threads N] [--profile NAME] [--scale X] [-v]`
//!
//! Runs one monitor, prints a human summary, writes the machine-readable
//! result to FILE. Exit 0 whenever the monitor ran to completion (the
//! verdict is in the result file and decided by ../check); any other exit
//! is a harness failure and maps to INCONCLUSIVE.

use crate::{Cfg, Report, Tier};
use std::time::Instant;

pub type MonFn = fn(&Cfg, &mut Report);

pub fn run(name: &str, lookup: impl Fn(&str) -> Option<MonFn>) {
    let args: Vec<String> = std::env::args().collect();
    if args.len() < 2 {
        eprintln!("usage: {name} <Cxx> --tier T --seed S --out F [--only s:i]");
        std::process::exit(64);
    }
    let prop = args[1].clone();
    let mut cfg = Cfg {
        prop: prop.clone(),
        tier: Tier::Quick,
        seed: 1,
        threads: std::thread::available_parallelism().map(|n| n.get()).unwrap_or(4).min(16),
        only: None,
        profile: "chk".into(),
        scale: 1.0,
        verbose: false,
    };
    let mut out = None;
    let mut i = 2;
    while i < args.len() {
        let a = args[i].as_str();
        let mut val = || {
            i += 1;
            args.get(i).cloned().unwrap_or_else(|| {
                eprintln!("missing value for {a}");
                std::process::exit(64)
            })
        };
        match a {
            "--tier" => {
                cfg.tier = match val().as_str() {
                    "quick" => Tier::Quick,
                    "thorough" => Tier::Thorough,
                    t => {
                        eprintln!("bad tier {t}");
                        std::process::exit(64)
                    }
                }
            }
            "--seed" => cfg.seed = val().parse().expect("seed"),
            "--threads" => cfg.threads = val().parse().expect("threads"),
            "--profile" => cfg.profile = val(),
            "--scale" => cfg.scale = val().parse().expect("scale"),
            "--out" => out = Some(val()),
            "--only" => {
                let v = val();
                let (s, ix) = v.split_once(':').expect("--only stream:index");
                cfg.only = Some((s.parse().expect("stream"), ix.parse().expect("index")));
            }
            "-v" => cfg.verbose = true,
            _ => {
                eprintln!("unknown argument {a}");
                std::process::exit(64)
            }
        }
        i += 1;
    }
    crate::install_panic_hook();
    let Some(run) = lookup(&prop) else {
        eprintln!("no monitor for {prop}");
        std::process::exit(64);
    };
    let t0 = Instant::now();
    let mut rep = Report::new();
    run(&cfg, &mut rep);
    let wall = t0.elapsed().as_secs_f64();

    println!(
        "[{prop} {} seed={} profile={}] cases={} distinct_nontrivial>={} violations={} wall={:.1}s",
        if cfg.quick() { "quick" } else { "thorough" },
        cfg.seed,
        cfg.profile,
        rep.evaluations,
        rep.distinct_nontrivial(),
        rep.n_violations(),
        wall
    );
    for (k, w) in &rep.worst {
        println!("  worst {k}: observed {:.3e} (tolerance {:.3e}) {}", w.obs, w.tol, w.at);
    }
    if cfg.verbose {
        for (k, v) in &rep.classes {
            println!("  class {k}: {v}");
        }
        for (k, v) in &rep.skipped {
            println!("  skipped {k}: {v}");
        }
    }
    for (sig, a) in &rep.violations {
        println!("  violation signature={sig} count={}", a.count);
        for v in a.firsts.iter().take(2) {
            println!("    at stream={} index={}: {}", v.stream, v.idx, v.detail);
        }
    }
    for (k, (failed, d)) in &rep.pins {
        if *failed {
            println!("  pin {k}: FAILS: {d}");
        }
    }
    for f in rep.unmet_floors() {
        println!("  unmet floor: {f}");
    }
    for n in &rep.notes {
        println!("  note: {n}");
    }
    let j = rep.to_json(&cfg, wall).to_string();
    if let Some(o) = out {
        std::fs::write(&o, j).expect("write result");
    }
}
