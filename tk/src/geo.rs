//! f64 reference geometry used by the oracles. None of this shares code or
//! algorithms with the library under test.

pub type P2 = (f64, f64);

/// Distance from p to segment ab.
pub fn seg_dist(p: P2, a: P2, b: P2) -> f64 {
    let (dx, dy) = (b.0 - a.0, b.1 - a.1);
    let l2 = dx * dx + dy * dy;
    if l2 == 0.0 {
        return ((p.0 - a.0).powi(2) + (p.1 - a.1).powi(2)).sqrt();
    }
    let t = (((p.0 - a.0) * dx + (p.1 - a.1) * dy) / l2).clamp(0.0, 1.0);
    ((p.0 - a.0 - t * dx).powi(2) + (p.1 - a.1 - t * dy).powi(2)).sqrt()
}

/// Edge function: > 0 when p is to the left of a→b (y up) .
#[inline]
pub fn edge(a: P2, b: P2, p: P2) -> f64 {
    (b.0 - a.0) * (p.1 - a.1) - (b.1 - a.1) * (p.0 - a.0)
}

/// Strictly inside a triangle of either orientation.
pub fn tri_inside(p: P2, v: &[P2; 3]) -> bool {
    let (e0, e1, e2) = (edge(v[0], v[1], p), edge(v[1], v[2], p), edge(v[2], v[0], p));
    (e0 > 0.0 && e1 > 0.0 && e2 > 0.0) || (e0 < 0.0 && e1 < 0.0 && e2 < 0.0)
}

/// Distance from p to the boundary of the triangle.
pub fn tri_edge_dist(p: P2, v: &[P2; 3]) -> f64 {
    seg_dist(p, v[0], v[1])
        .min(seg_dist(p, v[1], v[2]))
        .min(seg_dist(p, v[2], v[0]))
}

pub fn tri_area2(v: &[P2; 3]) -> f64 {
    edge(v[0], v[1], v[2])
}

/// Barycentric coordinates of p w.r.t. triangle v (sum to 1). None if the
/// triangle is degenerate.
pub fn bary(p: P2, v: &[P2; 3]) -> Option<[f64; 3]> {
    let a = tri_area2(v);
    if a == 0.0 || !a.is_finite() {
        return None;
    }
    let b0 = edge(v[1], v[2], p) / a;
    let b1 = edge(v[2], v[0], p) / a;
    Some([b0, b1, 1.0 - b0 - b1])
}

/// Clips a convex polygon to the half-plane f(p) <= 0, f affine.
pub fn clip_halfplane(poly: &[P2], f: impl Fn(P2) -> f64) -> Vec<P2> {
    let mut out = Vec::with_capacity(poly.len() + 1);
    for i in 0..poly.len() {
        let (a, b) = (poly[i], poly[(i + 1) % poly.len()]);
        let (fa, fb) = (f(a), f(b));
        if fa <= 0.0 {
            out.push(a);
        }
        if (fa < 0.0 && fb > 0.0) || (fa > 0.0 && fb < 0.0) {
            let t = fa / (fa - fb);
            out.push((a.0 + t * (b.0 - a.0), a.1 + t * (b.1 - a.1)));
        }
    }
    out
}

/// Signed area of a polygon.
pub fn poly_area(poly: &[P2]) -> f64 {
    let mut s = 0.0;
    for i in 0..poly.len() {
        let (a, b) = (poly[i], poly[(i + 1) % poly.len()]);
        s += a.0 * b.1 - a.1 * b.0;
    }
    0.5 * s
}

/// Distance from p to the boundary of a polygon (closed chain).
pub fn poly_edge_dist(p: P2, poly: &[P2]) -> f64 {
    let mut d = f64::INFINITY;
    for i in 0..poly.len() {
        d = d.min(seg_dist(p, poly[i], poly[(i + 1) % poly.len()]));
    }
    d
}

pub type M3 = [[f64; 3]; 3];
pub type M4 = [[f64; 4]; 4];

pub fn det3(m: &M3) -> f64 {
    m[0][0] * (m[1][1] * m[2][2] - m[1][2] * m[2][1])
        - m[0][1] * (m[1][0] * m[2][2] - m[1][2] * m[2][0])
        + m[0][2] * (m[1][0] * m[2][1] - m[1][1] * m[2][0])
}

/// Solves m·x = r by Cramer's rule.
pub fn solve3(m: &M3, r: [f64; 3]) -> Option<[f64; 3]> {
    let d = det3(m);
    if d == 0.0 || !d.is_finite() {
        return None;
    }
    let mut x = [0.0; 3];
    for k in 0..3 {
        let mut mm = *m;
        for i in 0..3 {
            mm[i][k] = r[i];
        }
        x[k] = det3(&mm) / d;
    }
    Some(x)
}

pub fn mul3(a: &M3, b: &M3) -> M3 {
    let mut r = [[0.0; 3]; 3];
    for i in 0..3 {
        for j in 0..3 {
            for k in 0..3 {
                r[i][j] += a[i][k] * b[k][j];
            }
        }
    }
    r
}

pub fn mul4(a: &M4, b: &M4) -> M4 {
    let mut r = [[0.0; 4]; 4];
    for i in 0..4 {
        for j in 0..4 {
            for k in 0..4 {
                r[i][j] += a[i][k] * b[k][j];
            }
        }
    }
    r
}

pub fn apply4(m: &M4, v: [f64; 4]) -> [f64; 4] {
    let mut r = [0.0; 4];
    for i in 0..4 {
        for k in 0..4 {
            r[i] += m[i][k] * v[k];
        }
    }
    r
}

pub fn apply3(m: &M3, v: [f64; 3]) -> [f64; 3] {
    let mut r = [0.0; 3];
    for i in 0..3 {
        for k in 0..3 {
            r[i] += m[i][k] * v[k];
        }
    }
    r
}

pub fn ident4() -> M4 {
    let mut m = [[0.0; 4]; 4];
    for i in 0..4 {
        m[i][i] = 1.0;
    }
    m
}
pub fn ident3() -> M3 {
    let mut m = [[0.0; 3]; 3];
    for i in 0..3 {
        m[i][i] = 1.0;
    }
    m
}

pub fn det4(m: &M4) -> f64 {
    let mut d = 0.0;
    for c in 0..4 {
        let mut sub = [[0.0; 3]; 3];
        for i in 1..4 {
            let mut cc = 0;
            for j in 0..4 {
                if j == c {
                    continue;
                }
                sub[i - 1][cc] = m[i][j];
                cc += 1;
            }
        }
        let s = if c % 2 == 0 { 1.0 } else { -1.0 };
        d += s * m[0][c] * det3(&sub);
    }
    d
}

/// Gauss-Jordan inverse with full pivoting in f64 (N ≤ 4).
pub fn inverse_n<const N: usize>(m: &[[f64; N]; N]) -> Option<[[f64; N]; N]> {
    let mut a = *m;
    let mut inv = [[0.0; N]; N];
    for i in 0..N {
        inv[i][i] = 1.0;
    }
    for c in 0..N {
        // partial pivot
        let mut p = c;
        for r in c + 1..N {
            if a[r][c].abs() > a[p][c].abs() {
                p = r;
            }
        }
        if a[p][c] == 0.0 || !a[p][c].is_finite() {
            return None;
        }
        a.swap(c, p);
        inv.swap(c, p);
        let d = a[c][c];
        for j in 0..N {
            a[c][j] /= d;
            inv[c][j] /= d;
        }
        for r in 0..N {
            if r != c {
                let f = a[r][c];
                if f != 0.0 {
                    for j in 0..N {
                        a[r][j] -= f * a[c][j];
                        inv[r][j] -= f * inv[c][j];
                    }
                }
            }
        }
    }
    Some(inv)
}

/// Frobenius norm.
pub fn norm_n<const N: usize>(m: &[[f64; N]; N]) -> f64 {
    m.iter().flatten().map(|x| x * x).sum::<f64>().sqrt()
}

pub fn dot3(a: [f64; 3], b: [f64; 3]) -> f64 {
    a[0] * b[0] + a[1] * b[1] + a[2] * b[2]
}
pub fn cross3(a: [f64; 3], b: [f64; 3]) -> [f64; 3] {
    [
        a[1] * b[2] - a[2] * b[1],
        a[2] * b[0] - a[0] * b[2],
        a[0] * b[1] - a[1] * b[0],
    ]
}
pub fn sub3(a: [f64; 3], b: [f64; 3]) -> [f64; 3] {
    [a[0] - b[0], a[1] - b[1], a[2] - b[2]]
}
pub fn len3(a: [f64; 3]) -> f64 {
    dot3(a, a).sqrt()
}
