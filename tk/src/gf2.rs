//! 64×64 matrices over GF(2), column representation: `c[j]` is the image of
//! the unit vector with bit j set.

#[derive(Clone, PartialEq, Eq, Debug)]
pub struct M64 {
    pub c: [u64; 64],
}

impl M64 {
    pub fn identity() -> Self {
        let mut c = [0u64; 64];
        for (j, x) in c.iter_mut().enumerate() {
            *x = 1 << j;
        }
        M64 { c }
    }
    /// Builds the matrix of a (presumed linear) map by observing it on the
    /// 64 unit vectors.
    pub fn observe(mut f: impl FnMut(u64) -> u64) -> Self {
        let mut c = [0u64; 64];
        for (j, x) in c.iter_mut().enumerate() {
            *x = f(1 << j);
        }
        M64 { c }
    }
    #[inline]
    pub fn apply(&self, mut x: u64) -> u64 {
        let mut r = 0;
        while x != 0 {
            let j = x.trailing_zeros() as usize;
            r ^= self.c[j];
            x &= x - 1;
        }
        r
    }
    /// self ∘ other
    pub fn mul(&self, o: &M64) -> M64 {
        let mut c = [0u64; 64];
        for j in 0..64 {
            c[j] = self.apply(o.c[j]);
        }
        M64 { c }
    }
    pub fn pow(&self, mut e: u128) -> M64 {
        let mut base = self.clone();
        let mut r = M64::identity();
        while e != 0 {
            if e & 1 == 1 {
                r = r.mul(&base);
            }
            base = base.mul(&base);
            e >>= 1;
        }
        r
    }
    /// Row b as a mask over input bits.
    pub fn row(&self, b: usize) -> u64 {
        let mut m = 0u64;
        for j in 0..64 {
            m |= ((self.c[j] >> b) & 1) << j;
        }
        m
    }
    pub fn inverse(&self) -> Option<M64> {
        // Solve M x = e_i for each i via elimination on rows.
        let mut rows: Vec<(u64, u64)> = (0..64).map(|b| (self.row(b), 1u64 << b)).collect();
        // rows[b] = (coefficients over x, combination of outputs y)
        for col in 0..64 {
            let p = (col..64).find(|&r| (rows[r].0 >> col) & 1 == 1)?;
            rows.swap(col, p);
            let (pc, py) = rows[col];
            for r in 0..64 {
                if r != col && (rows[r].0 >> col) & 1 == 1 {
                    rows[r].0 ^= pc;
                    rows[r].1 ^= py;
                }
            }
        }
        // now x_col = <rows[col].1, y>; inverse matrix row col = rows[col].1
        let mut c = [0u64; 64];
        for (i, r) in rows.iter().enumerate() {
            for j in 0..64 {
                c[j] |= ((r.1 >> j) & 1) << i;
            }
        }
        Some(M64 { c })
    }
}

/// Linear system over GF(2) in ≤ 64 unknowns: rows of (mask, rhs).
/// Returns (particular solution, basis of the null space) or None if
/// inconsistent.
pub fn solve(eqs: &[(u64, bool)]) -> Option<(u64, Vec<u64>)> {
    let mut rows: Vec<(u64, bool)> = eqs.to_vec();
    let mut pivots: Vec<(usize, usize)> = vec![]; // (col, row index)
    let mut r = 0;
    for col in 0..64 {
        if r >= rows.len() {
            break;
        }
        let Some(p) = (r..rows.len()).find(|&i| (rows[i].0 >> col) & 1 == 1) else {
            continue;
        };
        rows.swap(r, p);
        let (pm, pb) = rows[r];
        for i in 0..rows.len() {
            if i != r && (rows[i].0 >> col) & 1 == 1 {
                rows[i].0 ^= pm;
                rows[i].1 ^= pb;
            }
        }
        pivots.push((col, r));
        r += 1;
    }
    for row in &rows[r..] {
        if row.0 == 0 && row.1 {
            return None;
        }
    }
    let mut x = 0u64;
    for &(col, ri) in &pivots {
        if rows[ri].1 {
            x |= 1 << col;
        }
    }
    let pivot_cols: u64 = pivots.iter().fold(0, |a, &(c, _)| a | (1 << c));
    let mut basis = vec![];
    for free in 0..64 {
        if (pivot_cols >> free) & 1 == 1 {
            continue;
        }
        let mut v = 1u64 << free;
        for &(col, ri) in &pivots {
            if (rows[ri].0 >> free) & 1 == 1 {
                v |= 1 << col;
            }
        }
        basis.push(v);
    }
    Some((x, basis))
}
