//! xoshiro256** seeded through splitmix64. Independent of the library's
//! Xorshift64, which is itself a monitored object (C19).

use crate::mix64;

#[derive(Clone, Debug)]
pub struct Rng {
    s: [u64; 4],
}

impl Rng {
    pub fn new(seed: u64) -> Self {
        let mut z = seed;
        let mut s = [0u64; 4];
        for x in &mut s {
            z = z.wrapping_add(0x9e3779b97f4a7c15);
            *x = mix64(z);
        }
        if s == [0; 4] {
            s[0] = 1;
        }
        Rng { s }
    }

    /// The generator of case `idx` of stream `stream` of a property: every
    /// case is a pure function of (property, VERIF_SEED, stream, idx), which
    /// makes replay and sharding trivial.
    pub fn for_case(prop: &str, seed: u64, stream: u32, idx: u64) -> Self {
        let mut h = crate::Hasher::new();
        h.bytes(prop.as_bytes()).u64(seed).u64(stream as u64).u64(idx);
        Rng::new(h.get())
    }

    #[inline]
    pub fn u64(&mut self) -> u64 {
        let r = self.s[1].wrapping_mul(5).rotate_left(7).wrapping_mul(9);
        let t = self.s[1] << 17;
        self.s[2] ^= self.s[0];
        self.s[3] ^= self.s[1];
        self.s[1] ^= self.s[2];
        self.s[0] ^= self.s[3];
        self.s[2] ^= t;
        self.s[3] = self.s[3].rotate_left(45);
        r
    }
    #[inline]
    pub fn u32(&mut self) -> u32 {
        (self.u64() >> 32) as u32
    }
    /// Uniform in 0..n (n > 0).
    #[inline]
    pub fn below(&mut self, n: u64) -> u64 {
        debug_assert!(n > 0);
        ((self.u64() as u128 * n as u128) >> 64) as u64
    }
    #[inline]
    pub fn usize(&mut self, n: usize) -> usize {
        self.below(n as u64) as usize
    }
    /// Uniform integer in lo..=hi.
    #[inline]
    pub fn int(&mut self, lo: i64, hi: i64) -> i64 {
        lo + self.below((hi - lo + 1) as u64) as i64
    }
    /// Uniform in [0,1).
    #[inline]
    pub fn unit(&mut self) -> f64 {
        (self.u64() >> 11) as f64 / (1u64 << 53) as f64
    }
    #[inline]
    pub fn f64_in(&mut self, lo: f64, hi: f64) -> f64 {
        lo + (hi - lo) * self.unit()
    }
    #[inline]
    pub fn f32_in(&mut self, lo: f32, hi: f32) -> f32 {
        (lo as f64 + (hi as f64 - lo as f64) * self.unit()) as f32
    }
    /// Log-uniform magnitude in [lo, hi], lo > 0.
    pub fn log_f32(&mut self, lo: f32, hi: f32) -> f32 {
        let (a, b) = ((lo as f64).ln(), (hi as f64).ln());
        self.f64_in(a, b).exp() as f32
    }
    #[inline]
    pub fn chance(&mut self, num: u64, den: u64) -> bool {
        self.below(den) < num
    }
    #[inline]
    pub fn bool(&mut self) -> bool {
        self.u64() >> 63 == 1
    }
    #[inline]
    pub fn pick<T: Copy>(&mut self, xs: &[T]) -> T {
        xs[self.usize(xs.len())]
    }
    pub fn sign(&mut self) -> f32 {
        if self.bool() {
            1.0
        } else {
            -1.0
        }
    }
    pub fn shuffle<T>(&mut self, xs: &mut [T]) {
        for i in (1..xs.len()).rev() {
            let j = self.usize(i + 1);
            xs.swap(i, j);
        }
    }
    /// A random f32 bit pattern (any class, incl. NaN/inf/subnormal).
    pub fn any_f32(&mut self) -> f32 {
        f32::from_bits(self.u32())
    }
    /// Nudge by -1, 0 or +1 ulp.
    pub fn ulp_nudge(&mut self, x: f32) -> f32 {
        match self.below(3) {
            0 => crate::next_down(x),
            1 => x,
            _ => crate::next_up(x),
        }
    }
}
